"""C19 input adaptor: the real vppfs / vppclassdiagram readers and the views of their results that are compared with the
extracted Model/UmlBlob.v (same nested-list shapes as ocaml/cmds_zumlblob.ml prints)."""
import os
import sqlite3

from . import kj, vppsynth as vs

from kojen import vppfs, vppclassdiagram, LanguageCPP  # noqa: E402


def read_rows(path):
    """(diagrams, delems, melems) of a project file, bytes / None, in table order"""
    con = sqlite3.connect("file:%s?mode=ro" % path, uri=True)
    try:
        b = lambda x: None if x is None else (x if isinstance(x, bytes) else str(x).encode("utf-8"))  # noqa: E731
        ds = [tuple(b(x) for x in r) for r in con.execute("SELECT ID, DIAGRAM_TYPE, NAME FROM DIAGRAM")]
        es = [tuple(b(x) for x in r) for r in con.execute("SELECT ID, SHAPE_TYPE, DIAGRAM_ID, MODEL_ELEMENT_ID FROM DIAGRAM_ELEMENT")]
        ms = [tuple(b(x) for x in r) for r in con.execute("SELECT ID, MODEL_TYPE, PARENT_ID, NAME, DEFINITION FROM MODEL_ELEMENT")]
    finally:
        con.close()
    return ds, es, ms


def e(s):
    return s.encode("utf-8") if isinstance(s, str) else s


def pv_view(v):
    if isinstance(v, dict):
        return [b"d", [[e(k), pv_view(x)] for k, x in v.items()]]
    return [b"s", e(v)]


def real_parse(blobstr):
    try:
        with kj.quiet():
            return [pv_view(vppfs.ParseBLOB_Recursive(blobstr))]
    except Exception:  # noqa
        return []


def bb(x):
    return b"1" if x else b"0"


class NotAString(Exception):
    pass


def s_(x):
    if not isinstance(x, str):
        raise NotAString(repr(x)[:80])       # the model treats a dict stored where a text belongs as an exception
    return e(x)


def rdiagram_view(cd):
    classes = []
    for c in cd.classes.values():
        ops = [[s_(o.NAME), s_(o.VISIBILITY), s_(o.RETURN_TYPE), s_(o.RETURN_TYPE_MODIFIER),
                [[s_(p["const"]), s_(p["type"]), s_(p["name"]), s_(p["modifier"]), s_(p["defaultvalue"]), s_(p["multiplicity"]), s_(p["direction"])]
                 for p in o.PARAMETERS], s_(o.USER_COMMENTS), bb(o.VIRTUAL), bb(o.IS_STATIC), bb(o.IS_CONST)] for o in c.OPERATIONS]
        ats = [[s_(a.NAME), s_(a.VISIBILITY), s_(a.TYPE_MODIFIER), s_(a.USER_COMMENTS), s_(a.TYPE), s_(a.MULTIPLICITY), bb(a.HAS_SETTER),
                bb(a.HAS_GETTER), bb(a.IS_STATIC), bb(a.IS_CONST), [] if a.INITIAL_VALUE is None else [s_(a.INITIAL_VALUE)]] for a in c.ATTRIBUTES]
        classes.append([s_(c.ID), s_(c.NAME), s_(c.NAMESPACE), bb(c.PURE_VIRTUAL_INTERFACE), bb(c.AUTOGEN), bb(c.IS_ENUM), bb(c.IS_STRUCT),
                        bb(c.IS_STRUCT_PACKED), s_(c.USER_COMMENTS), [s_(x) for x in c.ENUM_LITERALS], ops, ats])
    packages = [[s_(p.ID), s_(p.NAME), [s_(x) for x in p.CLASSES_IN_PACKAGE]] for p in cd.packages.values()]
    assocs = [[s_(a.ID), s_(a.NAME), s_(a.TYPE), s_(a.USER_COMMENTS),
               s_(a.CLASS_FROM), s_(a.CLASS_FROM_ID), s_(a.CLASS_FROM_VISIBILITY), bb(a.CLASS_FROM_IS_STATIC), bb(a.CLASS_FROM_IS_CONST),
               s_(a.CLASS_FROM_MULTIPLICITY), bb(a.CLASS_FROM_HAS_GETTER), bb(a.CLASS_FROM_HAS_SETTER),
               s_(a.CLASS_TO), s_(a.CLASS_TO_ID), s_(a.CLASS_TO_VISIBILITY), bb(a.CLASS_TO_IS_STATIC), bb(a.CLASS_TO_IS_CONST),
               s_(a.CLASS_TO_MULTIPLICITY), bb(a.CLASS_TO_HAS_GETTER), bb(a.CLASS_TO_HAS_SETTER)] for a in cd.associations.values()]
    inhs = [[s_(i.ID), bb(i.IS_REALIZATION), s_(i.CLASS_FROM), s_(i.CLASS_FROM_ID), s_(i.CLASS_TO), s_(i.CLASS_TO_ID)] for i in cd.inheritence.values()]
    return [classes, packages, assocs, inhs]


def real_load(path, name):
    """([view] | [], class diagram object | None, error text)"""
    try:
        with kj.quiet():
            cd = vppclassdiagram.ExtractClassDiagram(name.decode("utf-8") if isinstance(name, bytes) else name, path)
        return [rdiagram_view(cd)], cd, None
    except Exception as ex:  # noqa
        return [], None, "%s: %s" % (type(ex).__name__, ex)


def conv_bytes(x):
    return [conv_bytes(y) for y in x] if isinstance(x, list) else e(x)


def abstract_view_cs(cd):
    """what harness/umlsynth.abstract_cs computes (the diagram as LanguageCsharp renders it), as bytes (the shape of ub_adaptor_cs's reply)"""
    from . import umlsynth
    from kojen import LanguageCsharp
    D = umlsynth.abstract_cs(cd, LanguageCsharp.LanguageCsharp())
    def conv(x):
        return [conv(y) for y in x] if isinstance(x, list) else e(x)
    return conv(D)


def abstract_view(cd):
    """what harness/umlsynth.abstract computes, as bytes (the shape of ub_adaptor's reply)"""
    from . import umlsynth
    D = umlsynth.abstract(cd, LanguageCPP.LanguageCPP())
    def conv(x):
        return [conv(y) for y in x] if isinstance(x, list) else e(x)
    return conv(D)


# ---------------------------------------------------------------- objects -> structured blobs -> project rows (the assumed writer)

class Unencodable(Exception):
    """the object graph holds something no project file produces (e.g. 'package' visibility, const without direction in)"""


VIS_CODE = {"public": b"71", "protected": b"67", "private": b"66"}
PLAIN = set(range(32, 127)) - set(b"=<>;\\\"()'")
T1, T2, T3, T4 = b"\r\n\t", b"\r\n\t\t", b"\r\n\t\t\t", b"\r\n\t\t\t\t"


NAME_CHARS = set(range(32, 127)) - set(b'"\\\';{}')


def plain_text(s, what, allow_empty=True):
    b = s.encode("utf-8") if isinstance(s, str) else s
    if what in ("operation name", "attribute name", "parameter name", "literal", "association name"):
        # a member's NAME is read as it stands between its quotes (K-C19-7 repaired): = < > ( ) , : are ordinary characters
        if any(c not in NAME_CHARS for c in b) or b != b.strip() or (not b and not allow_empty):
            raise Unencodable("%s %r cannot stand in a blob header" % (what, s))
        return b
    value = what in ("default", "comment", "multiplicity", "modifier", "typeModifier", "initialValue_string", "defaultValue_string")
    if any(c not in PLAIN for c in b) or b != b.strip() or b"," in b and not (value and b.replace(b",", b"").strip()) or (not b and not allow_empty):
        raise Unencodable("%s %r is not plain text" % (what, s))
    return b


def sanitize_comment(s):
    t = "".join(ch for ch in s if ord(ch) < 127 and ord(ch) in PLAIN).strip()
    return t if t.replace(",", "").strip() else ""


def normalise(cd):
    """the object graph as a project file can express it (in place): comments without special characters, parameter constness
    tied to the direction; raises Unencodable for the rest"""
    for c in cd.classes.values():
        c.USER_COMMENTS = sanitize_comment(c.USER_COMMENTS)
        for o in c.OPERATIONS:
            o.USER_COMMENTS = sanitize_comment(o.USER_COMMENTS)
            if o.VISIBILITY not in VIS_CODE:
                raise Unencodable("operation visibility %r" % o.VISIBILITY)
            for p in o.PARAMETERS:
                p["direction"] = "in" if p["const"] == "const" else ("out" if p.get("direction") == "out" else "inout")
        for a in c.ATTRIBUTES:
            a.USER_COMMENTS = sanitize_comment(a.USER_COMMENTS)
            if a.VISIBILITY not in VIS_CODE:
                raise Unencodable("attribute visibility %r" % a.VISIBILITY)
    for a in cd.associations.values():
        a.USER_COMMENTS = sanitize_comment(a.USER_COMMENTS)
    return cd


class Project:
    def __init__(self, rng):
        self.rng = rng
        self.used = set()
        self.rows = []          # referenced (not drawn) MODEL_ELEMENT rows
        self.types = {}

    def new_id(self):
        while True:
            s = "".join(self.rng.choice(vs.IDCH) for _ in range(16)).encode()
            if s not in self.used:
                self.used.add(s)
                return s

    def noise(self, ws):
        pool = [(b"_modelEditable", b"T"), (b"pmAuthor", b'"kohja"'), (b"pmCreateDateTime", b'"1585312511837"'), (b"lastModifiedTime", b"1585318039382"),
                (b"_modelViews", b"NULL"), (b"pmLastModified", b'"1585318069400"')]
        return [("field", ws, k, v) for k, v in self.rng.sample(pool, self.rng.randint(0, 3))]

    def shuffled(self, items, ws):
        items = items + self.noise(ws)
        self.rng.shuffle(items)
        return items

    def type_ref(self, name):
        """the id of an element whose NAME is the (fully qualified) type name"""
        if name not in self.types:
            i = self.new_id()
            self.types[name] = i
            self.rows.append((i, b"DataType", None, plain_text(name, "type name", False), ("node", i, plain_text(name, "type name", False), b"DataType", self.noise(T1), b"\r\n")))
        return self.types[name]

    def stereotype(self, name):
        return self.type_ref_as(name, b"Stereotype")

    def type_ref_as(self, name, ty):
        key = (name, ty)
        if key not in self.types:
            i = self.new_id()
            self.types[key] = i
            self.rows.append((i, ty, None, name.encode(), ("node", i, name.encode(), ty, self.noise(T1), b"\r\n")))
        return self.types[key]

    def q(self, text):
        return b'"' + text + b'"'

    def param(self, p):
        items = []
        if self.rng.random() < 0.5 and p["type"] and "::" not in p["type"]:
            items.append(("field", T4, b"type_string", self.q(plain_text(p["type"], "parameter type", False))))
        else:
            items.append(("refs", T4, b"type", b"", b"", b"", [self.type_ref(p["type"])]))
        if p["direction"] == "in":
            items.append(("field", T4, b"direction", b"65"))
        elif p["direction"] == "out":
            items.append(("field", T4, b"direction", b"66"))
        for key, val in ((b"typeModifier", p["modifier"]), (b"defaultValue_string", p["defaultvalue"]), (b"multiplicity", p["multiplicity"])):
            if val:
                items.append(("field", T4, key, self.q(plain_text(val, "default" if key == b"defaultValue_string" else key.decode(), False))))
        i = self.new_id()
        return ("node", i, plain_text(p["name"], "parameter name"), b"Parameter", self.shuffled(items, T4), T3)

    def operation(self, o):
        items = [("field", T3, b"visibility", VIS_CODE[o.VISIBILITY])]
        if o.RETURN_TYPE != "void":
            items.append(("refs", T3, b"returnType", b"", b"", b"", [self.type_ref(o.RETURN_TYPE)]))
        if o.RETURN_TYPE_MODIFIER:
            items.append(("field", T3, b"typeModifier", self.q(plain_text(o.RETURN_TYPE_MODIFIER, "modifier", False))))
        if o.VIRTUAL:
            items.append(("field", T3, b"abstract", b"T"))
        if o.IS_CONST:
            items.append(("field", T3, b"query", b"T"))
        if o.IS_STATIC:
            items.append(("field", T3, b"scope", b"65"))
        if o.USER_COMMENTS:
            items.append(("field", T3, b"documentation_plain", self.q(plain_text(o.USER_COMMENTS, "comment"))))
        if o.PARAMETERS:
            items.append(("children", T3, b"Child", b"(" + T4, b", " + T4, T3 + b")", [self.param(p) for p in o.PARAMETERS]))
        return ("node", self.new_id(), plain_text(o.NAME, "operation name", False), b"Operation", self.shuffled(items, T3), T2)

    def attribute(self, a):
        items = []
        if a.VISIBILITY != "private" or self.rng.random() < 0.5:
            items.append(("field", T3, b"visibility", VIS_CODE[a.VISIBILITY]))
        if a.TYPE != "void":
            items.append(("refs", T3, b"type", b"", b"", b"", [self.type_ref(a.TYPE)]))
        for key, val in ((b"typeModifier", a.TYPE_MODIFIER), (b"multiplicity", a.MULTIPLICITY), (b"documentation_plain", a.USER_COMMENTS)):
            if val:
                items.append(("field", T3, key, self.q(plain_text(val, key.decode(), False))))
        if a.INITIAL_VALUE is not None:
            if not a.INITIAL_VALUE:
                raise Unencodable("empty initial value")
            items.append(("field", T3, b"initialValue_string", self.q(plain_text(a.INITIAL_VALUE, "default", False))))
        for key, flag in ((b"hasSetter", a.HAS_SETTER), (b"hasGetter", a.HAS_GETTER), (b"readOnly", a.IS_CONST)):
            if flag:
                items.append(("field", T3, key, b"T"))
        if a.IS_STATIC:
            items.append(("field", T3, b"scope", b"65"))
        return ("node", self.new_id(), plain_text(a.NAME, "attribute name"), b"Attribute", self.shuffled(items, T3), T2)

    def klass(self, c):
        items = []
        st = []
        if c.PURE_VIRTUAL_INTERFACE:
            if self.rng.random() < 0.7:
                st.append(self.stereotype("Interface"))
            else:
                items.append(("field", T1, b"abstract", b"T"))
        if c.AUTOGEN:
            st.append(self.stereotype("autogen"))
        if c.IS_ENUM:
            st.append(self.stereotype("enumeration"))
        if c.IS_STRUCT:
            st.append(self.stereotype("PackedStruct" if c.IS_STRUCT_PACKED else "Struct"))
        elif c.IS_STRUCT_PACKED:
            raise Unencodable("packed without struct")
        if st:
            items.append(("refs", T1, b"stereotypes", b"(" + T2, b", " + T2, T1 + b")", st))
        if c.USER_COMMENTS:
            items.append(("field", T1, b"documentation_plain", self.q(plain_text(c.USER_COMMENTS, "comment"))))
        if c.ENUM_LITERALS and not c.IS_ENUM:
            raise Unencodable("literals without enumeration")
        # operations, attributes and literals interleaved at random, each kind keeping its order (the reader appends in text order)
        kids = vs.merge(self.rng, [self.operation(o) for o in c.OPERATIONS], [self.attribute(a) for a in c.ATTRIBUTES])
        kids = vs.merge(self.rng, kids, [("node", self.new_id(), plain_text(l, "literal", False), b"EnumerationLiteral", self.noise(T3), T2)
                                         for l in c.ENUM_LITERALS])
        if kids:
            items.append(("children", T1, b"Child", b"(" + T2, b", " + T2, T1 + b")", kids))
        return ("node", c.ID.encode(), plain_text(c.NAME, "class name"), b"Class", self.shuffled(items, T1), b"\r\n")

    def path(self, cd, cid, pkg_ids):
        """package chain + class id, ':' separated"""
        c = cd.classes[cid]
        chain = [pkg_ids[tuple(c.NAMESPACE.split("::")[:k + 1])] for k in range(len(c.NAMESPACE.split("::")))] if c.NAMESPACE else []
        return b":".join(chain + [cid.encode()])

    def end(self, cd, a, frm, pkg_ids):
        cid = a.CLASS_FROM_ID if frm else a.CLASS_TO_ID
        vis, st, co, mu, ge, se = ((a.CLASS_FROM_VISIBILITY, a.CLASS_FROM_IS_STATIC, a.CLASS_FROM_IS_CONST, a.CLASS_FROM_MULTIPLICITY, a.CLASS_FROM_HAS_GETTER, a.CLASS_FROM_HAS_SETTER)
                                   if frm else (a.CLASS_TO_VISIBILITY, a.CLASS_TO_IS_STATIC, a.CLASS_TO_IS_CONST, a.CLASS_TO_MULTIPLICITY, a.CLASS_TO_HAS_GETTER, a.CLASS_TO_HAS_SETTER))
        if cid not in cd.classes:
            raise Unencodable("association end outside the diagram")
        items = [("field", T2, b"Direction", b"0" if frm else b"1"), ("refs", T2, b"EndModelElement", b"", b"", b"", [self.path(cd, cid, pkg_ids)]),
                 ("field", T2, b"multiplicity", self.q(plain_text(mu, "multiplicity", False)))]
        if frm and a.TYPE != "Association":
            items.append(("field", T2, b"aggregationKind", b"66" if a.TYPE == "Aggregation" else b"67"))
        if st:
            if vis != "private":
                raise Unencodable("static association end with a visibility")
            items.append(("field", T2, b"visibility", b"68"))
        elif vis != "private" or self.rng.random() < 0.5:
            if vis not in VIS_CODE:
                raise Unencodable("association visibility %r" % vis)
            items.append(("field", T2, b"visibility", VIS_CODE[vis]))
        for key, flag in ((b"providePropertyGetterMethod", ge), (b"providePropertySetterMethod", se), (b"readOnly", co)):
            if flag:
                items.append(("field", T2, key, b"T"))
        return ("node", self.new_id(), b"", b"AssociationEnd", self.shuffled(items, T2), T1)

    def build(self, cd):
        """(db rows, diagram name) of a project holding the class diagram cd"""
        for c in cd.classes:
            self.used.add(c.encode())
        nss = []
        for c in cd.classes.values():
            parts = c.NAMESPACE.split("::") if c.NAMESPACE else []
            for k in range(len(parts)):
                if tuple(parts[:k + 1]) not in nss:
                    nss.append(tuple(parts[:k + 1]))
        pkg_ids = {ns: self.new_id() for ns in nss}
        drawn = []
        for cid, c in cd.classes.items():
            drawn.append((cid.encode(), b"Class", None, plain_text(c.NAME, "class name"), self.klass(c)))
        for ns in nss:
            members = [self.path(cd, cid, pkg_ids) for cid, c in cd.classes.items() if c.NAMESPACE == "::".join(ns)]
            items = [("refs", T1, b"Child", b"(" + T2, b", " + T2, T1 + b")", members)] if members else []
            drawn.append((pkg_ids[ns], b"Package", None, plain_text(ns[-1], "package name", False),
                          ("node", pkg_ids[ns], plain_text(ns[-1], "package name", False), b"Package", self.shuffled(items, T1), b"\r\n")))
        for i in cd.inheritence.values():
            if i.CLASS_FROM_ID not in cd.classes or i.CLASS_TO_ID not in cd.classes:
                raise Unencodable("inheritance to a class outside the diagram")
            iid = self.new_id()
            items = [("refs", T1, b"fromModel", b"", b"", b"", [self.path(cd, i.CLASS_FROM_ID, pkg_ids)]),
                     ("refs", T1, b"toModel", b"", b"", b"", [self.path(cd, i.CLASS_TO_ID, pkg_ids)])]
            ty = b"Realization" if i.IS_REALIZATION else b"Generalization"
            drawn.append((iid, ty, None, None, ("node", iid, None, ty, self.shuffled(items, T1), b"\r\n")))
        for a in cd.associations.values():
            aid = self.new_id()
            items = [("children", T1, b"from", b"", b"", b"", [self.end(cd, a, True, pkg_ids)]), ("children", T1, b"to", b"", b"", b"", [self.end(cd, a, False, pkg_ids)])]
            if a.USER_COMMENTS:
                items.append(("field", T1, b"documentation_plain", self.q(plain_text(a.USER_COMMENTS, "comment"))))
            nm = plain_text(a.NAME, "association name")
            drawn.append((aid, b"Association", None, nm, ("node", aid, nm, b"Association", self.shuffled(items, T1), b"\r\n")))
        # shapes in any drawing order, but classes, inheritances and associations each keep their relative order: it is the
        # dictionary order of the object graph (order of generated files, of realised operations, of members)
        kind = lambda d: "c" if d[1] == b"Class" else "i" if d[1] in (b"Realization", b"Generalization") else "a" if d[1] == b"Association" else "p"  # noqa: E731
        slots = [kind(d) for d in drawn]
        self.rng.shuffle(slots)
        pools = {k: iter([d for d in drawn if kind(d) == k]) for k in "ciap"}
        drawn = [next(pools[k]) for k in slots]
        return drawn


LAST_TREES = []        # the structured blobs of the project built last (for the printer tie)


def tree_bytes(node):
    from translator import umlblob as tu
    return tu.print_node(node)


def project_rows(rng, cd, name=None):
    """rows (diagrams, delems, melems) of a synthesised project whose class diagram `name` is cd (normalised in place)"""
    normalise(cd)
    pr = Project(rng)
    drawn = pr.build(cd)
    did = pr.new_id()
    name = (name or cd.name).encode()
    ms = [(i, ty, parent, nm, tree_bytes(node)) for (i, ty, parent, nm, node) in drawn] + \
         [(i, ty, parent, nm, tree_bytes(node)) for (i, ty, parent, nm, node) in pr.rows]
    LAST_TREES[:] = [node for (_i, _ty, _p, _nm, node) in drawn + pr.rows]
    es = [(pr.new_id(), ty, did, i) for (i, ty, _p, _n, _node) in drawn]
    rng.shuffle(ms)
    return ([(did, b"ClassDiagram", name)], es, ms), name


_PROJECTS = [0]


def project_path(scratch_dir):
    """every second synthesised project of a process goes to ONE path (the previous file there is replaced)"""
    _PROJECTS[0] += 1
    path = os.path.join(vs._same_dir(), "classes.vpp") if _PROJECTS[0] % 2 == 0 else os.path.join(scratch_dir, "classes.vpp")
    if os.path.exists(path):
        os.remove(path)
    return path


def modid(view, cd=None):
    """a view without the ids the writer invents (packages, inheritances, associations); package names from the class namespaces"""
    c, p, a, i = view
    names = sorted({x for k in c for x in k[2].split(b"::") if x}) if cd is not None else sorted(x[1] for x in p)
    return [c, names, [x[1:] for x in a], [x[1:] for x in i]]


def tree_v(node):
    """a structured blob (the tuples of translator/umlblob.py and of Project) as a kmodel value for ub_print_node"""
    _t, i, name, ty, items, tail = node
    out = []
    for it in items:
        k = it[0]
        if k == "field":
            out.append([b"F", it[1], it[2], it[3]])
        elif k == "refs":
            out.append([b"R", it[1], it[2], it[3], it[4], it[5], list(it[6])])
        elif k == "children":
            out.append([b"C", it[1], it[2], it[3], it[4], it[5], [tree_v(n) for n in it[6]]])
        elif k == "raw":
            out.append([b"W", it[1]])
        else:
            out.append([b"I", it[1]])
    return [i, [] if name is None else [name], ty, out, tail]


# ---------------------------------------------------------------- object graph -> SEMANTIC diagram (Model/UmlSem.v: sdiagram) as a kmodel value

VIS_B = {"public": b"71", "protected": b"67", "private": b"66"}
NOISE_POOL = [(b"_modelEditable", b"T"), (b"pmAuthor", b'"kohja"'), (b"pmCreateDateTime", b'"1585312511837"'), (b"lastModifiedTime", b"1585318039382"),
              (b"_modelViews", b"NULL"), (b"pmLastModified", b'"1585318069400"')]


class Semantic:
    """builds the value of an sdiagram from a (normalised) class diagram object graph; ids are invented
    except those of the classes; every layout is a random permutation of the present properties and some noise"""

    def __init__(self, rng):
        self.rng = rng
        self.used = set()
        self.refs = {}          # (kind, name) -> id
        self.ref_rows = []
        self.nl = rng.choice((b"\r\n", b"\r\n", b"\n"))          # the line break of the whole project (the shipped one mixes both by row)

    def new_id(self):
        while True:
            s = "".join(self.rng.choice(vs.IDCH) for _ in range(16)).encode()
            if s not in self.used:
                self.used.add(s)
                return s

    def layout(self, tags, depth=0, kind=""):
        """the present properties, some scalar noise and some INERT properties (other white space, reference lists, owned elements the
        reader ignores, free text) in any order; depth = tabs of the element's closing brace"""
        slots = [[b"T", t.encode()] for t in tags] + [[b"N", k, v] for k, v in self.rng.sample(NOISE_POOL, self.rng.randint(0, 3))]
        ws = self.nl + b"\t" * (depth + 1)
        for c in self.rng.sample(range(5), self.rng.choice((0, 0, 1, 2))):          # distinct kinds: no property key twice
            if c == 0:
                it = [b"F", self.rng.choice((ws, self.nl, ws + b"\t")), self.rng.choice((b"static", b"returnType_string", b"unique")), self.rng.choice((b"T", b'"a, b"', b'""'))]
            elif c == 1:
                it = [b"R", ws, self.rng.choice((b"ToSimpleRelationships", b"container", b"classifiers")), b"(" + ws + b"\t", b", " + ws + b"\t", ws + b")",
                      [self.new_id() + b":" + self.new_id() + b"$" + self.new_id() for _ in range(self.rng.randint(1, 3))]]
            elif c == 2:
                view = [self.new_id(), [b"View"], b"ModelView", [[b"R", ws + b"\t\t", b"container", b"", b"", b"", [self.new_id()]],
                                                             [b"F", ws + b"\t\t", b"view", b'"' + self.new_id() + b'"']], ws + b"\t"]
                it = [b"C", ws, self.rng.choice((b"_modelViews", b"qualifier", b"multiplicityDetail")), b"(" + ws + b"\t", b", " + ws + b"\t", ws + b")", [view]]
            elif c == 3:
                it = [b"W", ws + b'documentation="<head>' + self.nl + b'    <style type=\\"text/css\\">' + self.nl + b"      body { color: #000000; font-size: 11px }" + self.nl
                      + b"    </style>  </head>  <body>    <p>      It's a note; x=1 (see {a:b:Operation})    </p>  </body>" + b'";']
            else:
                it = [b"F", ws, self.rng.choice((b"visibility", b"type_string", b"abstract")) if kind == "free" else b"pmNote", b'"kept, as is"']
            slots.append([b"I", it])
        self.rng.shuffle(slots)
        return slots

    def ref(self, name, ty=b"DataType"):
        key = (ty, name)
        if key not in self.refs:
            i = self.new_id()
            self.refs[key] = i
            self.ref_rows.append([i, e(name), ty, [], self.nl, self.layout([], 0, "free")])
        return self.refs[key]

    def path(self, type_name):
        return [self.ref(part) for part in type_name.split("::")]

    def param(self, p):
        basic = "::" not in p["type"] and self.rng.random() < 0.5
        tags = ["typestring" if basic else "type"] + (["dir"] if p["direction"] in ("in", "out") else []) + \
               [t for t, v in (("typemod", p["modifier"]), ("default", p["defaultvalue"]), ("mult", p["multiplicity"])) if v]
        return [self.new_id(), e(p["name"]), [e(p["type"])] if basic else [], [] if basic else self.path(p["type"]),
                e(p["direction"]) if p["direction"] in ("in", "out") else b"", e(p["modifier"]), e(p["defaultvalue"]), e(p["multiplicity"]), self.nl, self.layout(tags, 4)]

    def op(self, o):
        tags = ["vis"] + (["ret"] if o.RETURN_TYPE != "void" else []) + (["typemod"] if o.RETURN_TYPE_MODIFIER else []) + \
               (["abstract"] if o.VIRTUAL else []) + (["query"] if o.IS_CONST else []) + (["scope"] if o.IS_STATIC else []) + \
               (["doc"] if o.USER_COMMENTS else []) + (["child"] if o.PARAMETERS else [])
        return [self.new_id(), e(o.NAME), [VIS_B[o.VISIBILITY]], self.path(o.RETURN_TYPE) if o.RETURN_TYPE != "void" else [], e(o.RETURN_TYPE_MODIFIER),
                bb(o.VIRTUAL), bb(o.IS_CONST), bb(o.IS_STATIC), [b"T", e(o.USER_COMMENTS)], [self.param(p) for p in o.PARAMETERS], self.nl, self.layout(tags, 2)]

    def attr(self, a):
        if a.INITIAL_VALUE is not None and not a.INITIAL_VALUE:
            raise Unencodable("empty initial value")
        vis = [] if (a.VISIBILITY == "private" and self.rng.random() < 0.5) else [VIS_B[a.VISIBILITY]]
        tags = (["vis"] if vis else []) + (["type"] if a.TYPE != "void" else []) + \
               [t for t, v in (("typemod", a.TYPE_MODIFIER), ("mult", a.MULTIPLICITY), ("doc", a.USER_COMMENTS), ("init", a.INITIAL_VALUE)) if v] + \
               [t for t, f in (("setter", a.HAS_SETTER), ("getter", a.HAS_GETTER), ("scope", a.IS_STATIC), ("readonly", a.IS_CONST)) if f]
        return [self.new_id(), e(a.NAME), vis, self.path(a.TYPE) if a.TYPE != "void" else [], e(a.TYPE_MODIFIER), e(a.MULTIPLICITY), [b"T", e(a.USER_COMMENTS)],
                e(a.INITIAL_VALUE or ""), bb(a.HAS_SETTER), bb(a.HAS_GETTER), bb(a.IS_STATIC), bb(a.IS_CONST), self.nl, self.layout(tags, 2)]

    def klass(self, c):
        st = []
        abstract = False
        if c.PURE_VIRTUAL_INTERFACE:
            if self.rng.random() < 0.7:
                st.append(self.ref("Interface", b"Stereotype"))
            else:
                abstract = True
        if c.AUTOGEN:
            st.append(self.ref("autogen", b"Stereotype"))
        if c.IS_ENUM:
            st.append(self.ref("enumeration", b"Stereotype"))
        if c.IS_STRUCT:
            st.append(self.ref("PackedStruct" if c.IS_STRUCT_PACKED else "Struct", b"Stereotype"))
        elif c.IS_STRUCT_PACKED:
            raise Unencodable("packed without struct")
        if c.ENUM_LITERALS and not c.IS_ENUM:
            raise Unencodable("literals without enumeration")
        members = vs.merge(self.rng, [[b"op", self.op(o)] for o in c.OPERATIONS], [[b"attr", self.attr(a)] for a in c.ATTRIBUTES])
        members = vs.merge(self.rng, members, [[b"lit", self.new_id(), e(l), self.nl, self.layout([], 2, "free")] for l in c.ENUM_LITERALS])
        tags = (["stereo"] if st else []) + (["abstract"] if abstract else []) + (["doc"] if c.USER_COMMENTS else []) + (["child"] if members else [])
        return [e(c.ID), e(c.NAME), [], st, bb(abstract), [b"T", e(c.USER_COMMENTS)], members, self.nl, self.layout(tags)]

    def end(self, cd, a, frm, cpath):
        """one association end; a multiplicity is left out when the reader's default gives the same value whatever the order of the ends"""
        cid = a.CLASS_FROM_ID if frm else a.CLASS_TO_ID
        vis, st, co, mu, ge, se = ((a.CLASS_FROM_VISIBILITY, a.CLASS_FROM_IS_STATIC, a.CLASS_FROM_IS_CONST, a.CLASS_FROM_MULTIPLICITY, a.CLASS_FROM_HAS_GETTER, a.CLASS_FROM_HAS_SETTER)
                                   if frm else (a.CLASS_TO_VISIBILITY, a.CLASS_TO_IS_STATIC, a.CLASS_TO_IS_CONST, a.CLASS_TO_MULTIPLICITY, a.CLASS_TO_HAS_GETTER, a.CLASS_TO_HAS_SETTER))
        if cid not in cd.classes:
            raise Unencodable("association end outside the diagram")
        if not mu:
            raise Unencodable("association end without multiplicity")
        omit = mu == "0..1" and (a.TYPE != "Composition" if frm else a.TYPE == "Association") and self.rng.random() < 0.5
        agg = [b"66" if a.TYPE == "Aggregation" else b"67"] if frm and a.TYPE != "Association" else []
        if st:
            if vis != "private":
                raise Unencodable("static association end with a visibility")
            code = [b"68"]
        elif vis != "private" or self.rng.random() < 0.5:
            if vis not in VIS_B:
                raise Unencodable("association visibility %r" % vis)
            code = [VIS_B[vis]]
        else:
            code = []
        tags = ["dir", "type"] + ([] if omit else ["mult"]) + (["agg"] if agg else []) + (["vis"] if code else []) + \
               [t for t, f in (("getter", ge), ("setter", se), ("readonly", co)) if f]
        return [self.new_id(), self.rng.choice([[], [b""]]), cpath(cid), b"" if omit else e(mu), agg, code, bb(ge), bb(se), bb(co), self.nl, self.layout(tags, 1)]

    def assoc(self, cd, a, cpath):
        if a.TYPE not in ("Association", "Aggregation", "Composition"):
            raise Unencodable("association type %r" % a.TYPE)
        return [self.new_id(), [e(a.NAME)] if a.NAME or self.rng.random() < 0.5 else [], [], [b"T", e(a.USER_COMMENTS)], self.end(cd, a, True, cpath),
                self.end(cd, a, False, cpath), self.nl, self.layout(["from", "to"] + (["doc"] if a.USER_COMMENTS else []))]

    def build(self, cd, name=None):
        for cid in cd.classes:
            self.used.add(cid.encode())
        nss = []
        for c in cd.classes.values():
            parts = c.NAMESPACE.split("::") if c.NAMESPACE else []
            for k in range(len(parts)):
                if tuple(parts[:k + 1]) not in nss:
                    nss.append(tuple(parts[:k + 1]))
        pkg = {ns: self.new_id() for ns in nss}

        def cpath(cid):
            c = cd.classes[cid]
            parts = c.NAMESPACE.split("::") if c.NAMESPACE else []
            return [pkg[tuple(parts[:k + 1])] for k in range(len(parts))] + [cid.encode()]
        shapes = [[b"class", self.klass(c)] for c in cd.classes.values()]
        for ns in nss:
            paths = [cpath(cid) for cid, c in cd.classes.items() if c.NAMESPACE == "::".join(ns)]
            shapes.append([b"package", [pkg[ns], e(ns[-1]), [], paths, self.nl, self.layout(["child"] if paths else [])]])
        for i in cd.inheritence.values():
            if i.CLASS_FROM_ID not in cd.classes or i.CLASS_TO_ID not in cd.classes:
                raise Unencodable("inheritance to a class outside the diagram")
            shapes.append([b"inh", [self.new_id(), [], bb(i.IS_REALIZATION), cpath(i.CLASS_FROM_ID), cpath(i.CLASS_TO_ID), self.nl, self.layout(["from", "to"])]])
        for a in cd.associations.values():
            shapes.append([b"assoc", self.assoc(cd, a, cpath)])
        if self.rng.random() < 0.3:
            shapes.append([b"other", self.new_id(), [], b"Usage", [], self.nl, self.layout([], 0, "free")])
        # shapes in any drawing order, each kind keeping its relative order
        kind = lambda s: s[0]  # noqa: E731
        slots = [kind(s) for s in shapes]
        self.rng.shuffle(slots)
        pools = {k: iter([s for s in shapes if kind(s) == k]) for k in set(slots)}
        shapes = [next(pools[k]) for k in slots]
        return [self.new_id(), e(name or cd.name), [[self.new_id(), s] for s in shapes], self.ref_rows]


def semantic_value(rng, cd, name=None):
    """(kmodel value of the sdiagram, name) for the object graph cd (normalised in place)"""
    normalise(cd)
    return Semantic(rng).build(cd, name), (name or cd.name).encode()
