"""C19 input adaptor: the real vppfs / vppclassdiagram readers and the views of their results that are compared with the
extracted Model/UmlBlob.v (same nested-list shapes as ocaml/cmds_zumlblob.ml prints)."""
import os
import sqlite3

from . import kj, vppsynth as vs

from kojen import vppfs, vppclassdiagram, LanguageCPP  # noqa: E402


def read_rows(path):
    """(diagrams, delems, melems) of a project file, bytes / None, in table order"""
    con = sqlite3.connect("file:%s?mode=ro" % path, uri=True)
    try:
        b = lambda x: None if x is None else (x if isinstance(x, bytes) else str(x).encode("utf-8"))  # noqa: E731
        ds = [tuple(b(x) for x in r) for r in con.execute("SELECT ID, DIAGRAM_TYPE, NAME FROM DIAGRAM")]
        es = [tuple(b(x) for x in r) for r in con.execute("SELECT ID, SHAPE_TYPE, DIAGRAM_ID, MODEL_ELEMENT_ID FROM DIAGRAM_ELEMENT")]
        ms = [tuple(b(x) for x in r) for r in con.execute("SELECT ID, MODEL_TYPE, PARENT_ID, NAME, DEFINITION FROM MODEL_ELEMENT")]
    finally:
        con.close()
    return ds, es, ms


def e(s):
    return s.encode("utf-8") if isinstance(s, str) else s


def pv_view(v):
    if isinstance(v, dict):
        return [b"d", [[e(k), pv_view(x)] for k, x in v.items()]]
    return [b"s", e(v)]


def real_parse(blobstr):
    try:
        with kj.quiet():
            return [pv_view(vppfs.ParseBLOB_Recursive(blobstr))]
    except Exception:  # noqa
        return []


def bb(x):
    return b"1" if x else b"0"


class NotAString(Exception):
    pass


def s_(x):
    if not isinstance(x, str):
        raise NotAString(repr(x)[:80])       # the model treats a dict stored where a text belongs as an exception
    return e(x)


def rdiagram_view(cd):
    classes = []
    for c in cd.classes.values():
        ops = [[s_(o.NAME), s_(o.VISIBILITY), s_(o.RETURN_TYPE), s_(o.RETURN_TYPE_MODIFIER),
                [[s_(p["const"]), s_(p["type"]), s_(p["name"]), s_(p["modifier"]), s_(p["defaultvalue"]), s_(p["multiplicity"]), s_(p["direction"])]
                 for p in o.PARAMETERS], s_(o.USER_COMMENTS), bb(o.VIRTUAL), bb(o.IS_STATIC), bb(o.IS_CONST)] for o in c.OPERATIONS]
        ats = [[s_(a.NAME), s_(a.VISIBILITY), s_(a.TYPE_MODIFIER), s_(a.USER_COMMENTS), s_(a.TYPE), s_(a.MULTIPLICITY), bb(a.HAS_SETTER),
                bb(a.HAS_GETTER), bb(a.IS_STATIC), bb(a.IS_CONST), [] if a.INITIAL_VALUE is None else [s_(a.INITIAL_VALUE)]] for a in c.ATTRIBUTES]
        classes.append([s_(c.ID), s_(c.NAME), s_(c.NAMESPACE), bb(c.PURE_VIRTUAL_INTERFACE), bb(c.AUTOGEN), bb(c.IS_ENUM), bb(c.IS_STRUCT),
                        bb(c.IS_STRUCT_PACKED), s_(c.USER_COMMENTS), [s_(x) for x in c.ENUM_LITERALS], ops, ats])
    packages = [[s_(p.ID), s_(p.NAME), [s_(x) for x in p.CLASSES_IN_PACKAGE]] for p in cd.packages.values()]
    assocs = [[s_(a.ID), s_(a.NAME), s_(a.TYPE), s_(a.USER_COMMENTS),
               s_(a.CLASS_FROM), s_(a.CLASS_FROM_ID), s_(a.CLASS_FROM_VISIBILITY), bb(a.CLASS_FROM_IS_STATIC), bb(a.CLASS_FROM_IS_CONST),
               s_(a.CLASS_FROM_MULTIPLICITY), bb(a.CLASS_FROM_HAS_GETTER), bb(a.CLASS_FROM_HAS_SETTER),
               s_(a.CLASS_TO), s_(a.CLASS_TO_ID), s_(a.CLASS_TO_VISIBILITY), bb(a.CLASS_TO_IS_STATIC), bb(a.CLASS_TO_IS_CONST),
               s_(a.CLASS_TO_MULTIPLICITY), bb(a.CLASS_TO_HAS_GETTER), bb(a.CLASS_TO_HAS_SETTER)] for a in cd.associations.values()]
    inhs = [[s_(i.ID), bb(i.IS_REALIZATION), s_(i.CLASS_FROM), s_(i.CLASS_FROM_ID), s_(i.CLASS_TO), s_(i.CLASS_TO_ID)] for i in cd.inheritence.values()]
    return [classes, packages, assocs, inhs]


def real_load(path, name):
    """([view] | [], class diagram object | None, error text)"""
    try:
        with kj.quiet():
            cd = vppclassdiagram.ExtractClassDiagram(name.decode("utf-8") if isinstance(name, bytes) else name, path)
        return [rdiagram_view(cd)], cd, None
    except Exception as ex:  # noqa
        return [], None, "%s: %s" % (type(ex).__name__, ex)


def abstract_view(cd):
    """what harness/umlsynth.abstract computes, as bytes (the shape of ub_adaptor's reply)"""
    from . import umlsynth
    D = umlsynth.abstract(cd, LanguageCPP.LanguageCPP())
    def conv(x):
        return [conv(y) for y in x] if isinstance(x, list) else e(x)
    return conv(D)
