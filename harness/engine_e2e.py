"""End-to-end access to the template engine through the public state-machine entry points, and the generators of
probe templates (C16, C17).  Templates are abstract syntax in the wire format of ocaml/cmds_engine.ml:

  seg  = ["L", text] | ["T", name] | ["T", name, default]          line = [seg, ...]
  hdr  = ["HL", text] | ["HT", name] | ["HT", name, default]
  item = ["P", line] | ["C", [tag, [line...]], [[tag, [line...]], ...], [] | [[line...]]] | ["F", hdr, [line...]]
"""
import os

from . import kj
from .kj import kojentypes

KINDS = ("py", "cpp", "cs")


# ---------------------------------------------------------------- independent rendering (cross-checked with Spec render)
def render_seg(g):
    if g[0] == "L":
        return g[1]
    return "<<<" + g[1] + ("=" + g[2] if len(g) > 2 else "") + ">>>"


def render_line(l):
    return "".join(render_seg(g) for g in l) + "\n"


def render_item(it):
    if it[0] == "P":
        return [render_line(it[1])]
    if it[0] == "C":
        out = ["<<<IF " + it[1][0] + ">>>\n"] + [render_line(l) for l in it[1][1]]
        for t, ls in it[2]:
            out += ["<<<ELSEIF " + t + ">>>\n"] + [render_line(l) for l in ls]
        if it[3]:
            out += ["<<<ELSE>>>\n"] + [render_line(l) for l in it[3][0]]
        return out + ["<<<ENDIF>>>\n"]
    if it[0] == "F":
        h = it[1]
        v = h[1] if h[0] == "HL" else render_seg(["T"] + h[1:])
        return ["<<<FOR_BEGIN=" + v + ">>>\n"] + [render_line(l) for l in it[2]] + ["<<<FOR_END>>>\n"]
    raise ValueError(it)


def render(t):
    return [x for it in t for x in render_item(it)]


# ---------------------------------------------------------------- assignments
def mdict(d):
    """assignment as the model / spec take it: str() of the value, None -> ''"""
    return [[k, "" if v is None else str(v)] for k, v in d.items()]


# ---------------------------------------------------------------- running the real generator
def iface_parts(iface):
    return list(iface.StructNames()), list(iface.ProtocolStructNames()), list(iface.MessageNames())


def event_sigs(iface, kind, table):
    """INTERFACE ORACLE of C16_ev_block_is_ref: [[event, get_event_signature(event, False), get_event_signature(event, True)], ...] for the
    generator's events (the table's, then the interface's other structs), as the real Language object of the back end prints them"""
    from kojen import LanguageCPP, LanguageCsharp, LanguagePython
    lang = {"cpp": LanguageCPP.LanguageCPP, "cs": LanguageCsharp.LanguageCsharp, "py": LanguagePython.LanguagePython}[kind]()
    evs = []
    for r in table:
        if r[1] != "" and r[1].lower() != "none" and r[1] not in evs:
            evs.append(r[1])
    evs += [n for n in iface.StructNames() if n not in evs]

    def sig(nm, wd):
        for st in iface.All():
            if st.Name == nm:
                return lang.ParameterString(lang.GetFactoryCreateParams(st, iface, wd))
        return ""
    return [[nm, sig(nm, False), sig(nm, True)] for nm in evs]


def make_iface(rng, table, kind, usertags, nstructs=None):
    iface = kj.events_interface(rng, table, lang=kind)
    for k, v in usertags.items():
        iface.AddUserTag(k, v)
    return iface


RUNS = [0]


def run_real(kind, files, table, iface):
    """files: {template file name: [lines]} -> {output file name: text}, or ('EXC', type name)"""
    with kj.scratch() as d:
        td = os.path.join(d, "tmpl")
        os.makedirs(td)
        for name, lines in files.items():
            with open(os.path.join(td, name), "w", newline="") as f:
                f.write("".join(lines))
        out = os.path.join(d, "out")
        try:
            holder = None
            RUNS[0] += 1
            if RUNS[0] % 4 == 0 and kind in ("cpp", "cs", "py"):
                # every fourth run: the caller keeps its generator object; it has already generated ANOTHER model (other table, other
                # user-tag values on the same Interface object) into another directory before it is asked for this one
                holder = {}
                saved = dict(iface.UserTags()) if hasattr(iface, "UserTags") else {}
                try:
                    for k_ in list(saved):
                        iface.AddUserTag(k_, "earlier")
                    kj.generate(kind, out, table=[["Zq0", "Ev0", "Zq1", "OnZq", "None"], ["Zq1", "Ev1", "Zq0", "None", "IsZq"]], iface=iface, name="Probe",
                                templatedir=td, holder=holder)
                except Exception:  # noqa -- the earlier model need not be accepted
                    pass
                finally:
                    for k_, v_ in saved.items():
                        iface.AddUserTag(k_, v_)
                import shutil as _sh
                _sh.rmtree(out, ignore_errors=True)
            kj.generate(kind, out, table=table, iface=iface, name="Probe", templatedir=td, holder=holder)
        except Exception as e:  # noqa
            return ("EXC", type(e).__name__, str(e)[:200])
        res = {}
        for rel, data in kj.read_tree(out).items():
            if os.sep not in rel:
                res[rel] = data.decode("utf-8", "surrogateescape")
        return res


def run_model(km, files, table, iface, usertags):
    structs, protos, msgs = iface_parts(iface)
    # os.walk order of the template directory is the order of the code model; irrelevant per file, the model gets the same list
    fs = [[n, ls] for n, ls in files.items()]
    try:
        r = km.call("m.generate", [list(r) for r in table], structs, protos, msgs, [], mdict(usertags), fs)
    except Exception as e:  # noqa  (tt_model KeyError -> model "exception")
        return ("EXC", str(e)[:100])
    if r == []:
        return ("EXC", "model None")
    return {n.decode(): c.decode("utf-8", "surrogateescape") for n, c in r[0]}


# ---------------------------------------------------------------- C17 template generator
NAMES = ["Alpha", "Beta", "Gamma", "Delta", "Thread", "Verbose", "N", "Items", "x1", "OtherNamespace", "Count", "kind"]
QUIRK_NAMES = ["NOTIFY", "IFACE", "ELSEWHERE", "A", "FIRSTNAME", "a b", "FOR_BEGINNER", "EACH"]
WORDS = ["int", "x", "=", " ", "  ", "\t", ";", "(", ")", "{", "}", "#define ", "// ", "foo_bar", "0", "12", ",", ".", "::", "*", "/", "-", "return ", " -> ", " < ", " << ", ">", "T<"]
QUIRK_WORDS = ["<", ">", "<<", "NOTIFY", "ELSE", "FOR_END", "ENDIF", "<<<", "LAST", "PER_STATE_BEGIN"]
LISTS = ["a,b,c", "fee, fie, foe", " x , y ,", "one,two", "p,", ",q,r", "A1,B2,C3,D4"]
COUNTS = ["1", "2", "3", " 4 ", "12"]


def lit(rng, quirk):
    n = rng.randint(0, 4)
    pool = WORDS + (QUIRK_WORDS if quirk else [])
    return "".join(rng.choice(pool) for _ in range(n))


def tag(rng, quirk, names=None):
    n = rng.choice(names or (NAMES + (QUIRK_NAMES if quirk else [])))
    if rng.random() < 0.4:
        return ["T", n, rng.choice(["1", "0", "dflt", "", "a b", "x=y", "a,b"])]
    return ["T", n]


def uline(rng, quirk, extra_tags=()):
    segs = []
    for _ in range(rng.randint(0, 4)):
        r = rng.random()
        if r < 0.45:
            segs.append(["L", lit(rng, quirk)])
        elif r < 0.85 or not extra_tags:
            segs.append(tag(rng, quirk))
        else:
            segs.append(["T", rng.choice(extra_tags)])
    return segs


def body(rng, quirk, lo=0, hi=3):
    return [uline(rng, quirk) for _ in range(rng.randint(lo, hi))]


def for_item(rng, quirk):
    r = rng.random()
    if r < 0.35:
        h = ["HL", rng.choice(LISTS + COUNTS + (["0", "abc", ""] if quirk else []))]
    elif r < 0.7:
        h = ["HT", rng.choice(NAMES), rng.choice(LISTS + COUNTS)]
    else:
        h = ["HT", rng.choice(NAMES)]
    lines = []
    if rng.random() < 0.4:
        lines.append([["L", lit(rng, quirk)], ["T", "FIRST"], ["L", lit(rng, quirk)]])
    for _ in range(rng.randint(0, 3)):
        lines.append(uline(rng, quirk, extra_tags=("EACH", "each", "NUM", "ALPH", "EACH")))
    if rng.random() < 0.4:
        lines.append([["L", lit(rng, quirk)], ["T", "LAST"]])
    if rng.random() < (0.3 if quirk else 0.25):   # FIRST / LAST lines anywhere in the body (and possibly several of them)
        if rng.random() < 0.3:
            lines.append([["L", lit(rng, quirk)], ["T", rng.choice(["FIRST", "LAST"])]])
        rng.shuffle(lines)
    return ["F", h, lines]


def cond_item(rng, quirk):
    names = NAMES + (QUIRK_NAMES if quirk else [])
    first = [rng.choice(names), body(rng, quirk)]
    elifs = [[rng.choice(names), body(rng, quirk)] for _ in range(rng.choice([0, 0, 1, 2, 3]))]
    els = [body(rng, quirk)] if rng.random() < 0.5 else []
    return ["C", first, elifs, els]


def template17(rng, quirk=False):
    t = []
    for _ in range(rng.randint(1, 6)):
        r = rng.random()
        if r < 0.45:
            t.append(["P", uline(rng, quirk)])
        elif r < 0.75:
            t.append(cond_item(rng, quirk))
        else:
            t.append(for_item(rng, quirk))
    return t


VALUES = ["", None, 0, 1, 3, 2.5, True, "v", "Banana", "a,b", "p, q ,r", "2", "x y", "\tt", "FruitSalad", "x=1", "5"]
QUIRK_VALUES = ["<<<Alpha>>>", "<", "FOR_END", "a>b", "0", "abc"]


def names_of(t):
    res = []

    def line(l):
        for g in l:
            if g[0] == "T" and g[1] not in res:
                res.append(g[1])
    for it in t:
        if it[0] == "P":
            line(it[1])
        elif it[0] == "C":
            for tg, ls in [it[1]] + it[2]:
                if tg not in res:
                    res.append(tg)
                for l in ls:
                    line(l)
            for ls in it[3]:
                for l in ls:
                    line(l)
        else:
            if it[1][0] == "HT" and it[1][1] not in res:
                res.append(it[1][1])
            for l in it[2]:
                line(l)
    return res


def assignment17(rng, t, quirk=False):
    """a subset of the template's tag names (plus sometimes a foreign one) with values '', None, numbers, strings;
    FOR-header tags get list / count values"""
    hdr_names = {it[1][1] for it in t if it[0] == "F" and it[1][0] == "HT"}
    need = {it[1][1] for it in t if it[0] == "F" and it[1][0] == "HT" and len(it[1]) == 2}
    a = {}
    for n in names_of(t) + ["Foreign"]:
        if n in ("EACH", "each", "NUM", "ALPH", "FIRST", "LAST") and not quirk:
            continue
        if n in need or rng.random() < 0.5:
            if n in hdr_names and (not quirk or rng.random() < 0.8):
                a[n] = rng.choice(LISTS + COUNTS + [2, 3])
            else:
                a[n] = rng.choice(VALUES + (QUIRK_VALUES if quirk else []))
    return a
