"""Client for build/kmodel (the OCaml program extracted from the Coq models)."""
import os
import subprocess

VERIF = os.path.dirname(os.path.dirname(os.path.abspath(__file__)))
KMODEL = os.path.join(VERIF, "build", "kmodel")


def enc(v):
    if isinstance(v, (list, tuple)):
        return "[ " + " ".join(enc(x) for x in v) + " ]"
    if isinstance(v, bool):
        v = b"1" if v else b"0"
    if isinstance(v, str):
        v = v.encode("utf-8", "surrogateescape")
    return v.hex() if v else "-"


def dec(line):
    toks = line.split()
    pos = 0

    def value():
        nonlocal pos
        t = toks[pos]
        pos += 1
        if t == "[":
            res = []
            while toks[pos] != "]":
                res.append(value())
            pos += 1
            return res
        return b"" if t == "-" else bytes.fromhex(t)

    v = value()
    assert pos == len(toks), line
    return v


class ModelError(Exception):
    pass


class KModel:
    def __init__(self, path=KMODEL):
        self.p = subprocess.Popen([path], stdin=subprocess.PIPE, stdout=subprocess.PIPE, bufsize=0)
        self.calls = 0

    def call(self, cmd, *args):
        self.calls += 1
        req = cmd + " " + " ".join(enc(a) for a in args) + "\n"
        self.p.stdin.write(req.encode())
        self.p.stdin.flush()
        line = self.p.stdout.readline().decode()
        if not line:
            raise ModelError("kmodel died on " + cmd)
        if line.startswith("!"):
            raise ModelError(line[1:].strip())
        return dec(line)

    def close(self):
        try:
            self.p.stdin.close()
            self.p.wait(timeout=5)
        except Exception:
            self.p.kill()

    def __enter__(self):
        return self

    def __exit__(self, *a):
        self.close()
