"""Shared helpers of the state-machine properties (C08, C09, C10): table generators, the extracted model's
commands, an independent few-line Python reading of a transition table, shrinking."""
import json
import keyword

from . import kj

NONES = ["None", "none", "", "NONE", "nOnE", "None", "None"]


LOWER_KEYWORDS = set("""do if for int char new delete class struct union enum bool true false this try catch throw goto case switch
default break continue return else while long short float double void auto const static extern inline friend public private
protected virtual template typename namespace using operator sizeof typedef register signed unsigned volatile mutable explicit
export and or not xor is as in event object string base lock fixed checked decimal byte sbyte uint ulong ushort var params ref out
null internal abstract sealed override readonly implicit interface delegate foreach finally""".split())


def is_none(s):
    return s == "" or s.lower() == "none"


def ident(rng, prefix, used):
    syl = ["Al", "Be", "Ca", "Do", "En", "Fi", "Go", "Hu", "Ix", "Jo", "Ka", "Lu", "Mo", "Ne", "Op", "Pa", "Qu", "Ro", "Si", "Tu", "X", "AB", "B2"]
    while True:
        s = prefix + "".join(rng.choice(syl) for _ in range(rng.randint(0, 2))) + rng.choice(["", "", str(rng.randint(0, 9))])
        if s not in used and not is_none(s) and s not in ("True", "False", "Event", "Enum") and not keyword.iskeyword(s[0].lower() + s[1:]) \
                and (s[0].lower() + s[1:]) not in LOWER_KEYWORDS:
            used.add(s)
            return s


def random_table(rng, collide=False):
    """A well-formed table (list of [state, event, next, action, guard]) biased towards the shapes the property names:
    several rows per (state, event) mixing guarded rows and unguarded fallbacks in both orders, repeated rows, self
    loops, target-only states, rows without target, every spelling of 'absent'.
    collide=True additionally makes action/event names whose concatenations coincide (OnA+BEv = OnAB+Ev)."""
    used = set()
    ns = rng.randint(1, 4)
    states = [ident(rng, rng.choice(["S", "St", "State"]), used) for _ in range(ns)]
    targets_only = [ident(rng, "T", used) for _ in range(rng.choice([0, 0, 1, 2]))]
    events = [ident(rng, rng.choice(["E", "Ev", "Event"]), used) for _ in range(rng.randint(1, 4))]
    actions = [ident(rng, rng.choice(["On", "Do", "Act"]), used) for _ in range(rng.randint(1, 4))]
    guards = [ident(rng, rng.choice(["G", "Guard", "Is"]), used) for _ in range(rng.randint(1, 3))]
    if collide:
        base = ident(rng, "On", used)
        ev = ident(rng, "Ev", used)
        a2, e2 = base + "B", "B" + ev
        if a2 not in used and e2 not in used:
            used.update([a2, e2])
            actions += [base, a2]
            events += [ev, e2]
    rows = []
    groups = rng.randint(1, 5)
    for _ in range(groups):
        s = rng.choice(states)
        e = rng.choice(events)
        k = rng.choice([1, 1, 2, 2, 3, 4])
        for _j in range(k):
            nxt = rng.choice(states + targets_only + [s, rng.choice(NONES)])
            a = rng.choice(actions + [rng.choice(NONES)])
            g = rng.choice(guards + [rng.choice(NONES)] * 2)
            rows.append([s, e, nxt, a, g])
            if rng.random() < 0.1:
                rows.append([s, e, nxt, a, g])
    if rng.random() < 0.5:
        rng.shuffle(rows)
    return rows


def names(table):
    st, ev, ac, gu = [], [], [], []
    for r in table:
        for lst, v in ((st, r[0]), (st, r[2]), (ev, r[1]), (ac, r[3]), (gu, r[4])):
            if not is_none(v) and v not in lst:
                lst.append(v)
    return st, ev, ac, gu


def shape_tags(table):
    """What makes a table non-trivial for C08-C10 (used for the evidence distribution)."""
    tags = set()
    st = names(table)[0]
    src = {r[0] for r in table}
    if any(s not in src for s in st):
        tags.add("target_only_state")
    groups = {}
    for r in table:
        groups.setdefault((r[0], r[1]), []).append(r)
    for g in groups.values():
        gs = [not is_none(r[4]) for r in g]
        if len(g) > 1:
            tags.add("multi_row_group")
        for i in range(len(gs) - 1):
            if gs[i] and not gs[i + 1]:
                tags.add("guarded_then_fallback")
            if not gs[i] and gs[i + 1]:
                tags.add("unguarded_then_guarded")
        if len({json.dumps(r) for r in g}) < len(g):
            tags.add("repeated_row")
    if any(r[0] == r[2] for r in table):
        tags.add("self_loop")
    if any(is_none(r[2]) for r in table):
        tags.add("row_without_target")
    if any(r[2] == "" for r in table):
        tags.add("empty_string_target")
    return tags


# ------------------------------------------------------------------ independent oracle (a direct reading of the property)
def py_table_interp(table, evs, bits):
    """[(callbacks, state)] per step; callbacks are (kind, name, event). Written from the property text, not from
    the Coq spec; the check compares both with each other and with the implementation."""
    cur = table[0][0]
    out = [([("entry", cur, "EventStartup")], cur)]
    n = 0
    for e in evs:
        cbs = []
        fired = False
        for r in table:
            if r[0] != cur or r[1] != e:
                continue
            if not is_none(r[4]):
                cbs.append(("guard", r[4], e))
                ok = bits[n] if n < len(bits) else False
                n += 1
                if not ok:
                    continue
            if not is_none(r[2]):
                cbs.append(("exit", r[0], e))
            if not is_none(r[3]):
                cbs.append(("action", r[3], e))
            if not is_none(r[2]):
                cbs.append(("entry", r[2], e))
                cur = r[2]
            fired = True
            break
        if not fired:
            cbs.append(("notrans", "", e))
        out.append((cbs, cur))
    return out


def km_steps(v):
    return [([(k.decode(), n.decode(), e.decode()) for (k, n, e) in cbs], st.decode()) for (cbs, st) in v]


def bits_arg(bits):
    return ["1" if b else "0" for b in bits]


def shrink_rows(table, fails):
    """Greedy row deletion keeping `fails(table)` true."""
    t = list(table)
    changed = True
    while changed and len(t) > 1:
        changed = False
        for i in range(len(t)):
            cand = t[:i] + t[i + 1:]
            try:
                if cand and fails(cand):
                    t = cand
                    changed = True
                    break
            except Exception:  # noqa
                pass
    return t


TYPES = {"py": ["int", "float", "bool"], "cs": ["ushort", "int", "bool", "double", "byte", "long"],
         "cpp": ["uint8_t", "uint16_t", "int32_t", "bool", "double", "float", "int64_t"]}


def random_iface_spec(rng, table, lang, usertags=None, extra_events=0):
    """{"structs": [[event, [[member, type, default-or-None], ...]], ...], "usertags": {...}}: parameter structs for some
    events of the table, plus (extra_events) events the table never mentions."""
    structs = []
    for e in names(table)[1]:
        if rng.random() < 0.45:
            mem = []
            k = rng.randint(0, 3)
            first_default = rng.randint(0, k)      # defaults only on a trailing run of members (as in any parameter list)
            for i in range(k):
                ty = rng.choice(TYPES[lang])
                d = None
                if i >= first_default:
                    d = rng.choice(["true", "false"]) if ty == "bool" and lang != "py" else (
                        rng.choice(["True", "False"]) if ty == "bool" else str(rng.randint(0, 9)))
                mem.append(["m%d" % i, ty, d])
            structs.append([e, mem])
    used = set(sum(names(table), []))
    for i in range(extra_events):
        nm = "Extra%d" % i
        if nm not in used:
            structs.append([nm, [["p0", TYPES[lang][1], None]] if rng.random() < 0.5 else []])
    return {"structs": structs, "usertags": dict(usertags or {})}


def build_iface(spec, name="IEvents"):
    iface = kj.kojentypes.Interface(name)
    for nm, mem in spec["structs"]:
        st = kj.kojentypes.Struct(nm)
        for m, ty, d in mem:
            if d is None:
                st.AddType(m, ty)
            else:
                st.AddType(m, ty, d)
        iface.AddStruct(st)
    for k, v in spec.get("usertags", {}).items():
        iface.AddUserTag(k, v)
    return iface
