"""Shared helpers of the state-machine properties (C08, C09, C10): table generators, the extracted model's
commands, an independent few-line Python reading of a transition table, shrinking."""
import json
import keyword

from . import kj

NONES = ["None", "none", "", "NONE", "nOnE", "None", "None"]


LOWER_KEYWORDS = set("""do if for int char new delete class struct union enum bool true false this try catch throw goto case switch
default break continue return else while long short float double void auto const static extern inline friend public private
protected virtual template typename namespace using operator sizeof typedef register signed unsigned volatile mutable explicit
export and or not xor is as in event object string base lock fixed checked decimal byte sbyte uint ulong ushort var params ref out
null internal abstract sealed override readonly implicit interface delegate foreach finally""".split())


def is_none(s):
    return s == "" or s.lower() == "none"


def ident(rng, prefix, used):
    syl = ["Al", "Be", "Ca", "Do", "En", "Fi", "Go", "Hu", "Ix", "Jo", "Ka", "Lu", "Mo", "Ne", "Op", "Pa", "Qu", "Ro", "Si", "Tu", "X", "AB", "B2", "None"]
    while True:
        s = prefix + "".join(rng.choice(syl) for _ in range(rng.randint(0, 2))) + rng.choice(["", "", str(rng.randint(0, 9))])
        if rng.random() < 0.06:
            # a name that merely BEGINS like the placeholder for an absent cell (NonEmpty, NoneLeft, NoneOp): an ordinary name
            s = rng.choice(["None", "Non", "NONE", "None"]) + rng.choice(["Empty", "Left", "Op", "Editable", "Zero"]) + rng.choice(["", str(rng.randint(0, 9))])
        if s not in used and not is_none(s) and s not in ("True", "False", "Event", "Enum") and not keyword.iskeyword(s[0].lower() + s[1:]) \
                and (s[0].lower() + s[1:]) not in LOWER_KEYWORDS:
            used.add(s)
            return s


def random_table(rng, collide=False):
    """A well-formed table (list of [state, event, next, action, guard]) biased towards the shapes the property names:
    several rows per (state, event) mixing guarded rows and unguarded fallbacks in both orders, repeated rows, self
    loops, target-only states, rows without target, every spelling of 'absent'.
    collide=True additionally makes action/event names whose concatenations coincide (OnA+BEv = OnAB+Ev)."""
    used = set()
    ns = rng.randint(1, 4)
    states = [ident(rng, rng.choice(["S", "St", "State"]), used) for _ in range(ns)]
    targets_only = [ident(rng, "T", used) for _ in range(rng.choice([0, 0, 1, 2]))]
    events = [ident(rng, rng.choice(["E", "Ev", "Event"]), used) for _ in range(rng.randint(1, 4))]
    actions = [ident(rng, rng.choice(["On", "Do", "Act"]), used) for _ in range(rng.randint(1, 4))]
    guards = [ident(rng, rng.choice(["G", "Guard", "Is"]), used) for _ in range(rng.randint(1, 3))]
    if collide:
        base = ident(rng, "On", used)
        ev = ident(rng, "Ev", used)
        a2, e2 = base + "B", "B" + ev
        if a2 not in used and e2 not in used:
            used.update([a2, e2])
            actions += [base, a2]
            events += [ev, e2]
    rows = []
    groups = rng.randint(1, 5)
    for _ in range(groups):
        s = rng.choice(states)
        e = rng.choice(events)
        k = rng.choice([1, 1, 2, 2, 3, 4])
        for _j in range(k):
            nxt = rng.choice(states + targets_only + [s, rng.choice(NONES)])
            a = rng.choice(actions + [rng.choice(NONES)])
            g = rng.choice(guards + [rng.choice(NONES)] * 2)
            rows.append([s, e, nxt, a, g])
            if rng.random() < 0.1:
                rows.append([s, e, nxt, a, g])
    if rng.random() < 0.5:
        rng.shuffle(rows)
    return rows


def names(table):
    st, ev, ac, gu = [], [], [], []
    for r in table:
        for lst, v in ((st, r[0]), (st, r[2]), (ev, r[1]), (ac, r[3]), (gu, r[4])):
            if not is_none(v) and v not in lst:
                lst.append(v)
    return st, ev, ac, gu


def shape_tags(table):
    """What makes a table non-trivial for C08-C10 (used for the evidence distribution)."""
    tags = set()
    st = names(table)[0]
    src = {r[0] for r in table}
    if any(s not in src for s in st):
        tags.add("target_only_state")
    groups = {}
    for r in table:
        groups.setdefault((r[0], r[1]), []).append(r)
    for g in groups.values():
        gs = [not is_none(r[4]) for r in g]
        if len(g) > 1:
            tags.add("multi_row_group")
        for i in range(len(gs) - 1):
            if gs[i] and not gs[i + 1]:
                tags.add("guarded_then_fallback")
            if not gs[i] and gs[i + 1]:
                tags.add("unguarded_then_guarded")
        if len({json.dumps(r) for r in g}) < len(g):
            tags.add("repeated_row")
    if any(r[0] == r[2] for r in table):
        tags.add("self_loop")
    if any(is_none(r[2]) for r in table):
        tags.add("row_without_target")
    if any(r[2] == "" for r in table):
        tags.add("empty_string_target")
    return tags


# ------------------------------------------------------------------ independent oracle (a direct reading of the property)
def py_table_interp(table, evs, bits):
    """[(callbacks, state)] per step; callbacks are (kind, name, event). Written from the property text, not from
    the Coq spec; the check compares both with each other and with the implementation."""
    cur = table[0][0]
    out = [([("entry", cur, "EventStartup")], cur)]
    n = 0
    for e in evs:
        cbs = []
        fired = False
        for r in table:
            if r[0] != cur or r[1] != e:
                continue
            if not is_none(r[4]):
                cbs.append(("guard", r[4], e))
                ok = bits[n] if n < len(bits) else False
                n += 1
                if not ok:
                    continue
            if not is_none(r[2]):
                cbs.append(("exit", r[0], e))
            if not is_none(r[3]):
                cbs.append(("action", r[3], e))
            if not is_none(r[2]):
                cbs.append(("entry", r[2], e))
                cur = r[2]
            fired = True
            break
        if not fired:
            cbs.append(("notrans", "", e))
        out.append((cbs, cur))
    return out


def km_steps(v):
    return [([(k.decode(), n.decode(), e.decode()) for (k, n, e) in cbs], st.decode()) for (cbs, st) in v]


def bits_arg(bits):
    return ["1" if b else "0" for b in bits]


def shrink_rows(table, fails):
    """Greedy row deletion keeping `fails(table)` true."""
    t = list(table)
    changed = True
    while changed and len(t) > 1:
        changed = False
        for i in range(len(t)):
            cand = t[:i] + t[i + 1:]
            try:
                if cand and fails(cand):
                    t = cand
                    changed = True
                    break
            except Exception:  # noqa
                pass
    return t


TYPES = {"py": ["int", "float", "bool"], "cs": ["ushort", "int", "bool", "double", "byte", "long"],
         "cpp": ["uint8_t", "uint16_t", "int32_t", "bool", "double", "float", "int64_t"]}


def random_iface_spec(rng, table, lang, usertags=None, extra_events=0):
    """{"structs": [[event, [[member, type, default-or-None], ...]], ...], "usertags": {...}}: parameter structs for some
    events of the table, plus (extra_events) events the table never mentions."""
    structs = []
    for e in names(table)[1]:
        if rng.random() < 0.45:
            mem = []
            k = rng.randint(0, 3)
            first_default = rng.randint(0, k)      # defaults only on a trailing run of members (as in any parameter list)
            for i in range(k):
                ty = rng.choice(TYPES[lang])
                d = None
                if i >= first_default:
                    d = rng.choice(["true", "false"]) if ty == "bool" and lang != "py" else (
                        rng.choice(["True", "False"]) if ty == "bool" else str(rng.randint(0, 9)))
                    if lang == "cpp" and ty != "bool" and rng.random() < 0.12:
                        # defaults that are only implicitly convertible to the member's type (a sentinel -1 for an unsigned member, a
                        # floating literal for an integer member, a wide literal for a narrow member): valid with '=' initialisation
                        d = rng.choice(["-1", "1.5e3", "70000", "'x'"])
                mem.append(["m%d" % i, ty, d])
            structs.append([e, mem])
    used = set(sum(names(table), []))
    for i in range(extra_events):
        nm = "Extra%d" % i
        if nm not in used:
            structs.append([nm, [["p0", TYPES[lang][1], None]] if rng.random() < 0.5 else []])
    return {"structs": structs, "usertags": dict(usertags or {})}


def build_iface(spec, name="IEvents"):
    iface = kj.kojentypes.Interface(name)
    for nm, mem in spec["structs"]:
        st = kj.kojentypes.Struct(nm)
        for m, ty, d in mem:
            if d is None:
                st.AddType(m, ty)
            else:
                st.AddType(m, ty, d)
        iface.AddStruct(st)
    for k, v in spec.get("usertags", {}).items():
        iface.AddUserTag(k, v)
    return iface


def ttmodel_case(ctx, table):
    """Function-level correspondence smgen.CTransitionTableModel vs Model/TTable.v (states, events, actions, guards,
    actionsignatures, transitionsperstate, getfirststate) on one table; run by C08, C09 and C10, which all depend on it."""
    if ctx.km is None:
        return
    m = kj.smgen.CTransitionTableModel(table, "NS", "X")
    tps = [[s, [[e, [[r[0], r[1], r[2], r[3], r[4]] for r in table if r[0] == s and r[1] == e]] for e in evd]] for s, evd in m.transitionsperstate.items()]
    # the real transition dictionaries, reduced to (action, guard, next) presence, must describe the same rows
    real_rows = [[s, [[e, [[tr.get("<<<ACTIONNAME>>>"), tr.get("<<<GUARDNAME>>>"), tr.get("<<<NEXTSTATENAME>>>"), tr.get("<<<STATENAMEIFNEXTSTATE>>>")]
                           for tr in trs]] for e, trs in evd.items()]] for s, evd in m.transitionsperstate.items()]
    real = [list(m.states), list(m.events), list(m.actions), list(m.guards),
            [[a, e] for _k, (a, e) in m.actionsignatures.items()], tps, m.getfirststate()]
    got = ctx.km.call("tt_model", table)
    dec = lambda v: [dec(x) for x in v] if isinstance(v, list) else v.decode()  # noqa
    got = dec(got)
    if got != real:
        ctx.tie_broken("correspondence CTransitionTableModel vs Model/TTable.v", {"table": table, "real": real, "model": got})
        return
    opt = lambda x: None if is_none(x) else x  # noqa
    want_rows = [[s, [[e, [[opt(r[3]), opt(r[4]), opt(r[2]), (r[0] if opt(r[2]) else None)] for r in rows]] for e, rows in evd]] for s, evd in tps]
    if real_rows != want_rows:
        ctx.tie_broken("CTransitionTableModel.transitionsperstate does not carry the rows' action/guard/target", {"table": table})


def ttmodel_batch(ctx, n):
    for i in range(n):
        if any("CTransitionTableModel" in b["what"] for b in ctx.broken):
            break    # already known to disagree; one report is enough
        ttmodel_case(ctx, random_table(ctx.rng, collide=(i % 3 == 0)))
        ctx.count("ttmodel_cases")


# ------------------------------------------------------------------ declarations of the generated units as (kind, name, params)
def iface_arg(spec):
    """event interface as the model takes it: [[event, ["type member", ...]], ...]"""
    return [[nm, ["%s %s" % (ty, m) for m, ty, _d in mem]] for nm, mem in spec["structs"]]


def _sig(spec, e):
    for nm, mem in spec["structs"]:
        if nm == e:
            return ["%s %s" % (ty, m) for m, ty, _d in mem]
    return []


def _split(sig):
    return [p.strip() for p in sig.split(",") if p.strip()]


def real_decls_cpp(files, table, spec, name="X"):
    import re
    _st, _ev, ac, gu = names(table)
    ctl, ifc, impl, test = files["I%sController.h" % name], files["%sStateMachine.h" % name], files["%sStateMachineImpl_SML.cpp" % name], files["Test.%sStateMachine.cpp" % name]
    res = {"ctl": [], "ifc": [], "impl": [], "test": []}
    for m in re.finditer(r"struct (\w+) : public Event\s*\{(.*?)\n    \};", ctl, re.S):
        mem = re.findall(r"^\s+([\w:]+) (\w+)(?: = [^;]+)?;\s*$", m.group(2), re.M)
        res["ctl"].append(["KEventStruct", m.group(1), ["%s %s" % x for x in mem]])
    tds = re.findall(r"typedef std::unique_ptr<(\w+)> \1_ptr;", ctl)
    if "Event" in tds:
        tds.remove("Event")      # the template's own base struct Event / Event_ptr (once)
    for e in tds:
        res["ctl"].append(["KEventPtrTypedef", e, _sig(spec, e)])
    res["ctl"] += [["KCtlGuard", g, []] for g in re.findall(r"virtual bool (\w+)\(\)\s*$", ctl, re.M)]
    res["ctl"] += [["KCtlGuardMember", g, []] for g in re.findall(r"^\s*bool m_(\w+);", ctl, re.M)]
    res["ctl"] += [["KCtlEntry", s, []] for s in re.findall(r"virtual void (\w+)_on_entry\(\)", ctl)]
    res["ctl"] += [["KCtlExit", s, []] for s in re.findall(r"virtual void (\w+)_on_exit\(\)", ctl)]
    res["ctl"] += [["KCtlAction", a, [e]] for a, e in re.findall(r"virtual void (\w+)\((\w+) const& data\)", ctl)]
    res["ifc"] += [["KIfcIs", s, []] for s in re.findall(r"virtual bool Is(\w+)\(\) const = 0;", ifc)]
    res["ifc"] += [["KIfcTrigger", e, _split(sg)] for e, sg in re.findall(r"virtual void Trigger(\w+)\((.*)\) = 0;", ifc)]
    res["impl"] += [["KFwdState", s, []] for s in re.findall(r"^\s*struct (\w+);\s*$", impl, re.M)]
    res["impl"] += [["KGuardFunctor", g, []] for g in re.findall(r"struct (\w+)\s*\{\s*bool operator\(\)", impl)]
    res["impl"] += [["KEntryFunctor", s, []] for s in re.findall(r"struct (\w+)OnEntry\{", impl)]
    res["impl"] += [["KExitFunctor", s, []] for s in re.findall(r"struct (\w+)OnExit\{", impl)]
    res["impl"] += [["KActionFunctor", a, []] for a in re.findall(r"struct (\w+)\s*\{\s*template <class Event>", impl)]
    m = re.search(r"using namespace boost::sml;\n(.*?)/// Transition table", impl, re.S)
    for ty, inst in re.findall(r"^\s*(\w+) +(\w+);\s*$", m.group(1) if m else "", re.M):
        if inst != (ty[0].lower() + ty[1:]):
            res["impl"].append(["KInst?", ty, [inst]])
        elif ty.endswith("OnEntry") and ty[:-7] and ty not in ac + gu:
            res["impl"].append(["KInstEntry", ty[:-7], []])
        elif ty.endswith("OnExit") and ty[:-6] and ty not in ac + gu:
            res["impl"].append(["KInstExit", ty[:-6], []])
        elif ty in gu:
            res["impl"].append(["KInstGuard", ty, []])
        else:
            res["impl"].append(["KInstAction", ty, []])
    res["impl"] += [["KDispatchDef", e, _sig(spec, e)] for e in re.findall(r"void (\w+)::Dispatch\(void\* sm\)", impl)]
    res["impl"] += [["KImplIs", s, []] for s in re.findall(r"virtual bool Is(\w+)\(\) const override", impl)]
    res["impl"] += [["KImplTrigger", e, _split(sg)] for e, sg in re.findall(r"virtual void Trigger(\w+)\((.*)\) override", impl)]
    res["test"] += [["KTestGuard", g, []] for g in re.findall(r"virtual bool (\w+)\(\) override", test)]
    res["test"] += [["KTestEntry", s, []] for s in re.findall(r"virtual void (\w+)_on_entry\(\) override", test)]
    res["test"] += [["KTestExit", s, []] for s in re.findall(r"virtual void (\w+)_on_exit\(\) override", test)]
    res["test"] += [["KTestAction", a, [e]] for a, e in re.findall(r"virtual void (\w+)\((\w+) const& data\) override", test)]
    return res


def real_decls_cs(files, table, spec, name="X"):
    import re
    ctx_cs, sm_cs, internals = files["%sContext.cs" % name], files["%sStateMachine.cs" % name], files["%sInternals.cs" % name]
    res = {"cs_context": [], "cs_sm": [], "cs_internals": []}
    for m in re.finditer(r"public partial class (\w+) : IDispatchable \{(.*?)\n    \};", ctx_cs, re.S):
        mem = re.findall(r"^\s+public ([\w:]+) (\w+)(?: = [^;]+)?;\s*$", m.group(2), re.M)
        res["cs_context"].append(["KCsEventClass", m.group(1), ["%s %s" % x for x in mem]])
    ib = re.search(r"public interface I%sContext\s*\{(.*?)\n    \};" % name, ctx_cs, re.S)
    ib = ib.group(1) if ib else ""
    res["cs_context"] += [["KCsGuard", g, []] for g in re.findall(r"^\s*bool (\w+)\(\);", ib, re.M)]
    res["cs_context"] += [["KCsAction", a, [e]] for a, e in re.findall(r"^\s*void (\w+)\((\w+) data\);", ib, re.M)]
    res["cs_context"] += [["KCsEntry", s, []] for s in re.findall(r"^\s*void On(\w+)Entry\(\);", ib, re.M)]
    res["cs_context"] += [["KCsExit", s, []] for s in re.findall(r"^\s*void On(\w+)Exit\(\);", ib, re.M)]
    res["cs_sm"] += [["KCsIs", s, []] for s in re.findall(r"public bool Is(\w+)\(\)", sm_cs)]
    res["cs_sm"] += [["KCsTrigger", e, _split(sg)] for e, sg in re.findall(r"public void Trigger(\w+)\((.*)\)", sm_cs)]
    en = re.search(r"internal enum E%sState : ushort\s*\{(.*?)\};" % name, internals, re.S)
    res["cs_internals"] += [["KCsEnum", s, []] for s in re.findall(r"^\s+(\w+),\s*$", en.group(1) if en else "", re.M)]
    res["cs_internals"] += [["KCsBaseHandler", e, _sig(spec, e)] for e, e2 in re.findall(
        r"internal virtual void Trigger(\w+)\(I%sContext context, %sStateMachine sm, (\w+) data\)\{\}" % (name, name), internals) if e == e2]
    res["cs_internals"] += [["KCsDispatchPart", e, _sig(spec, e)] for e in re.findall(r"public partial class (\w+) : IDispatchable \{", internals)]
    res["cs_internals"] += [["KCsStateClass", s, []] for s in re.findall(r"internal class (\w+) : %sState" % name, internals)]
    return res


def decl_correspondence(ctx, lang, files, table, spec):
    """Tie of Model/Decls.v: the (kind, name, params) triples read out of the real generated files by per-kind regexes equal
    decls_file f T I (as multisets), file by file; and every reference of refs_cpp / refs_cs is then found exactly once."""
    if ctx.km is None:
        return
    dec = lambda v: [dec(x) for x in v] if isinstance(v, list) else v.decode()  # noqa
    real = real_decls_cs(files, table, spec) if lang == "cs" else real_decls_cpp(files, table, spec)
    ia = iface_arg(spec)
    for fid, found in real.items():
        model = dec(ctx.km.call("decls", fid, table, ia))
        if sorted(map(repr, model)) != sorted(map(repr, found)):
            extra = [x for x in found if x not in model]
            missing = [x for x in model if x not in found]
            ctx.tie_broken("correspondence declarations of the real %s file vs Decls.decls_file" % fid,
                           {"table": table, "iface": spec, "declared_but_not_in_model": extra[:4], "in_model_but_not_declared": missing[:4]})
            return
    for fid, d in dec(ctx.km.call("refs", lang, table, ia)):
        if real[fid].count(d) != 1:
            ctx.tie_broken("a reference of the model is not declared exactly once in the real %s file" % fid, {"table": table, "iface": spec, "ref": d})
            return
    ctx.count("decl_correspondence_cases")
