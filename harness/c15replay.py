"""C15 schedule replay: the real headers (std:: synchronisation replaced by the controlled-scheduler shim
harness/cxx/verif_sync.h through sed) against the extracted dispatcher LTS (Model/CxxQueue.v) on the same schedule."""
import json
import os
import re

from . import kj
from .check import VERIF
from .props.c15 import sh

CXX = os.path.join(VERIF, "harness", "cxx")
HDR = os.path.join(kj.REPO, "kojen", "allplatforms", "CPP")
SUBST = [("std::mutex", "verif::mutex"), ("std::condition_variable", "verif::condition_variable"), ("std::unique_lock", "verif::unique_lock"),
         ("std::lock_guard", "verif::lock_guard"), ("std::thread", "verif::thread"), ("std::atomic", "verif::atomic")]


def build(d):
    for f in ("threadsafe_queue.h", "threaded_dispatcher.h"):
        with open(os.path.join(HDR, f)) as fh:
            text = fh.read()
        for a, b in SUBST:
            text = text.replace(a, b)
        with open(os.path.join(d, f), "w") as fh:
            fh.write(text)
    out = os.path.join(d, "replay")
    rc, so, se = sh(["g++", "-std=c++17", "-O1", "-g", "-I" + d, "-I" + CXX, os.path.join(CXX, "c15_replay.cpp"), "-o", out, "-pthread"], timeout=300)
    return (out, "") if rc == 0 else (None, (so + se)[-3000:])


def real_run(binary, m, scripts, schedule):
    arg = ";".join(",".join(str(i) for i in sc) for sc in scripts)
    rc, so, se = sh([binary, str(m), arg, " ".join(schedule)], timeout=30)
    if rc is None:
        return {"hang": True}
    if rc != 0:
        return {"crash": rc, "stderr": se[-800:]}
    steps, log, joined = [], [], False
    for line in so.split("\n"):
        if line.startswith("S "):
            head, en = line.split("|")
            _s, _t, lab = head.split()
            steps.append((True, lab, sorted(en.split())))
        elif line.startswith("X "):
            steps.append((False, "-", sorted(line.split("|")[1].split())))
        elif line.startswith("JOINED"):
            joined = line.split()[1] == "1"
        elif line.startswith("LOG "):
            k, w, i = line[4:].split()
            log.append((k, int(w), int(i)))
    return {"steps": steps, "log": log, "joined": joined}


def model_run(km, m, scripts, schedule):
    r = km.call("cxx_trace", str(m), [[str(i) for i in sc] for sc in scripts], list(schedule))
    steps = [(s[0] == b"1", s[1].decode(), sorted(x.decode() for x in s[2])) for s in r[0]]
    return {"steps": steps, "enabled": sorted(x.decode() for x in r[1]),
            "log": [(x[0].decode(), int(x[1]), int(x[2])) for x in r[2]],
            "fates": [(int(x[0]), x[1] == b"1") for x in r[3]], "queue": [int(x) for x in r[4]],
            "all_done": r[5] == b"1", "joined": r[6] == b"1"}


def compare(real, model):
    if "steps" not in real:
        return "real run: %r" % (real,)
    for i, (a, b) in enumerate(zip(real["steps"], model["steps"])):
        if a != b:
            return "step %d: real %r, model %r" % (i, a, b)
    if real["log"] != model["log"]:
        return "handler log: real %r, model %r" % (real["log"], model["log"])
    if real["joined"] != model["joined"]:
        return "destructor returned: real %r, model %r" % (real["joined"], model["joined"])
    return None


def oracle(real, m, scripts):
    """Independent reading of C15 on one controlled run of the real headers."""
    if "steps" not in real:
        return "replay probe hang/crash: %r" % (real,)
    log = real["log"]
    begun = [i for (k, _w, i) in log if k == "B"]
    if len(set(begun)) != len(begun):
        return "item handed to the handler twice: %r" % begun
    allitems = [i for sc in scripts for i in sc]
    if not set(begun) <= set(allitems):
        return "handler received an item nobody dispatched"
    if m == 1:
        for j in range(0, len(log), 2):
            if log[j][0] != "B" or (j + 1 < len(log) and (log[j + 1][0] != "E" or log[j + 1][2] != log[j][2])):
                return "handler calls overlap with one worker: %r" % (log,)
        for sc in scripts:
            pos = [begun.index(i) for i in sc if i in begun]
            if pos != sorted(pos):
                return "items of one producer handled out of dispatch order: %r" % begun
    # deadlock: nobody can move although the destructor has not returned and something is left to do
    for (_ok, _lab, en) in real["steps"]:
        if not en and not real["joined"]:
            pass
    last_en = real["steps"][-1][2] if real["steps"] else ["D"]
    if not last_en and not real["joined"]:
        return "deadlock: no thread can move and the destructor has not returned"
    return None


def random_schedule(km, rng, m, scripts, n):
    names = ["D"] + ["W%d" % i for i in range(m)] + ["P%d" % i for i in range(len(scripts))]
    sched = []
    for _ in range(n):
        en = model_run(km, m, scripts, sched)["enabled"]
        if not en:
            break
        if rng.random() < 0.12:
            sched.append(rng.choice(names))
        else:
            pool = [x for x in en if x != "D"] if (rng.random() < 0.8 and len(en) > 1) else en
            sched.append(rng.choice(pool))
    return sched


def enumerate_schedules(km, m, scripts, max_preempt, limit):
    out, stack = [], [([], max_preempt)]
    while stack and len(out) < limit:
        sched, budget = stack.pop()
        en = model_run(km, m, scripts, sched)["enabled"]
        if not en or len(sched) > 80:
            out.append(sched)
            continue
        last = sched[-1] if sched else None
        if last in en:
            ch = [(last, budget)] + ([(x, budget - 1) for x in en if x != last] if budget > 0 else [])
        else:
            ch = [(x, budget) for x in en]
        for x, b in reversed(ch):
            stack.append((sched + [x], b))
    return out


def one(ctx, binary, m, scripts, sched, kind):
    real = real_run(binary, m, scripts, sched)
    model = model_run(ctx.km, m, scripts, sched)
    replay = {"workers": m, "scripts": scripts, "schedule": sched}
    destroyed_busy = any(l == "Store" for (_o, l, _e) in model["steps"]) and (model["queue"] or any(not b for (_i, b) in model["fates"]))
    ctx.case(("replay", m, json.dumps(scripts), tuple(sched)), nontrivial=len(set(sched)) >= 2)
    ctx.count("replay:" + kind)
    if destroyed_busy:
        ctx.count("replay:destroyed_with_items_queued_or_dropped")
    bad = oracle(real, m, scripts)
    if bad:
        replay["finding_key"] = "c15:replay:" + bad.split(":")[0].replace(" ", "_")[:40]
        replay["detail"] = bad
        ctx.violation(bad, replay)
        if len(ctx.violations) >= 12:
            return False
    diff = compare(real, model)
    if diff:
        replay["detail"] = diff
        ctx.tie_broken("correspondence real headers under the scheduler shim vs CxxQueue.run_trace: " + diff, replay)
        return False
    return True


def run(ctx):
    if ctx.km is None:
        return
    rng = ctx.rng
    with kj.scratch() as d:
        binary, err = build(d)
        if binary is None:
            ctx.tie_broken("replay probe does not compile against the current headers with the scheduler shim", err)
            return
        n = ctx.budget(150, 6000)
        for k in range(n):
            m = rng.choice([1, 1, 1, 2, 3])
            nxt = [0]

            def items(c):
                res = list(range(nxt[0] + 1, nxt[0] + 1 + c))
                nxt[0] += c
                return res
            scripts = [items(rng.randint(0, 3)) for _ in range(rng.randint(0, 3))]
            sched = random_schedule(ctx.km, rng, m, scripts, rng.randint(5, 70))
            if not one(ctx, binary, m, scripts, sched, "random"):
                return
            if k < 3:
                ctx.sample({"workers": m, "scripts": scripts, "schedule": " ".join(sched)})
        lim = ctx.budget(300, 8000)
        scen = [(1, [[1]], 3), (1, [[1, 2]], 2), (1, [[1], [2]], 2), (2, [[1, 2]], 2)]
        if not ctx.quick:
            scen += [(1, [[1, 2], [3]], 2), (2, [[1], [2]], 2), (3, [[1, 2]], 1), (1, [[1, 2, 3]], 3)]
        for (m, scripts, pre) in scen:
            scheds = enumerate_schedules(ctx.km, m, scripts, pre, lim)
            ctx.count("replay:enumerated(m=%d,%s,preemptions<=%d)" % (m, json.dumps(scripts), pre), len(scheds))
            for sched in scheds:
                if not one(ctx, binary, m, scripts, sched, "enumerated"):
                    return


def replay(ctx, data):
    with kj.scratch() as d:
        binary, err = build(d)
        if binary is None:
            print("  replay probe does not compile")
            return False
        real = real_run(binary, data["workers"], data["scripts"], data["schedule"])
        bad = oracle(real, data["workers"], data["scripts"])
        if bad:
            print("  " + bad)
        return bad is None


# ---------------------------------------------------------------- object lifetime (Model/CxxLifetime.v)

def build_life(d, noshutdown):
    if not os.path.exists(os.path.join(d, "threaded_dispatcher.h")):
        for f in ("threadsafe_queue.h", "threaded_dispatcher.h"):
            with open(os.path.join(HDR, f)) as fh:
                text = fh.read()
            for a, b in SUBST:
                text = text.replace(a, b)
            with open(os.path.join(d, f), "w") as fh:
                fh.write(text)
    out = os.path.join(d, "life_ns" if noshutdown else "life")
    flags = ["-DLIFE_NOSHUTDOWN=1"] if noshutdown else []
    rc, so, se = sh(["g++", "-std=c++17", "-O1", "-g"] + flags + ["-I" + d, "-I" + CXX, os.path.join(CXX, "c15_life_replay.cpp"), "-o", out, "-pthread"], timeout=300)
    return (out, "") if rc == 0 else (None, (so + se)[-3000:])


def life_real(binary, m, scripts, schedule):
    arg = ";".join(",".join(str(i) for i in sc) for sc in scripts)
    rc, so, se = sh([binary, str(m), arg, " ".join(schedule)], timeout=30)
    if rc is None:
        return {"hang": True}
    if rc != 0:
        return {"crash": rc, "stderr": se[-800:]}
    res = {"steps": [], "log": [], "hazard": None, "pure_virtual": False, "done": None}
    for line in so.split("\n"):
        if line.startswith("S "):
            head, en = line.split("|")
            _s, _t, lab = head.split()
            res["steps"].append((True, lab, sorted(en.split())))
        elif line.startswith("X "):
            res["steps"].append((False, "-", sorted(line.split("|")[1].split())))
        elif line.startswith("HAZARD"):
            res["hazard"] = line.split()[1] == "1"
        elif line.startswith("PURE_VIRTUAL"):
            res["pure_virtual"] = line.split()[1] == "1"
        elif line.startswith("DONE"):
            res["done"] = line.split()[1] == "1"
        elif line.startswith("LOG "):
            k, w, i = line[4:].split()
            res["log"].append((k, int(w), int(i)))
    return res


def life_model(km, cs, m, scripts, schedule):
    r = km.call("cxx_life_trace", "1" if cs else "0", str(m), [[str(i) for i in sc] for sc in scripts], list(schedule))
    return {"steps": [(x[0] == b"1", x[1].decode(), sorted(y.decode() for y in x[2])) for x in r[0]],
            "enabled": sorted(x.decode() for x in r[1]), "log": [(x[0].decode(), int(x[1]), int(x[2])) for x in r[2]],
            "hazard": r[3] == b"1", "part": r[4].decode(), "done": r[5] == b"1"}


def life_schedule(km, rng, cs, m, scripts, n):
    sched = []
    for _ in range(n):
        en = life_model(km, cs, m, scripts, sched)["enabled"]
        if not en:
            break
        # let the owner in early often enough that the destruction overlaps with the work
        pool = en if rng.random() < 0.45 else ([x for x in en if x != "D"] or en)
        sched.append(rng.choice(pool))
    return sched


def run_lifetime(ctx):
    """Derived probe object destroyed in C++ order, real headers under the model-level shim vs the extracted lifetime LTS:
    with shutdown() in the derived destructor (must agree, never a hazard) and without (must agree, reproduces K-C15-2)."""
    if ctx.km is None:
        return
    rng = ctx.rng
    with kj.scratch() as d:
        bins = {}
        for cs in (True, False):
            b, err = build_life(d, noshutdown=not cs)
            if b is None:
                ctx.tie_broken("lifetime replay probe does not compile (%s shutdown())" % ("with" if cs else "without"), err)
                return
            bins[cs] = b
        # the schedule witnesses of Proofs/CxxLifetimeProofs.v (haz_sched_vcall, haz_sched_running) on the real code
        for name, sched in (("haz_sched_vcall", ["P0", "W0", "W0", "D", "D", "W0"]), ("haz_sched_running", ["P0", "W0", "W0", "W0", "D", "D"])):
            r_ns = life_real(bins[False], 1, [[1]], sched)
            r_sd = life_real(bins[True], 1, [[1]], sched)
            ctx.case(("life-witness", name), nontrivial=True)
            if not r_ns.get("hazard"):
                ctx.tie_broken("the witness %s of C15_lifetime_refuted_without_shutdown shows no hazard on the real derived class without shutdown()" % name)
            if r_sd.get("hazard") or "steps" not in r_sd:
                ctx.violation("object lifetime: hazard on the schedule %s although the derived destructor calls shutdown() first" % name,
                              {"lifetime": True, "calls_shutdown": True, "workers": 1, "scripts": [[1]], "schedule": sched,
                               "finding_key": "c15:lifetime_hazard_with_shutdown"})
            ctx.count("lifetime_replay:coq_witness_replayed")
        n = ctx.budget(120, 3000)
        hazards = 0
        for k in range(n):
            cs = (k % 3 != 2)
            m = rng.choice([1, 1, 2, 3])
            nxt = [0]

            def items(c):
                res = list(range(nxt[0] + 1, nxt[0] + 1 + c))
                nxt[0] += c
                return res
            scripts = [items(rng.randint(1, 3)) for _ in range(rng.randint(1, 2))]
            sched = life_schedule(ctx.km, rng, cs, m, scripts, rng.randint(6, 60))
            real = life_real(bins[cs], m, scripts, sched)
            model = life_model(ctx.km, cs, m, scripts, sched)
            replay = {"lifetime": True, "calls_shutdown": cs, "workers": m, "scripts": scripts, "schedule": sched}
            ctx.case(("life", cs, m, json.dumps(scripts), tuple(sched)), nontrivial="D" in sched and len(set(sched)) >= 2)
            ctx.count("lifetime_replay:%s" % ("with_shutdown" if cs else "without_shutdown"))
            if "steps" not in real:
                ctx.tie_broken("lifetime replay probe hang/crash: %r" % (real,), replay)
                return
            diff = None
            for i, (a, b) in enumerate(zip(real["steps"], model["steps"])):
                if a != b:
                    diff = "step %d: real %r, model %r" % (i, a, b)
                    break
            if diff is None and not real["pure_virtual"]:
                if len(real["steps"]) != len(model["steps"]):
                    diff = "number of steps: real %d, model %d" % (len(real["steps"]), len(model["steps"]))
                elif real["log"] != model["log"]:
                    diff = "handler log: real %r, model %r" % (real["log"], model["log"])
                elif real["done"] != model["done"]:
                    diff = "owner finished: real %r, model %r" % (real["done"], model["done"])
            if diff is None and real["hazard"] != model["hazard"]:
                diff = "hazard: real %r (pure virtual call: %r), model %r" % (real["hazard"], real["pure_virtual"], model["hazard"])
            if diff:
                replay["detail"] = diff
                ctx.tie_broken("correspondence real derived dispatcher under the shim vs CxxLifetime.lstep: " + diff, replay)
                return
            if real["hazard"]:
                if cs:
                    replay["finding_key"] = "c15:lifetime_hazard_with_shutdown"
                    ctx.violation("object lifetime: a virtual call / running handler met a dying derived part although the derived "
                                  "destructor calls shutdown() first", replay)
                else:
                    hazards += 1
                    ctx.count("lifetime_replay:hazard_reproduced_without_shutdown")
                    if hazards == 1:
                        replay["finding_key"] = "c15:vptr_race_on_destruction"
                        ctx.violation("object lifetime (derived destructor without shutdown()): virtual call or running handler on a "
                                      "derived part that is being destroyed", replay)


def replay_lifetime(ctx, data):
    with kj.scratch() as d:
        b, err = build_life(d, noshutdown=not data["calls_shutdown"])
        if b is None:
            print("  lifetime replay probe does not compile")
            return False
        real = life_real(b, data["workers"], data["scripts"], data["schedule"])
        if real.get("hazard"):
            print("  object lifetime hazard%s" % (" (pure virtual method called)" if real.get("pure_virtual") else ""))
        return "steps" in real and not real["hazard"]
