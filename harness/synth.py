"""Synthetic code models with adversarial file names, run through the REAL preserve_usercode_in_files +
createoutput and through the Coq model; also evaluates the C01-C04 oracles on the real result."""
import os
from collections import OrderedDict

from . import kj, presv
from .kj import cgen, read_tree, scratch, splitlines_keep, tabnorm, tag_pairs

NAMES = ["X.py", "TestX.py", "Foo.h", "IFoo.h", "Foo.hpp", "a/Foo.h", "b/Foo.h", "a/b/Foo.h", "oo.h", "F.cs", "out", "X.pyc", "h"]
TAGS = ["IMPORTS", "INCLUDES", "PUBLIC", "X", "XY", "A_on_entry", "x", "Imports", "isReady", "IsReady"]
# per case the tag names are drawn from one or two small FAMILIES of related names (prefixes of one another, case variants,
# shared stems), so that "tag vanished but a related one appeared" happens often
FAMILIES = [["X", "XY", "XYZ", "x"], ["IMPORTS", "Imports", "IMPORTS_2"], ["isReady", "IsReady", "IsReadyNow"],
            ["A_on_entry", "A_on_exit", "AB_on_entry"], ["GuardAck", "GuardAckValid"], ["PUBLIC", "INCLUDES"],
            ["StateSent", "StateSet", "SaeSe", "Statesent"]]   # differ only by letters that occur in CleanUpLine's two-character patterns
STYLES = [b"// {{{USER_%s}}}\n", b"    # {{{USER_%s}}}\n", b"/* {{{USER_%s */\n", b"{{{USER_%s\n", b"\t/// {{{USER_%s}}}\n"]


def fresh_file(rng, wf=True, tags=None):
    TAGS = tags or globals()["TAGS"]
    lines = []
    used = []
    for _ in range(rng.randint(0, 6)):
        r = rng.random()
        if r < 0.45:
            t = rng.choice(TAGS)
            if wf and t in used:
                continue
            used.append(t)
            lines.append((rng.choice(STYLES) % t.encode()).decode())
            lines.append((rng.choice(STYLES) % t.encode()).decode())
        elif r < 0.6:
            lines.append(rng.choice(["", "a\nb\n", "\tx = 1\n\n\n", "}\n"]))
        else:
            ul = kj.user_line(rng)
            if kj.PFX in kj.spec_clean(ul):   # fresh (generator) lines never clean to something containing the prefix
                ul = b"plain\n"
            lines.append(ul.decode("utf-8"))
    if lines and rng.random() < 0.2 and not lines[-1].startswith(("{", "/", " ", "\t")):
        lines[-1] = "last line without LF"
    return lines, used


def old_file(rng, tags, family=None):
    out = []
    bodies = OrderedDict()
    pool = list(tags) + [rng.choice(family or TAGS)] + ([rng.choice(family)] if family else [])
    rng.shuffle(pool)
    seen = []
    for t in pool:
        if t in seen or rng.random() < 0.3:
            continue
        seen.append(t)
        out.append(kj.user_line(rng))
        st = rng.choice(STYLES) % t.encode()
        body = kj.user_block(rng, ("M%d" % rng.randint(0, 10 ** 6)).encode()) if rng.random() < 0.8 else []
        out.append(st)
        out.extend(body)
        out.append(rng.choice(STYLES) % t.encode())
        bodies[t] = body
    return b"".join(out), bodies


def gen_inputs(rng):
    names = rng.sample(NAMES, rng.randint(1, 5))
    if "out" in names and rng.random() < 0.5:
        names.remove("out")
    fresh = OrderedDict()
    olds = {}
    family = rng.choice(FAMILIES) + (rng.choice(FAMILIES) if rng.random() < 0.4 else [])
    for n in names:
        lines, used = fresh_file(rng, wf=rng.random() < 0.85, tags=family)
        fresh[n] = lines
        r = rng.random()
        if r < 0.7:
            content, bodies = old_file(rng, used, family)
            if rng.random() < 0.08:
                content += b"\xff\xfe bad\n"
            olds[n] = content
    # unrelated pre-existing files whose names contain generated names
    for n in rng.sample(NAMES, 2):
        if n not in fresh and rng.random() < 0.5:
            olds[n] = old_file(rng, TAGS[:3])[0]
    # a path cannot be both a file and a directory
    allp = list(fresh) + list(olds)
    for a in allp:
        for b in allp:
            if b.startswith(a + "/"):
                fresh.pop(a, None)
                olds.pop(a, None)
    return fresh, olds


def run_case(ctx, rng, outdir_spelling="abs"):
    fresh, olds = gen_inputs(rng)
    if not fresh:
        return None, False
    return execute(ctx, fresh, olds, outdir_spelling)


def execute(ctx, fresh, olds, outdir_spelling="abs"):
    """Returns (failure dict or None, nontrivial flag)."""
    fresh = OrderedDict(fresh)
    with scratch() as d:
        tdir = os.path.join(d, "tmpl")
        os.makedirs(tdir)
        open(os.path.join(tdir, "dummy.t"), "w").write("x\n")
        out = os.path.join(d, "out")
        try:
            kj.write_tree(out, olds)
        except OSError:
            return None, False
        os.makedirs(out, exist_ok=True)
        before = read_tree(out)
        spell = {"abs": out, "rel": "out", "trail": out + "/", "dot": "./out"}[outdir_spelling]
        with kj.cwd(d), kj.quiet():
            gen = cgen.CGenerator(tdir, spell)
            cm = cgen.CCodeModel()
            for k, v in fresh.items():
                cm.filenames_to_lines[k] = list(v)
            old = presv.old_spec(out, list(fresh.keys()))
            try:
                gen.preserve_usercode_in_files(cm)
                ret = gen.createoutput(cm.filenames_to_lines)
            except Exception as e:  # noqa
                return {"crash": repr(e), "fresh": fresh, "olds": olds, "spelling": outdir_spelling}, True
        after = read_tree(out)
        fails = []
        if ctx.km:
            written, returned = presv.model_regen(ctx.km, spell, old, fresh)
            mt = presv.apply_model(before, written)
            if mt != after or sorted(returned) != sorted(ret):
                bad = sorted(k for k in set(mt) | set(after) if mt.get(k) != after.get(k))
                ctx.tie_broken("correspondence: preserve_usercode_in_files+createoutput vs Model.Preserve.regen on synthetic code models",
                               {"fresh": fresh, "olds": olds, "spelling": outdir_spelling, "files": bad[:5],
                                "returned_impl": ret, "returned_model": returned})
        # oracle (spec side, independent of kojen's collector): per file
        for n, lines in fresh.items():
            fl = splitlines_keep("".join(lines).encode("utf-8", "surrogateescape"))
            exp_pairs = tag_pairs(fl)
            names_new = [nm for (_o, _c, nm) in exp_pairs]
            if n in olds:
                try:
                    olds[n].decode("utf-8")
                except UnicodeDecodeError:
                    if after.get(n) != olds[n]:
                        fails.append({"what": "undecodable file was rewritten", "file": n})
                    continue
            wf_new = len(set(names_new)) == len(names_new) and all(c == o + 1 for (o, c, _n) in exp_pairs) and \
                len([1 for l in fl if kj.PFX in l]) == 2 * len(exp_pairs)
            if not wf_new:
                continue
            old_blocks = {}
            if n in olds:
                ol = splitlines_keep(olds[n])
                ops = tag_pairs(ol)
                if len(set(x[2] for x in ops)) != len(ops):
                    continue
                old_blocks = {nm: ol[o + 1:c] for (o, c, nm) in ops}
            exp = []
            for i, l in enumerate(fl):
                exp.append(l)
                for (o, c, nm) in exp_pairs:
                    if o == i and nm in old_blocks:
                        exp.extend(old_blocks[nm])
            if tabnorm(b"".join(exp)) != after.get(n):
                fails.append({"what": "file content differs from fresh + own old blocks (C01/C02/C04 oracle)", "file": n})
            lost = [(nm, b) for nm, b in old_blocks.items() if nm not in names_new and b]
            lname = n + ".LostCode.txt"
            if lost:
                lc = after.get(lname)
                if lc is None or lname not in ret:
                    fails.append({"what": "lost code not written next to its file / not reported (C03 oracle)", "file": n})
                else:
                    ll = splitlines_keep(lc)
                    for nm, b in lost:
                        lab = nm + b"\n"
                        idx = [i for i, x in enumerate(ll) if x == lab]
                        ok = False
                        for a in range(0, len(idx) - 1):
                            seg = [x for x in ll[idx[a] + 1:idx[a + 1]] if x != b"\n"]
                            if seg == [tabnorm(x) for x in b if x != b"\n"]:
                                ok = True
                        if not ok:
                            fails.append({"what": "lost block not found labelled in LostCode file (C03 oracle)", "file": n, "tag": nm})
            elif lname in after and lname not in before:
                fails.append({"what": "LostCode file written although nothing was lost (C03 oracle)", "file": n})
        # nothing else changed
        for k in before:
            if k not in fresh and not k.endswith(".LostCode.txt") and after.get(k) != before[k]:
                fails.append({"what": "a file that is not generated was modified", "file": k})
        for f in fails:
            f.update({"fresh": fresh, "olds": olds, "spelling": outdir_spelling, "synthetic": True})
        want = getattr(ctx, "synth_filter", None)
        if want is not None:
            fails = [f for f in fails if want(f)]
        return (fails[0] if fails else None), bool(olds)
