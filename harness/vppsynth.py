"""Synthesised Visual Paradigm projects for C20: abstract state diagrams (the Python twin of Model/VppWriter.v's `diagram`),
their conversion to kmodel values, SQLite project files with the schema of kojen/test/blob.xml, the real extraction entry
point, and an independent oracle for the expected transition table."""
import os
import sqlite3
import string

from . import kj

from kojen import vppfs  # noqa: E402  (kj put KOJEN_REPO first on sys.path)

BLOB_XML = os.path.join(kj.REPO, "kojen", "test", "blob.xml")
KEYWORDS = [b"toModel", b"fromModel", b"guard", b"effect"]
IDCH = string.ascii_letters + string.digits + "._"
_SCHEMA = None


def schema():
    """CREATE statements of the three tables, copied from the shipped project file."""
    global _SCHEMA
    if _SCHEMA is None:
        con = sqlite3.connect("file:%s?mode=ro" % BLOB_XML, uri=True)
        try:
            _SCHEMA = [r[0] for r in con.execute(
                "SELECT sql FROM sqlite_master WHERE type='table' AND name IN ('MODEL_ELEMENT','DIAGRAM','DIAGRAM_ELEMENT') ORDER BY name")]
        finally:
            con.close()
        assert len(_SCHEMA) == 3
    return _SCHEMA


# ---------------------------------------------------------------- values for kmodel

def o(x):
    return [] if x is None else [x]


def pelem_v(p):
    return [p["id"], p["type"], o(p["name"]), o(p["parent"]), p["blob"]]


def trans_v(t):
    return [t["id"], o(t["name"]), o(t["parent"]), t["from"], t["to"], o(t["guard"]), o(t["effect"]),
            t["pto"], t["pfrom"], t["pguard"], t["peffect"], t["head"], [[k, v] for k, v in t["layout"]]]


def guard_v(g):
    return [g["id"], g["type"], o(g["name"]), o(g["parent"]), g["head"], g["pre"], g["text"], g["post"]]


def diagram_v(D):
    return [D["id"], D["name"],
            [[k, de, trans_v(p) if k == "trans" else pelem_v(p)] for k, de, p in D["elems"]],
            [guard_v(g) for g in D["guards"]], [pelem_v(a) for a in D["acts"]]]


def db_v(db):
    ds, es, ms = db
    return [[[a, b, c] for a, b, c in ds], [[a, b, c, o(d)] for a, b, c, d in es],
            [[a, b, o(c), o(d), e] for a, b, c, d, e in ms]]


def db_of_v(v):
    """kmodel reply of vpp_encode -> (diagrams, delems, melems) with None for NULL"""
    un = lambda x: x[0] if x else None  # noqa: E731
    ds, es, ms = v
    return ([tuple(r) for r in ds], [(r[0], r[1], r[2], un(r[3])) for r in es],
            [(r[0], r[1], un(r[2]), un(r[3]), r[4]) for r in ms])


# ---------------------------------------------------------------- the real code

def txt(b):
    return None if b is None else b.decode("utf-8")


def write_project(path, db):
    ds, es, ms = db
    con = sqlite3.connect(path)
    try:
        for s in schema():
            con.execute(s)
        con.executemany("INSERT INTO DIAGRAM (ID, DIAGRAM_TYPE, NAME, DEFINITION) VALUES (?,?,?,?)",
                        [(txt(a), txt(b), txt(c), b"x") for a, b, c in ds])
        con.executemany("INSERT OR IGNORE INTO MODEL_ELEMENT (ID, MODEL_TYPE, PARENT_ID, NAME, DEFINITION) VALUES (?,?,?,?,?)",
                        [(txt(a), txt(b), txt(c), txt(d), e) for a, b, c, d, e in ms])
        con.executemany("INSERT INTO DIAGRAM_ELEMENT (ID, SHAPE_TYPE, DIAGRAM_ID, MODEL_ELEMENT_ID, DEFINITION) VALUES (?,?,?,?,?)",
                        [(txt(a), txt(b), txt(c), txt(d), b"shape") for a, b, c, d in es])
        con.commit()
    finally:
        con.close()


_RUNS = 0
_SAME = []


def _same_dir():
    if not _SAME:
        import atexit
        import shutil
        import tempfile
        _SAME.append(tempfile.mkdtemp(prefix="kjv-vppsame-"))
        atexit.register(shutil.rmtree, _SAME[0], True)
    return _SAME[0]


def run_real(db, name):
    """(rows as lists of bytes | None, exception text) from vppfs.ExtractTransitionTable on a fresh project file"""
    global _RUNS
    _RUNS += 1
    with kj.scratch("kjv-vpp-") as d:
        # every second project of a process is written to ONE path (the previous file there is replaced): the table that comes back
        # must be that of the file's current content, whatever was extracted from that path before (C20: "no other content of the project")
        path = os.path.join(_same_dir(), "project.vpp") if _RUNS % 2 == 0 else os.path.join(d, "project.vpp")
        if os.path.exists(path):
            os.remove(path)
        write_project(path, db)
        try:
            with kj.quiet():
                tt = vppfs.ExtractTransitionTable(name.decode("utf-8"), path)
        except Exception as e:  # noqa
            return None, "%s: %s" % (type(e).__name__, e)
        if tt is None:
            return None, "returned None"
        return [[c.encode("utf-8") for c in r] for r in tt], None


# ---------------------------------------------------------------- independent oracle (reads only the abstract diagram)

def oracle_rows(D):
    name = {}
    inits = set()
    for kind, _de, p in D["elems"]:
        if kind == "state":
            name[p["id"]] = p["name"] or b""
        elif kind == "init":
            inits.add(p["id"])
    act = {a["id"]: a["name"] or b"" for a in reversed(D["acts"])}
    grd = {g["id"]: g["text"] for g in reversed(D["guards"])}
    trans = [p for kind, _de, p in D["elems"] if kind == "trans"]
    order = [name[t["to"]] for t in trans if t["from"] in inits]
    rows = []
    for t in trans:
        if t["from"] in inits:
            continue
        rows.append([name[t["from"]], t["name"] or b"", b"None" if t["to"] == t["from"] else name[t["to"]],
                     b"None" if t["effect"] is None else act[t["effect"]], b"None" if t["guard"] is None else grd[t["guard"]]])
        order.append(name[t["from"]])
    rank = {}
    for s in order:
        rank.setdefault(s, len(rank))
    return sorted(rows, key=lambda r: rank[r[0]])      # stable: drawing order inside a group


# ---------------------------------------------------------------- generator

NOISE = [b'\r\n\t_modelEditable=T', b'\r\n\tpmAuthor="eugene"', b'\r\n\tpmCreateDateTime="1466004028921"',
         b'\r\n\tpmLastModified="1466004171833"', b'\r\n\t_modelViews=NULL', b'\r\n\tdocumentation_plain=""',
         b'\r\n\tkind=0', b'\r\n\tvisibility=71']


class Gen:
    def __init__(self, rng):
        self.rng = rng
        self.used = set()

    def new_id(self, clean=True):
        while True:
            s = "".join(self.rng.choice(IDCH) for _ in range(16)).encode()
            if s in self.used or (clean and any(k in s for k in KEYWORDS)):
                continue
            self.used.add(s)
            return s

    def ident(self, prefix):
        return kj.ident(self.rng, prefix).encode()

    def pelem(self, ty, name, quirk=False):
        i = self.new_id()
        blob = i + b":" + (b"NULL" if name is None else b'"' + name + b'"') + b":" + ty + b" {" + b";".join(
            self.rng.sample(NOISE, self.rng.randint(1, 4))) + b";\r\n}"
        if quirk:
            blob = self.rng.choice([b"", b"'", b"\xff\x00\"'", b"guard=<x>;toModel;effect", blob + b"'"])
        return {"id": i, "type": ty, "name": name, "parent": self.rng.choice([None, self.new_id()]), "blob": blob}

    def noise_fields(self):
        """a few noise fields, possibly the three ';' pieces of a nested {...} value or a Child=(...) list"""
        rng = self.rng
        res = []
        for _ in range(rng.randint(0, 4)):
            k = rng.random()
            if k < 0.6:
                res.append([rng.choice(NOISE)])
            elif k < 0.8:
                a, b, c = self.new_id(), self.new_id(), self.new_id()
                res.append([b'\r\n\t_modelViews=(\r\n\t\t{' + a + b':"View":ModelView {\r\n\t\t\tcontainer=<' + b + b'>',
                            b'\r\n\t\t\tview="' + c + b'"', b'\r\n\t\t}}\r\n\t)'])
            else:
                ids = [b":".join(self.new_id() for _ in range(rng.randint(1, 4))) for _ in range(rng.randint(1, 3))]
                res.append([b'\r\n\tChild=(\r\n\t\t' + b", \r\n\t\t".join(b"<" + x + b">" for x in ids) + b'\r\n\t)'])
        return res

    def diagram(self, name=None, nstates=None, ntrans=None, quirks=0.0):
        """a random abstract diagram; quirks = probability of each departure from the assumed domain"""
        rng = self.rng
        q = lambda: rng.random() < quirks  # noqa: E731
        tags = []
        ns = nstates if nstates is not None else rng.randint(1, 5)
        names = []
        while len(names) < ns:
            n = self.ident("State")
            if n not in names:
                names.append(n)
        if ns > 1 and q():
            names[1] = names[0]
            tags.append("duplicate-state-name")
        states = [self.pelem(b"State2", n, quirk=rng.random() < 0.1) for n in names]
        if rng.random() < 0.05:
            states[-1]["name"] = None if b"" not in names else states[-1]["name"]
        ninit = 1
        if q():
            ninit = rng.choice([0, 2])
            tags.append("init-count-%d" % ninit)
        inits = [self.pelem(b"InitialPseudoState", rng.choice([b"", None, b"Start"])) for _ in range(ninit)]
        guards, acts = [], []
        trans = []
        nt = ntrans if ntrans is not None else rng.randint(0, 8)
        for j in range(nt):
            frm = rng.choice(states)["id"]
            if inits and (j == 0 or rng.random() < 0.08):
                frm = rng.choice(inits)["id"]
            to = frm if (rng.random() < 0.25 and frm in [s["id"] for s in states]) else rng.choice(states)["id"]
            nm = rng.choice([self.ident("Event"), self.ident("Event"), self.ident("Event"), None, b""])
            if q():
                nm = rng.choice([b"EventSafeguard", b"aftereffect", b"EvtoModelX", b"XfromModel", b"guard", b"Ev'quote", b"Ev;semi",
                                 b"Ev\xc3\xafffect", b"Gr\xc3\xbc\xc3\x9fe"])
                tags.append("name:" + nm.decode("utf-8", "replace"))
            g = None
            if rng.random() < 0.5:
                if guards and rng.random() < 0.3:
                    g = rng.choice(guards)["id"]
                else:
                    text = self.ident("Guard")
                    if q():
                        text = rng.choice([b"x>5", b"a==b", b"Is(Ready)", b"value_stringX", b"G uard ok", b"Gu'ard", b"a;b", b""])
                        tags.append("guardtext:" + text.decode())
                    pre = [x for grp in self.noise_fields() for x in grp]
                    gd = {"id": self.new_id(), "type": b"ConstraintElement", "name": rng.choice([b"", None]), "parent": None,
                          "head": rng.choice(NOISE), "pre": pre, "text": text,
                          "post": rng.choice([b"\r\n\t\t_modelEditable=T;\r\n\t}};\r\n}", b"", b"\r\n}", b"value_string=\"Other\";"])}
                    if q():
                        gd["head"] = b'\r\n\tnote="the value_string below"'
                        tags.append("guard-head-mentions-key")
                    guards.append(gd)
                    g = gd["id"]
            e = None
            if rng.random() < 0.6:
                if acts and rng.random() < 0.4:
                    e = rng.choice(acts)["id"]          # effect shared between transitions
                else:
                    a = self.pelem(b"Activity", rng.choice([self.ident("On"), self.ident("On"), b"", None]), quirk=rng.random() < 0.1)
                    acts.append(a)
                    e = a["id"]
            path = lambda: [self.new_id() for _ in range(rng.choice([0, 0, 1, 3]))]  # noqa: E731
            groups = self.noise_fields()
            keys = [["K", "to"], ["K", "from"]] + ([["K", "guard"]] if g else []) + ([["K", "effect"]] if e else [])
            if rng.random() < 0.05:
                keys.append(rng.choice(keys))           # a reference written twice
            slots = [[["N", x] for x in grp] for grp in groups] + [[k] for k in keys]
            rng.shuffle(slots)
            layout = [f for s in slots for f in s]
            head = rng.choice(NOISE)
            if q():
                head = rng.choice([b'\r\n\tpmAuthor="effective eugene"', b'\r\n\tpmAuthor="guardian"', b"\r\n\ttoModel=<" + to + b">"])
                tags.append("head:" + head.decode())
            t = {"id": self.new_id(), "name": nm, "parent": rng.choice([None, self.new_id()]), "from": frm, "to": to, "guard": g,
                 "effect": e, "pto": path(), "pfrom": path(), "pguard": path(), "peffect": path(), "head": head, "layout": layout}
            if q():
                t["to"] = self.new_id()
                tags.append("target-not-drawn")
            if q():
                t["pto"] = [self.new_id(clean=False)[:8] + b"guard"]
                tags.append("keyword-in-id")
            trans.append(t)
        elems = [["state", self.new_id(), s] for s in states] + [["init", self.new_id(), i] for i in inits] \
            + [["trans", self.new_id(), t] for t in trans] \
            + [["other", self.new_id(), self.pelem(rng.choice([b"NOTE", b"Anchor"]), rng.choice([b"", None, b"a note"]))]
               for _ in range(rng.choice([0, 0, 1, 2]))]
        rng.shuffle(elems)
        if elems and q():
            elems.append(list(rng.choice(elems)))
            elems[-1][1] = self.new_id()
            tags.append("element-drawn-twice")
        if q():
            elems.append(["other", self.new_id(), self.pelem(b"FinalState2", b"End")])
            tags.append("unhandled-type")
        D = {"id": self.new_id(), "name": name or self.ident("Machine"), "elems": elems, "guards": guards, "acts": acts}
        return D, tags

    def project(self, km, D, nothers=None):
        """rows of a project that contains D between rows of other diagrams (ids disjoint, rows interleaved, D's shapes in order)"""
        rng = self.rng
        mine = db_of_v(km.call("vpp_encode", diagram_v(D)))
        ds, es, ms = [list(x) for x in mine]
        merged = list(es)
        for _ in range(nothers if nothers is not None else rng.randint(0, 3)):
            kind = rng.random()
            if kind < 0.6:
                O, _tags = self.diagram(quirks=0.0)
                if rng.random() < 0.3:
                    O["name"] = D["name"] + rng.choice([b"2", b" ", b"_", b""])
                ods, oes, oms = db_of_v(km.call("vpp_encode", diagram_v(O)))
                if rng.random() < 0.5:
                    ods = [(ods[0][0], rng.choice([b"ClassDiagram", b"StateDiagram"]), ods[0][2])]
            else:
                did = self.new_id()
                ods = [(did, b"ClassDiagram", rng.choice([D["name"], self.ident("Classes")]))]
                oms = [(self.new_id(), rng.choice([b"Class", b"Package", b"State2", b"Transition2"]), None, self.ident("C"),
                        b'x:"guard":Class {\r\n\ttoModel=<y>;\r\n}') for _ in range(rng.randint(0, 4))]
                oes = [(self.new_id(), m[1], did, m[0]) for m in oms] + ([(self.new_id(), b"Text", did, None)] if rng.random() < 0.3 else [])
            ds += ods
            ms += oms
            merged = merge(rng, merged, list(oes))        # interleave, keeping both orders
        ours = ds[0]
        rest = ds[1:]
        rng.shuffle(rest)
        clones = [r for r in rest if r[1] == b"StateDiagram" and r[2] == D["name"]]
        out = [r for r in rest if r not in clones]
        at = rng.randint(0, len(out))
        out.insert(at, ours)
        for c in clones:                                   # a later state diagram of the same name is allowed: the first one wins
            out.insert(rng.randint(at + 1, len(out)), c)
        rng.shuffle(ms)
        return (out, merged, ms)


def merge(rng, a, b):
    res = []
    a, b = list(a), list(b)
    while a or b:
        if a and (not b or rng.random() < len(a) / (len(a) + len(b))):
            res.append(a.pop(0))
        else:
            res.append(b.pop(0))
    return res
