"""C19 support: kojen's own class-diagram objects (unmodelled input adaptor), their mutation as a Python object graph, the
abstraction to Model/Uml.v's cdiagram, the real UML generator, and a line tokenizer for the generated .h/.cpp."""
import copy
import os
import re
import subprocess

from . import kj

from kojen import umlgen, vppclassdiagram, LanguageCPP, LanguageCsharp  # noqa: E402

BLOB_XML = os.path.join(kj.REPO, "kojen", "test", "blob.xml")
DIAGRAMS = ("TestClassDiagram", "ProtocolStack")
_CACHE = {}


def load(name):
    """a fresh deep copy of the class diagram kojen's blob parser reads from the shipped project"""
    if name not in _CACHE:
        with kj.quiet():
            cd = vppclassdiagram.ExtractClassDiagram(name, BLOB_XML)
        cd.table_vppmodelelements.vpp.con = None          # the sqlite connection cannot be copied
        for coll in (cd.classes, cd.inheritence, cd.associations, cd.packages):
            for x in coll.values():
                t = getattr(x, "table_vppmodelelements", None)
                if t is not None and getattr(t, "vpp", None) is not None:
                    t.vpp.con = None
        _CACHE[name] = cd
    return copy.deepcopy(_CACHE[name])


# ---------------------------------------------------------------- abstraction for the model

def bb(x):
    return b"1" if x else b"0"


def abstract(cd, lang):
    classes = []
    for cid, c in cd.classes.items():
        ops = []
        for op in c.OPERATIONS:
            ps = []
            for p in op.PARAMETERS:
                t = lang.GetTypeAndNameFromMultiplicityAndModifier(c, p["type"].strip(), p["modifier"].strip(), p["multiplicity"].strip(), p["name"].strip())
                t0 = (p["const"].strip() + " " + t[0]).lstrip()
                dflt = "" if not p["defaultvalue"].strip() else lang.GetDefaultFormatFromMultiplicityAndModifier(
                    c, p["modifier"].strip(), p["multiplicity"].strip(), p["defaultvalue"])
                ext = lang.GetTypeAndNameFromMultiplicityAndModifier(c, p["type"].strip(), p["modifier"].strip(), p["multiplicity"].strip(), "")[1]
                ps.append([t0, t[1], dflt, ext])
            ret = lang.GetTypeAndNameFromMultiplicityAndModifier(c, op.RETURN_TYPE, op.RETURN_TYPE_MODIFIER, "", "")[0]
            ops.append([op.NAME, op.VISIBILITY, ret, ps, bb(op.VIRTUAL), bb(op.IS_STATIC), bb(op.IS_CONST)])
        classes.append([cid, c.NAME, c.NAMESPACE, bb(c.IS_ENUM), bb(c.IS_STRUCT), bb(c.AUTOGEN), bb(c.PURE_VIRTUAL_INTERFACE), ops])
    inhs = [[i.CLASS_TO_ID, i.CLASS_FROM_ID, bb(i.IS_REALIZATION)] for i in cd.inheritence.values()]
    return [classes, inhs]


def abstract_incl(cd):
    """the RAW diagram the include / forward-declaration computation works on (Model/UmlIncl.v idiagram): fully qualified type names,
    modifiers, multiplicities, inheritance and association ends as the objects hold them"""
    classes = []
    for cid, c in cd.classes.items():
        ats = [[a.TYPE, a.TYPE_MODIFIER, a.MULTIPLICITY] for a in c.ATTRIBUTES]
        ops = [[o.RETURN_TYPE, o.RETURN_TYPE_MODIFIER, [[p["type"], p["modifier"], p["multiplicity"]] for p in o.PARAMETERS]] for o in c.OPERATIONS]
        classes.append([cid, c.NAME, c.NAMESPACE, bb(c.PURE_VIRTUAL_INTERFACE), ats, ops])
    inhs = [[i.CLASS_TO_ID, i.CLASS_FROM_ID, i.CLASS_FROM, bb(i.IS_REALIZATION)] for i in cd.inheritence.values()]
    assocs = [[a.TYPE, a.CLASS_FROM_ID, a.CLASS_FROM, a.CLASS_TO_ID, a.CLASS_TO, a.CLASS_FROM_MULTIPLICITY, a.CLASS_TO_MULTIPLICITY] for a in cd.associations.values()]
    return [classes, inhs, assocs]


def abstract_cs(cd, lang):
    """the abstract diagram as LanguageCsharp renders it: parameter types with their ref / out prefix (no const), defaults and array
    extents through the C# helpers; constness of operations is passed on and erased by the model (UmlCs.cs_view)"""
    classes = []
    for cid, c in cd.classes.items():
        ops = []
        for op in c.OPERATIONS:
            ps = []
            for p in op.PARAMETERS:
                t = lang.GetTypeAndNameFromMultiplicityAndModifier(c, p["type"].strip(), p["modifier"].strip(), p["multiplicity"].strip(), p["name"].strip())
                direction = p["direction"].strip() if "direction" in p else ""
                t0 = (("ref " if direction.find("inout") > -1 else ("out " if direction.find("out") > -1 else "")) + t[0]).lstrip()
                dflt = "" if not p["defaultvalue"].strip() else lang.GetDefaultFormatFromMultiplicityAndModifier(
                    c, p["modifier"].strip(), p["multiplicity"].strip(), p["defaultvalue"])
                ext = lang.GetTypeAndNameFromMultiplicityAndModifier(c, p["type"].strip(), p["modifier"].strip(), p["multiplicity"].strip(), "")[1]
                ps.append([t0, t[1], dflt, ext])
            ret = lang.GetTypeAndNameFromMultiplicityAndModifier(c, op.RETURN_TYPE, op.RETURN_TYPE_MODIFIER, "", "")[0]
            ops.append([op.NAME, op.VISIBILITY, ret, ps, bb(op.VIRTUAL), bb(op.IS_STATIC), bb(op.IS_CONST)])
        classes.append([cid, c.NAME, c.NAMESPACE, bb(c.IS_ENUM), bb(c.IS_STRUCT), bb(c.AUTOGEN), bb(c.PURE_VIRTUAL_INTERFACE), ops])
    inhs = [[i.CLASS_TO_ID, i.CLASS_FROM_ID, bb(i.IS_REALIZATION)] for i in cd.inheritence.values()]
    return [classes, inhs]


# ---------------------------------------------------------------- mutation of the object graph

def retarget_types(cd, old, new):
    """replace the fully qualified prefix `old` by `new` in every type string of the diagram (types are references in VP)"""
    def fix(t):
        if not isinstance(t, str):
            return t
        if t == old:
            return new
        return re.sub(r"(?<![\w:])" + re.escape(old) + r"(?=::|$|[^\w])", new, t)
    for c in cd.classes.values():
        for a in c.ATTRIBUTES:
            a.TYPE = fix(a.TYPE)
        for o in c.OPERATIONS:
            o.RETURN_TYPE = fix(o.RETURN_TYPE)
            for p in o.PARAMETERS:
                p["type"] = fix(p["type"])
    for a in cd.associations.values():
        a.CLASS_FROM, a.CLASS_TO = fix(a.CLASS_FROM), fix(a.CLASS_TO)
    for i in cd.inheritence.values():
        i.PostProjectParseFix(cd)


def rename_namespace(cd, old, new):
    for c in cd.classes.values():
        if c.NAMESPACE == old or c.NAMESPACE.startswith(old + "::"):
            c.NAMESPACE = new + c.NAMESPACE[len(old):]
    retarget_types(cd, old, new)


def remove_class(cd, cid):
    cd.classes.pop(cid, None)
    for k in [k for k, i in cd.inheritence.items() if i.CLASS_TO_ID == cid or i.CLASS_FROM_ID == cid]:
        del cd.inheritence[k]
    for k in [k for k, a in cd.associations.items() if a.CLASS_TO_ID == cid or a.CLASS_FROM_ID == cid]:
        del cd.associations[k]


def const_member_count(c):
    """number of parameters of the constructor kojen generates for the const, non static members (GetConstructor)"""
    members = list(c.ATTRIBUTES) + list(c.GetAssociationsAsListOfAttributesPerVisibility("all"))
    return len([a for a in members if a.IS_CONST and not a.IS_STATIC])


def new_operation(cd, name, ret, params, visibility="public"):
    """a fresh operation object (a copy of any parsed one, every field reset); params: list of (type, name)"""
    donor = next((o for c in cd.classes.values() for o in c.OPERATIONS), None)
    if donor is None:
        return None
    op = copy.deepcopy(donor)
    op.NAME, op.VISIBILITY, op.RETURN_TYPE, op.RETURN_TYPE_MODIFIER = name, visibility, ret, ""
    op.IS_STATIC = op.IS_CONST = op.VIRTUAL = False
    op.USER_COMMENTS = ""
    op.PARAMETERS = [{"const": "", "type": t, "name": n, "modifier": "", "defaultvalue": "", "multiplicity": "", "direction": "in"}
                     for t, n in params]
    return op


def add_explicit_constructor(cd, cid):
    """an explicit constructor operation with as many parameters as kojen's generated const-initialising constructor has
    (at least one const member is made if there is none); returns the parameter count or None"""
    c = cd.classes[cid]
    k = const_member_count(c)
    if k == 0:
        cand = [a for a in c.ATTRIBUTES if not a.IS_STATIC]
        if not cand:
            return None
        cand[0].IS_CONST = True
        k = const_member_count(c)
    op = new_operation(cd, c.NAME, "void", [("int", "_c%d" % j) for j in range(k)])
    if op is None:
        return None
    c.OPERATIONS.append(op)
    return k


def add_overloads(cd, cid, rets, name="Convert"):
    """two overloads name(int) / name(double) returning rets[0] / rets[1]"""
    for ret, pt in zip(rets, ("int", "double")):
        op = new_operation(cd, name, ret, [(pt, "_value")])
        if op is None:
            return False
        cd.classes[cid].OPERATIONS.append(op)
    return True


def same_named_pair(rng, cd):
    """two classes of one name in two different packages (fully qualified names); one is renamed when the diagram has none"""
    plain = [c for c in cd.classes.values() if not (c.IS_ENUM or c.IS_STRUCT or c.PURE_VIRTUAL_INTERFACE or c.AUTOGEN) and c.NAMESPACE]
    for a in plain:
        for b in plain:
            if a is not b and a.NAME == b.NAME and a.NAMESPACE != b.NAMESPACE:
                return a.NAMESPACE + "::" + a.NAME, b.NAMESPACE + "::" + b.NAME
    pairs = [(a, b) for a in plain for b in plain if a.NAMESPACE != b.NAMESPACE]
    if not pairs:
        return None
    a, b = rng.choice(pairs)
    old = b.NAME
    b.NAME = a.NAME
    for o in b.OPERATIONS:
        if o.NAME.strip() == old.strip():
            o.NAME = b.NAME
    retarget_types(cd, b.NAMESPACE + "::" + old, b.NAMESPACE + "::" + b.NAME)
    return a.NAMESPACE + "::" + a.NAME, b.NAMESPACE + "::" + b.NAME


def remove_association(cd, name):
    for k in [k for k, a in cd.associations.items() if a.NAME == name]:
        del cd.associations[k]
        return True
    return False


MULTIPLICITIES = ["0..1", "1", "*", "1..*", "0..*", "4", "2..5", "0"]


def mutate_association(rng, cd, cid):
    """remove / reorder / re-multiply an association end held by class cid (or any association); returns a label or None"""
    mine = [k for k, a in cd.associations.items() if a.CLASS_FROM_ID == cid or a.CLASS_TO_ID == cid] or list(cd.associations)
    if not mine:
        return None
    act = rng.choice(["remove", "reorder", "multiplicity", "kind", "static", "const"])
    key = rng.choice(mine)
    a = cd.associations[key]
    if act == "remove":
        del cd.associations[key]
    elif act == "reorder":
        keys = list(cd.associations)
        rng.shuffle(keys)
        items = [(k, cd.associations[k]) for k in keys]
        cd.associations.clear()
        cd.associations.update(items)
    elif act == "multiplicity":
        if rng.random() < 0.5:
            a.CLASS_FROM_MULTIPLICITY = rng.choice(MULTIPLICITIES)
        else:
            a.CLASS_TO_MULTIPLICITY = rng.choice(MULTIPLICITIES)
    elif act == "kind":
        a.TYPE = rng.choice(["Association", "Aggregation", "Composition"])
    elif act == "static":
        a.CLASS_FROM_IS_STATIC = not a.CLASS_FROM_IS_STATIC
    else:
        a.CLASS_FROM_IS_CONST = not a.CLASS_FROM_IS_CONST
    owner = cd.classes[a.CLASS_FROM_ID].NAME if a.CLASS_FROM_ID in cd.classes else "?"
    return "association:%s:%s" % (act, owner)


def mutate(rng, cd, n):
    """n random edits; returns the list of edit labels"""
    log = []
    for _ in range(n):
        cids = list(cd.classes)
        if not cids:
            break
        cid = rng.choice(cids)
        c = cd.classes[cid]
        k = rng.choice(["rename-class", "remove-class", "retype-class", "rename-package", "rename-op", "remove-op", "retype-op",
                        "param", "attribute", "relationship", "visibility", "copy-op", "second-path",
                        "association", "association", "explicit-ctor", "overload", "overload-foreign-return", "attribute-flags",
                        "empty-class", "long-names"])
        if k == "rename-class":
            new = rng.choice(["C" + kj.ident(rng, "X"), "C" + kj.ident(rng, "X"), rng.choice(list(cd.classes.values())).NAME])
            old = c.NAME
            c.NAME = new
            for o in c.OPERATIONS:
                if o.NAME.strip() == old.strip():
                    o.NAME = new
            retarget_types(cd, c.NAMESPACE + "::" + old, c.NAMESPACE + "::" + new)
        elif k == "remove-class":
            remove_class(cd, cid)
        elif k == "retype-class":
            f = rng.choice(["class", "interface", "enum", "struct", "autogen-class"])
            c.PURE_VIRTUAL_INTERFACE, c.IS_ENUM, c.IS_STRUCT, c.AUTOGEN = (f == "interface"), (f == "enum"), (f == "struct"), (f == "autogen-class")
            k += ":" + f
        elif k == "rename-package":
            nss = sorted({x.NAMESPACE for x in cd.classes.values() if x.NAMESPACE})
            if nss:
                old = rng.choice(nss)
                rename_namespace(cd, old, rng.choice(["XNew", "XOuter::XInner", old + "Two", "A::B::C"]))
        elif k == "empty-class":
            # prefer an interface in the middle of a realisation chain: it keeps its parents but declares nothing itself
            mids = [x for x in cd.classes.values() if x.PURE_VIRTUAL_INTERFACE and x.OPERATIONS]
            tgt = rng.choice(mids) if mids and rng.random() < 0.7 else c
            del tgt.OPERATIONS[:]
            k += ":" + tgt.NAME
        elif k == "long-names":
            # identifiers and type names beyond the fixed columns of the formatting helpers
            tail = "".join(rng.choice(["Upper", "Lower", "Limit", "Buffer", "Counter", "Extended"]) for _ in range(rng.randint(6, 12)))
            if c.ATTRIBUTES and c.IS_STRUCT:
                rng.choice(c.ATTRIBUTES).NAME = "m_" + tail
            for o in c.OPERATIONS[:1]:
                if o.PARAMETERS:
                    o.PARAMETERS[0]["name"] = "_" + tail
        elif k == "rename-op" and c.OPERATIONS:
            rng.choice(c.OPERATIONS).NAME = rng.choice(["Run", "Stop", "Process" + str(rng.randint(0, 9))])
        elif k == "remove-op" and c.OPERATIONS:
            c.OPERATIONS.remove(rng.choice(c.OPERATIONS))
        elif k == "retype-op" and c.OPERATIONS:
            o = rng.choice(c.OPERATIONS)
            f = rng.choice(["ret", "VIRTUAL", "IS_STATIC", "IS_CONST"])
            if f == "ret":
                o.RETURN_TYPE, o.RETURN_TYPE_MODIFIER = rng.choice([("int", ""), ("void", ""), ("bool", ""), ("double", "*"), ("uint8_t", "[]")])
            else:
                setattr(o, f, not getattr(o, f))
            k += ":" + f
        elif k == "param" and c.OPERATIONS:
            o = rng.choice(c.OPERATIONS)
            a = rng.choice(["add", "remove", "retype", "rename", "default"])
            if a == "add" or not o.PARAMETERS:
                o.PARAMETERS.append({"const": rng.choice(["", "const"]), "type": rng.choice(["int", "bool", "double"]),
                                     "name": "_p%d" % len(o.PARAMETERS), "modifier": rng.choice(["", "*"]),
                                     "defaultvalue": rng.choice(["", "", "0"]), "multiplicity": rng.choice(["", "", "4", "0..*"]),
                                     "direction": rng.choice(["in", "inout", "out"])})
            elif a == "remove":
                o.PARAMETERS.remove(rng.choice(o.PARAMETERS))
            elif a == "retype":
                rng.choice(o.PARAMETERS)["type"] = rng.choice(["int", "float", "char"])
            elif a == "rename":
                rng.choice(o.PARAMETERS)["name"] = "_q%d" % rng.randint(0, 9)
            else:
                rng.choice(o.PARAMETERS)["defaultvalue"] = rng.choice(["", "1"])
            k += ":" + a
        elif k == "attribute" and c.ATTRIBUTES:
            a = rng.choice(c.ATTRIBUTES)
            act = rng.choice(["remove", "rename", "retype"])
            if act == "remove":
                c.ATTRIBUTES.remove(a)
            elif act == "rename":
                a.NAME = "m_r%d" % rng.randint(0, 99)
            else:
                a.TYPE = rng.choice(["int", "bool", "double"])
        elif k == "relationship" and cd.inheritence:
            key = rng.choice(list(cd.inheritence))
            if rng.random() < 0.5:
                del cd.inheritence[key]
                k += ":remove"
            else:
                cd.inheritence[key].IS_REALIZATION = not cd.inheritence[key].IS_REALIZATION
                k += ":flip-realisation"
        elif k == "visibility" and c.OPERATIONS:
            rng.choice(c.OPERATIONS).VISIBILITY = rng.choice(["public", "protected", "private", "package"])
        elif k == "association":
            k = mutate_association(rng, cd, cid) or k
        elif k == "explicit-ctor":
            n_params = add_explicit_constructor(cd, cid)
            k += ":%s:%s" % (c.NAME, n_params)
        elif k == "overload":
            if c.OPERATIONS and rng.random() < 0.5:
                o = copy.deepcopy(rng.choice(c.OPERATIONS))      # same name, arity and return type, another parameter type
                if o.PARAMETERS:
                    o.PARAMETERS[0]["type"] = "double" if o.PARAMETERS[0]["type"].strip() != "double" else "int"
                    o.PARAMETERS[0]["modifier"], o.PARAMETERS[0]["multiplicity"], o.PARAMETERS[0]["defaultvalue"] = "", "", ""
                    c.OPERATIONS.append(o)
            else:
                add_overloads(cd, cid, (rng.choice(["void", "int"]),) * 2, "Convert%d" % rng.randint(0, 9))
            k += ":" + c.NAME
        elif k == "overload-foreign-return":
            pair = same_named_pair(rng, cd)
            if pair:
                add_overloads(cd, cid, pair, "Convert%d" % rng.randint(0, 9))
                k += ":%s:%s" % (c.NAME, pair[0].rpartition("::")[2])
        elif k == "attribute-flags" and c.ATTRIBUTES:
            a = rng.choice(c.ATTRIBUTES)
            f = rng.choice(["IS_CONST", "IS_STATIC", "MULTIPLICITY"])
            if f == "MULTIPLICITY":
                a.MULTIPLICITY = rng.choice(["", "*", "4", "0..*", "1"])
            else:
                setattr(a, f, not getattr(a, f))
            k += ":" + f
        elif k == "second-path":
            # the class additionally realises a parent of an interface it already realises (two paths to the same operations)
            for i in list(cd.inheritence.values()):
                if i.CLASS_TO_ID == cid and i.CLASS_FROM_ID in cd.classes:
                    ups = [j for j in cd.inheritence.values() if j.CLASS_TO_ID == i.CLASS_FROM_ID and j.CLASS_FROM_ID in cd.classes
                           and cd.classes[j.CLASS_FROM_ID].PURE_VIRTUAL_INTERFACE]
                    if ups:
                        extra = copy.copy(i)
                        extra.CLASS_FROM_ID, extra.IS_REALIZATION = ups[0].CLASS_FROM_ID, True
                        extra.PostProjectParseFix(cd)
                        cd.inheritence["second-path-%d" % len(cd.inheritence)] = extra
                        break
        elif k == "copy-op":
            # declare in a class an operation of an interface it realises (what the shipped ProtocolStack diagram does)
            for i in cd.inheritence.values():
                if i.CLASS_TO_ID == cid and i.CLASS_FROM_ID in cd.classes and cd.classes[i.CLASS_FROM_ID].OPERATIONS:
                    cp = copy.deepcopy(rng.choice(cd.classes[i.CLASS_FROM_ID].OPERATIONS))
                    if rng.random() < 0.5:      # the same operation, its parameters named differently in the class
                        for n_, prm in enumerate(cp.PARAMETERS):
                            prm["name"] = "_own%d" % n_
                        k += ":renamed-params"
                    c.OPERATIONS.append(cp)
                    break
        log.append(k)
    return log


# ---------------------------------------------------------------- directed probes (shapes random edits reach rarely)

def probe_names(label="TestClassDiagram"):
    """deterministic list of directed probes for a shipped diagram"""
    cd = load(label)
    names = ["remove-association:" + a.NAME for a in cd.associations.values() if a.NAME]
    names += ["reverse-associations", "to-one-last"]
    for cid, c in cd.classes.items():
        plain = not (c.IS_ENUM or c.IS_STRUCT or c.PURE_VIRTUAL_INTERFACE or c.AUTOGEN)
        if plain and const_member_count(c) > 0:
            names.append("explicit-ctor:" + c.NAME)
    withops = [c.NAME for c in cd.classes.values() if c.OPERATIONS and not (c.IS_ENUM or c.IS_STRUCT or c.PURE_VIRTUAL_INTERFACE or c.AUTOGEN)]
    for n in withops[:2]:
        names += ["overloads-foreign-return:" + n, "overloads-same-return:" + n]
    plainattr = [c.NAME for c in cd.classes.values() if c.ATTRIBUTES and const_member_count(c) == 0
                 and not (c.IS_ENUM or c.IS_STRUCT or c.PURE_VIRTUAL_INTERFACE or c.AUTOGEN)]
    names += ["explicit-ctor:" + n for n in plainattr[:1]]
    names += ["empty-interface:" + c.NAME for c in cd.classes.values() if c.PURE_VIRTUAL_INTERFACE and c.OPERATIONS]
    names += ["redeclare-renamed-params", "nonconst-twin", "rename-to-interface-name"]
    names += ["long-member-names"]
    names += ["virtual-word"]
    names += ["class-outside-packages", "class-name-inside-namespace-name"]
    return names


def apply_probe(cd, probe):
    """apply one directed probe to a loaded diagram; returns the names of the classes it touches (files worth compiling)"""
    import random
    kind, _, arg = probe.partition(":")
    byname = {c.NAME: cid for cid, c in cd.classes.items()}
    if kind == "remove-association":
        owners = [cd.classes[a.CLASS_FROM_ID].NAME for a in cd.associations.values() if a.NAME == arg and a.CLASS_FROM_ID in cd.classes]
        remove_association(cd, arg)
        return owners
    if kind == "reverse-associations":
        items = list(cd.associations.items())[::-1]
        cd.associations.clear()
        cd.associations.update(items)
        return sorted({cd.classes[a.CLASS_FROM_ID].NAME for a in cd.associations.values() if a.CLASS_FROM_ID in cd.classes})
    if kind == "to-one-last":
        # every class keeps its association ends, the to-one ends moved behind the to-many ends
        def many(a):
            return any(x in a.CLASS_FROM_MULTIPLICITY for x in ("*",)) or a.CLASS_FROM_MULTIPLICITY.strip() in ("1..*", "0..*")
        items = sorted(cd.associations.items(), key=lambda kv: 0 if many(kv[1]) else 1)
        cd.associations.clear()
        cd.associations.update(items)
        for a in cd.associations.values():          # and no other source of <vector> among the association ends' neighbours
            if a.CLASS_FROM_IS_STATIC and many(a):
                a.CLASS_FROM_MULTIPLICITY = "1"
        return sorted({cd.classes[a.CLASS_FROM_ID].NAME for a in cd.associations.values() if a.CLASS_FROM_ID in cd.classes})
    if kind == "explicit-ctor":
        add_explicit_constructor(cd, byname[arg])
        return [arg]
    if kind == "overloads-foreign-return":
        pair = same_named_pair(random.Random(0), cd)
        if pair:
            add_overloads(cd, byname[arg], pair)
        return [arg]
    if kind == "overloads-same-return":
        add_overloads(cd, byname[arg], ("int", "int"))
        return [arg]
    if kind == "empty-interface":
        # the interface keeps its place in the hierarchy but declares no operation of its own any more
        del cd.classes[byname[arg]].OPERATIONS[:]
        return [c.NAME for c in cd.classes.values() if not c.PURE_VIRTUAL_INTERFACE]
    if kind == "redeclare-renamed-params":
        # every class that realises an interface declares the interface's first operation itself, with other parameter names
        # (an operation without parameters gets one, in the interface and in the class)
        touched = []
        for i in list(cd.inheritence.values()):
            if not i.IS_REALIZATION or i.CLASS_TO_ID not in cd.classes or i.CLASS_FROM_ID not in cd.classes:
                continue
            c, itf = cd.classes[i.CLASS_TO_ID], cd.classes[i.CLASS_FROM_ID]
            if not itf.PURE_VIRTUAL_INTERFACE or not itf.OPERATIONS or c.PURE_VIRTUAL_INTERFACE or c.AUTOGEN or c.IS_ENUM or c.IS_STRUCT:
                continue
            op = itf.OPERATIONS[0]
            if not op.PARAMETERS:
                op.PARAMETERS.append({"const": "", "type": "int", "name": "_value", "modifier": "", "defaultvalue": "", "multiplicity": "", "direction": "in"})
            if any(o.NAME == op.NAME and len(o.PARAMETERS) == len(op.PARAMETERS) for o in c.OPERATIONS):
                continue
            cp = copy.deepcopy(op)
            for n_, prm in enumerate(cp.PARAMETERS):
                prm["name"] = "_own%d" % n_
            c.OPERATIONS.append(cp)
            touched.append(c.NAME)
        return sorted(set(touched))
    if kind == "class-outside-packages":
        # every class that holds a member of a class type by value and is not used by another class moves out of its package
        used = {a.TYPE for c in cd.classes.values() for a in c.ATTRIBUTES} | {i.CLASS_FROM for i in cd.inheritence.values()} | \
               {x for a in cd.associations.values() for x in (a.CLASS_FROM, a.CLASS_TO)} | \
               {p["type"] for c in cd.classes.values() for o in c.OPERATIONS for p in o.PARAMETERS} | {o.RETURN_TYPE for c in cd.classes.values() for o in c.OPERATIONS}
        touched = []
        for c in cd.classes.values():
            fq = c.NAMESPACE + "::" + c.NAME
            needs = [a.TYPE for a in c.ATTRIBUTES if "::" in a.TYPE and "*" not in a.TYPE_MODIFIER and "&" not in a.TYPE_MODIFIER]
            if c.NAMESPACE and needs and fq not in used and not (c.IS_ENUM or c.AUTOGEN):
                c.NAMESPACE = ""
                touched.append(c.NAME)
        return touched
    if kind == "class-name-inside-namespace-name":
        # the package of the first class that another class holds by value is renamed so that its name CONTAINS the class name
        for c in cd.classes.values():
            users = [k for k in cd.classes.values() if k is not c and k.NAMESPACE != c.NAMESPACE and
                     any(a.TYPE == c.NAMESPACE + "::" + c.NAME and "*" not in a.TYPE_MODIFIER and "&" not in a.TYPE_MODIFIER for a in k.ATTRIBUTES)]
            if users and c.NAMESPACE and "::" not in c.NAMESPACE:
                rename_namespace(cd, c.NAMESPACE, "X" + c.NAME + "s")
                return [c.NAME] + [k.NAME for k in users]
        return []
    if kind == "virtual-word":
        # the first operation of every realised pure virtual interface is called virtualizeN (abstract, so that the keyword is written too)
        # and gets a parameter called _virtualAddress: the word 'virtual' in names must survive realisation
        touched, n = [], 0
        for i in list(cd.inheritence.values()):
            if not i.IS_REALIZATION or i.CLASS_TO_ID not in cd.classes or i.CLASS_FROM_ID not in cd.classes:
                continue
            c, itf = cd.classes[i.CLASS_TO_ID], cd.classes[i.CLASS_FROM_ID]
            if not itf.PURE_VIRTUAL_INTERFACE or not itf.OPERATIONS or c.PURE_VIRTUAL_INTERFACE or c.AUTOGEN or c.IS_ENUM or c.IS_STRUCT:
                continue
            op = itf.OPERATIONS[0]
            if not op.NAME.startswith("virtualize"):
                op.NAME = "virtualize%d" % n
                op.VIRTUAL = True
                op.IS_STATIC = False
                op.PARAMETERS.append({"const": "", "type": "int", "name": "_virtualAddress", "modifier": "", "defaultvalue": "", "multiplicity": "", "direction": "in"})
                n += 1
            touched.append(c.NAME)
        return sorted(set(touched))
    if kind == "nonconst-twin":
        # the realised interface's first operation is a const query; the realising class also declares a NON-const function of that name
        # and parameter list (another function in C++): both must be there, the const one as the override
        touched = []
        for i in list(cd.inheritence.values()):
            if not i.IS_REALIZATION or i.CLASS_TO_ID not in cd.classes or i.CLASS_FROM_ID not in cd.classes:
                continue
            c, itf = cd.classes[i.CLASS_TO_ID], cd.classes[i.CLASS_FROM_ID]
            if not itf.PURE_VIRTUAL_INTERFACE or not itf.OPERATIONS or c.PURE_VIRTUAL_INTERFACE or c.AUTOGEN or c.IS_ENUM or c.IS_STRUCT:
                continue
            op = itf.OPERATIONS[0]
            if op.IS_STATIC or any(o.NAME == op.NAME and len(o.PARAMETERS) == len(op.PARAMETERS) for o in c.OPERATIONS):
                continue
            op.IS_CONST = True
            cp = copy.deepcopy(op)
            cp.IS_CONST = False
            cp.VIRTUAL = False
            c.OPERATIONS.append(cp)
            touched.append(c.NAME)
        return sorted(set(touched))
    if kind == "rename-to-interface-name":
        # a class that realises an interface of ANOTHER package takes the interface's name (same name, different namespaces)
        touched = []
        for i in list(cd.inheritence.values()):
            if not i.IS_REALIZATION or i.CLASS_TO_ID not in cd.classes or i.CLASS_FROM_ID not in cd.classes:
                continue
            c, itf = cd.classes[i.CLASS_TO_ID], cd.classes[i.CLASS_FROM_ID]
            if c.NAMESPACE == itf.NAMESPACE or c.NAME == itf.NAME or not itf.PURE_VIRTUAL_INTERFACE or c.PURE_VIRTUAL_INTERFACE:
                continue
            if any(x.NAME == itf.NAME and x.NAMESPACE == c.NAMESPACE for x in cd.classes.values()):
                continue
            old = c.NAME
            c.NAME = itf.NAME
            for o in c.OPERATIONS:
                if o.NAME.strip() == old.strip():
                    o.NAME = itf.NAME
            retarget_types(cd, c.NAMESPACE + "::" + old, c.NAMESPACE + "::" + itf.NAME)
            touched.append(itf.NAME)
            break
        return touched
    if kind == "same-name-types":
        # two types of one name in different packages, both used by some class (here: a class takes the name of an enumeration of
        # another package); anything that orders types by their bare name has a tie
        enums = [c for c in cd.classes.values() if c.IS_ENUM]
        plain = [cid for cid, c in cd.classes.items() if not (c.IS_ENUM or c.IS_STRUCT or c.PURE_VIRTUAL_INTERFACE or c.AUTOGEN)]
        users = {a.CLASS_TO_ID for a in cd.associations.values()} | {a.CLASS_FROM_ID for a in cd.associations.values()}
        # the shipped diagram's own pair first: CComposedClass and the enumeration EColor are both used by one class
        plain.sort(key=lambda x: 0 if cd.classes[x].NAME == "CComposedClass" else 1)
        enums.sort(key=lambda x: 0 if x.NAME == "EColor" else 1)
        for cid in plain:
            c = cd.classes[cid]
            for e in enums:
                if cid in users and e.NAMESPACE != c.NAMESPACE and not any(x.NAME == e.NAME and x.NAMESPACE == c.NAMESPACE for x in cd.classes.values()):
                    old = c.NAME
                    c.NAME = e.NAME
                    for o in c.OPERATIONS:
                        if o.NAME.strip() == old.strip():
                            o.NAME = e.NAME
                    retarget_types(cd, c.NAMESPACE + "::" + old, c.NAMESPACE + "::" + e.NAME)
                    return [e.NAME]
        return []
    if kind == "long-member-names":
        touched = []
        for c in cd.classes.values():
            if not c.IS_STRUCT:      # elsewhere the diagram's own texts (drawn constructors, defaults) name the members
                continue
            for i, a in enumerate(c.ATTRIBUTES):
                a.NAME = "m_%s%dUpperLimitLowerLimitExtendedCounterBufferUpperLimitLowerLimit" % (clean_name(c.NAME), i)
                touched.append(c.NAME)
        return sorted(set(touched))
    raise ValueError(probe)


# ---------------------------------------------------------------- operation-body tags the diagram stands for

def clean_name(s):
    """independent reading of vppclassdiagram.CleanName"""
    for seq in ("\\n", "\\r", "\\t"):
        s = s.replace(seq, "_")
    return re.sub(r'[=<>;\n\r\t"()*+\-^%~!|:]', "_", s).replace(" ", "")


def expected_param_tags(km, cd):
    """{class NAME: [tag, ...]} : the ..._PARAMS tags of every concrete class's source file according to the DOCUMENTED scheme
    USER_<CONSTRUCTOR | cleaned return type>_<class>_<operation>_<n>_PARAMS (+ USER_CONSTRUCTOR_<class>_<k>_PARAMS for the
    generated const-initialising constructor), over the operations Model/Uml.v says are emitted (own + realised).
    None when the model does not return (cyclic / dangling diagram)."""
    lang = LanguageCPP.LanguageCPP()
    D = abstract(cd, lang)
    classes = list(cd.classes.values())
    res = {}
    for (cid, c), dc in zip(cd.classes.items(), D[0]):
        if c.IS_ENUM or c.IS_STRUCT or c.AUTOGEN:
            continue
        m = km.call("uml_defs", str(len(classes)), D, cid)
        if not m:
            return None
        tags = []
        for e in m[0]:
            cls, ret, name, params, _const = e[2]
            owner = e[3].decode("utf-8")
            op = None
            for oc, odc in zip(classes, D[0]):
                if oc.NAME != owner:
                    continue
                for o, od in zip(oc.OPERATIONS, odc[7]):
                    if od[0].encode() == name and [[x[0].encode(), x[1].encode()] for x in od[3]] == params \
                            and (o.NAME.strip() == oc.NAME.strip() or od[2].encode() == ret):
                        op = o
                        break
                if op is not None:
                    break
            if op is None:
                return None
            ctor = op.NAME.strip() == owner.strip()
            tags.append("USER_%s_%s_%s_%d_PARAMS" % ("CONSTRUCTOR" if ctor else clean_name(op.RETURN_TYPE), cls.decode("utf-8"), op.NAME, len(op.PARAMETERS)))
        k = const_member_count(c)
        if k and not c.PURE_VIRTUAL_INTERFACE:
            tags.append("USER_CONSTRUCTOR_%s_%d_PARAMS" % (c.NAME, k))
        res.setdefault(c.NAME, []).extend(tags)
    return res


def add_cycle(cd):
    """make two pure virtual interfaces inherit each other (reached from a realising class)"""
    pure = [cid for cid, c in cd.classes.items() if c.PURE_VIRTUAL_INTERFACE]
    for i in list(cd.inheritence.values()):
        if i.CLASS_FROM_ID in pure and i.IS_REALIZATION:
            back = copy.copy(i)
            back.CLASS_TO_ID, back.CLASS_FROM_ID = i.CLASS_FROM_ID, i.CLASS_FROM_ID
            back.IS_REALIZATION = True
            cd.inheritence["cycle"] = back
            return True
    return False


# ---------------------------------------------------------------- the real generator

def generate(cd, outdir, lang_name="cpp", nsf=True, dclspc=""):
    lang = LanguageCPP.LanguageCPP() if lang_name == "cpp" else LanguageCsharp.LanguageCsharp()
    gen = umlgen.CUMLGenerator(outdir, lang, "a", "g", "b", nsf, "", cd.name)
    gen.vpp_filename = "blob.xml"
    with kj.quiet():
        return umlgen.GenerateUML(gen, cd, dclspc)


# ---------------------------------------------------------------- reading generated C++ (line tokenizer)

def strip_comments(text):
    text = re.sub(r"/\*.*?\*/", "", text, flags=re.S)
    return "\n".join(l.split("//")[0] for l in text.split("\n"))


def split_top(s, sep=","):
    out, depth, cur = [], 0, ""
    for ch in s:
        if ch in "<({[":
            depth += 1
        elif ch in ">)}]":
            depth -= 1
        if ch == sep and depth == 0:
            out.append(cur)
            cur = ""
        else:
            cur += ch
    if cur.strip() or out:
        out.append(cur)
    return out


def norm_params(ps):
    res = []
    for p in split_top(ps):
        p = split_top(p, "=")[0]
        res.append(" ".join(p.split()))
    return tuple(x for x in res if x)


HEAD = re.compile(r"^(?P<pre>.*?)(?P<name>~?\w+)\s*\((?P<params>.*)\)\s*(?P<post>[^()]*)$")


def declarations(header_text):
    """member function declarations of the (single) class body: (name, params without defaults, const?, flags)"""
    res = []
    body = strip_comments(header_text)
    m = re.search(r"\bclass\b[^;{]*\{", body)
    if not m:
        return res
    for line in body[m.end():].split("\n"):
        line = line.strip()
        if not line.endswith(";") or "(" not in line:
            continue
        h = HEAD.match(line[:-1])
        if not h:
            continue
        post = h.group("post").split()
        res.append({"name": h.group("name"), "params": norm_params(h.group("params")), "const": "const" in post,
                    "override": "override" in post, "pure": "0" in post, "static": "static" in h.group("pre").split(),
                    "ret": " ".join(w for w in h.group("pre").split() if w not in ("virtual", "static")), "line": line})
    return res


DEF = re.compile(r"^\s*(?P<ret>.*?)\b(?P<cls>\w+)::(?P<name>~?\w+)\s*\((?P<params>.*)\)\s*(?P<const>const)?\s*\{?\s*$")


def definitions(source_text):
    res = []
    for line in strip_comments(source_text).split("\n"):
        if "::" not in line or "(" not in line or line.strip().endswith(";"):
            continue
        m = DEF.match(line)
        if m and "=" not in m.group("ret"):
            res.append({"cls": m.group("cls"), "name": m.group("name"), "params": norm_params(m.group("params")),
                        "const": bool(m.group("const")), "ret": " ".join(m.group("ret").split()), "line": line.strip()})
    return res


# ---------------------------------------------------------------- reading generated C# (there is no C# compiler here: a tokenizer)

CS_MEMBER = re.compile(r"^(?P<vis>public|protected|private|internal)\s+(?P<mods>(?:(?:static|virtual|override|abstract|sealed|new)\s+)*)"
                       r"(?P<ret>.*?)(?P<name>~?\w+)\s*\((?P<params>.*)\)\s*(?P<semi>;?)\s*$")
CS_TYPE = re.compile(r"^public\s+(?P<kw>class|interface|enum|struct)\s+(?P<rest>.*)$")


def cs_scan(text):
    """structure of one generated .cs file: {'balanced', 'namespaces' (opened, outermost first), 'closer_ok', 'types' [(keyword, name)],
    'members' [dict(name, params, vis, mods, ret, body, line)] of the first type, 'depth_errors'}; comments and string literals dropped"""
    body = strip_comments(text)
    body = re.sub(r'"(?:[^"\\\n]|\\.)*"', '""', body)
    res = {"balanced": True, "namespaces": [], "types": [], "members": [], "depth_min": 0}
    depth = 0
    type_depth = None
    pending = None                      # a member head waiting for its '{' on the next line
    for raw in body.split("\n"):
        line = raw.strip()
        opened_here = 0
        if line:
            if type_depth is None:
                for m in re.finditer(r"\bnamespace\s+([\w.]*)\s*\{", line):
                    res["namespaces"].append(m.group(1))
                t = CS_TYPE.match(line)
                if t:
                    res["types"].append((t.group("kw"), re.split(r"[\s:{]", t.group("rest").strip())[0] if t.group("rest").strip() else ""))
                    if len(res["types"]) == 1:
                        type_depth = depth          # its '{' follows on the next line
            elif depth == type_depth + 1 and "(" in line and not line.startswith("{") and not line.startswith("}"):
                m = CS_MEMBER.match(line)
                if m and "=" not in m.group("ret") and m.group("name") not in ("if", "while", "for", "return", "switch"):
                    pending = {"name": m.group("name"), "params": norm_params(m.group("params")), "vis": m.group("vis"), "mods": m.group("mods").split(),
                               "ret": " ".join(m.group("ret").split()), "body": False, "semi": bool(m.group("semi")), "line": line}
                    res["members"].append(pending)
            elif pending is not None and depth == type_depth + 1 and line.startswith("{"):
                pending["body"] = True
                pending = None
        for ch in line:
            if ch == "{":
                depth += 1
            elif ch == "}":
                depth -= 1
                res["depth_min"] = min(res["depth_min"], depth)
        if type_depth is not None and depth <= type_depth and line.startswith("}"):
            type_depth = -10 ** 6       # the first type is closed: nothing after it is a member
    res["balanced"] = depth == 0 and res["depth_min"] == 0
    closers = [l for l in text.split("\n") if "// end namespace" in l]
    res["closers"] = [(l.split("//")[0].count("}"), l.split("// end namespace", 1)[1].strip()) for l in closers]
    return res


CAUSES = [("constructors cannot be declared", "interface-constructor-declared-virtual"),
          ("initializer specified for static member function", "static-operation-of-interface-declared-pure"),
          ("default argument missing", "default-argument-before-non-default"),
          ("\u2018vector\u2019 in namespace \u2018std\u2019 does not name", "missing-include-vector"),
          ("'vector' in namespace 'std' does not name", "missing-include-vector"),
          ("\u2018vector\u2019 is not a member of \u2018std\u2019", "missing-include-vector"),
          ("'vector' is not a member of 'std'", "missing-include-vector"),
          ("uninitialized const member", "drawn-constructor-cannot-initialise-const-member"),
          ("uninitialized reference member", "drawn-constructor-cannot-initialise-const-member"),
          ("cannot be overloaded", "operation-emitted-twice"),
          ("redefinition of", "operation-emitted-twice"),
          ("no declaration matches", "definition-without-declaration"),
          ("marked 'override', but does not override", "override-of-nothing"),
          ("marked \u2018override\u2019, but does not override", "override-of-nothing")]


def syntax_check(root, rel, macro=""):
    """g++ -std=c++17 -fsyntax-only on one generated file (headers through a one-line translation unit).
    Returns (ok, message, culprit file basename, cause label)"""
    path = os.path.join(root, rel)
    cmd = ["g++", "-std=c++17", "-fsyntax-only", "-I", root] + (["-D%s=" % macro] if macro else [])
    cmd += [path] if rel.endswith(".cpp") else ["-x", "c++", "-include", path, "/dev/null"]
    p = subprocess.run(cmd, stdout=subprocess.PIPE, stderr=subprocess.STDOUT, timeout=120)
    msg = p.stdout.decode("utf-8", "replace")
    if p.returncode == 0:
        return True, "", "", ""
    m = re.search(r"^([^\s:]+):\d+:\d+: error: (.*)$", msg, re.M)
    culprit = os.path.basename(m.group(1)) if m else os.path.basename(rel)
    first = m.group(2) if m else msg[:200]
    cause = next((lab for pat, lab in CAUSES if pat in first), "other")
    return False, msg[:1500], culprit, cause
