"""C19 support: kojen's own class-diagram objects (unmodelled input adaptor), their mutation as a Python object graph, the
abstraction to Model/Uml.v's cdiagram, the real UML generator, and a line tokenizer for the generated .h/.cpp."""
import copy
import os
import re
import subprocess

from . import kj

from kojen import umlgen, vppclassdiagram, LanguageCPP, LanguageCsharp  # noqa: E402

BLOB_XML = os.path.join(kj.REPO, "kojen", "test", "blob.xml")
DIAGRAMS = ("TestClassDiagram", "ProtocolStack")
_CACHE = {}


def load(name):
    """a fresh deep copy of the class diagram kojen's blob parser reads from the shipped project"""
    if name not in _CACHE:
        with kj.quiet():
            cd = vppclassdiagram.ExtractClassDiagram(name, BLOB_XML)
        cd.table_vppmodelelements.vpp.con = None          # the sqlite connection cannot be copied
        for coll in (cd.classes, cd.inheritence, cd.associations, cd.packages):
            for x in coll.values():
                t = getattr(x, "table_vppmodelelements", None)
                if t is not None and getattr(t, "vpp", None) is not None:
                    t.vpp.con = None
        _CACHE[name] = cd
    return copy.deepcopy(_CACHE[name])


# ---------------------------------------------------------------- abstraction for the model

def bb(x):
    return b"1" if x else b"0"


def abstract(cd, lang):
    classes = []
    for cid, c in cd.classes.items():
        ops = []
        for op in c.OPERATIONS:
            ps = []
            for p in op.PARAMETERS:
                t = lang.GetTypeAndNameFromMultiplicityAndModifier(c, p["type"].strip(), p["modifier"].strip(), p["multiplicity"].strip(), p["name"].strip())
                t0 = (p["const"].strip() + " " + t[0]).lstrip()
                dflt = "" if not p["defaultvalue"].strip() else lang.GetDefaultFormatFromMultiplicityAndModifier(
                    c, p["modifier"].strip(), p["multiplicity"].strip(), p["defaultvalue"])
                ext = lang.GetTypeAndNameFromMultiplicityAndModifier(c, p["type"].strip(), p["modifier"].strip(), p["multiplicity"].strip(), "")[1]
                ps.append([t0, t[1], dflt, ext])
            ret = lang.GetTypeAndNameFromMultiplicityAndModifier(c, op.RETURN_TYPE, op.RETURN_TYPE_MODIFIER, "", "")[0]
            ops.append([op.NAME, op.VISIBILITY, ret, ps, bb(op.VIRTUAL), bb(op.IS_STATIC), bb(op.IS_CONST)])
        classes.append([cid, c.NAME, c.NAMESPACE, bb(c.IS_ENUM), bb(c.IS_STRUCT), bb(c.AUTOGEN), bb(c.PURE_VIRTUAL_INTERFACE), ops])
    inhs = [[i.CLASS_TO_ID, i.CLASS_FROM_ID, bb(i.IS_REALIZATION)] for i in cd.inheritence.values()]
    return [classes, inhs]


# ---------------------------------------------------------------- mutation of the object graph

def retarget_types(cd, old, new):
    """replace the fully qualified prefix `old` by `new` in every type string of the diagram (types are references in VP)"""
    def fix(t):
        if not isinstance(t, str):
            return t
        if t == old:
            return new
        return re.sub(r"(?<![\w:])" + re.escape(old) + r"(?=::|$|[^\w])", new, t)
    for c in cd.classes.values():
        for a in c.ATTRIBUTES:
            a.TYPE = fix(a.TYPE)
        for o in c.OPERATIONS:
            o.RETURN_TYPE = fix(o.RETURN_TYPE)
            for p in o.PARAMETERS:
                p["type"] = fix(p["type"])
    for a in cd.associations.values():
        a.CLASS_FROM, a.CLASS_TO = fix(a.CLASS_FROM), fix(a.CLASS_TO)
    for i in cd.inheritence.values():
        i.PostProjectParseFix(cd)


def rename_namespace(cd, old, new):
    for c in cd.classes.values():
        if c.NAMESPACE == old or c.NAMESPACE.startswith(old + "::"):
            c.NAMESPACE = new + c.NAMESPACE[len(old):]
    retarget_types(cd, old, new)


def remove_class(cd, cid):
    cd.classes.pop(cid, None)
    for k in [k for k, i in cd.inheritence.items() if i.CLASS_TO_ID == cid or i.CLASS_FROM_ID == cid]:
        del cd.inheritence[k]
    for k in [k for k, a in cd.associations.items() if a.CLASS_TO_ID == cid or a.CLASS_FROM_ID == cid]:
        del cd.associations[k]


def mutate(rng, cd, n):
    """n random edits; returns the list of edit labels"""
    log = []
    for _ in range(n):
        cids = list(cd.classes)
        if not cids:
            break
        cid = rng.choice(cids)
        c = cd.classes[cid]
        k = rng.choice(["rename-class", "remove-class", "retype-class", "rename-package", "rename-op", "remove-op", "retype-op",
                        "param", "attribute", "relationship", "visibility", "copy-op", "second-path"])
        if k == "rename-class":
            new = rng.choice(["C" + kj.ident(rng, "X"), "C" + kj.ident(rng, "X"), rng.choice(list(cd.classes.values())).NAME])
            old = c.NAME
            c.NAME = new
            for o in c.OPERATIONS:
                if o.NAME.strip() == old.strip():
                    o.NAME = new
            retarget_types(cd, c.NAMESPACE + "::" + old, c.NAMESPACE + "::" + new)
        elif k == "remove-class":
            remove_class(cd, cid)
        elif k == "retype-class":
            f = rng.choice(["class", "interface", "enum", "struct", "autogen-class"])
            c.PURE_VIRTUAL_INTERFACE, c.IS_ENUM, c.IS_STRUCT, c.AUTOGEN = (f == "interface"), (f == "enum"), (f == "struct"), (f == "autogen-class")
            k += ":" + f
        elif k == "rename-package":
            nss = sorted({x.NAMESPACE for x in cd.classes.values() if x.NAMESPACE})
            if nss:
                old = rng.choice(nss)
                rename_namespace(cd, old, rng.choice(["XNew", "XOuter::XInner", old + "Two", "A::B::C"]))
        elif k == "rename-op" and c.OPERATIONS:
            rng.choice(c.OPERATIONS).NAME = rng.choice(["Run", "Stop", "Process" + str(rng.randint(0, 9))])
        elif k == "remove-op" and c.OPERATIONS:
            c.OPERATIONS.remove(rng.choice(c.OPERATIONS))
        elif k == "retype-op" and c.OPERATIONS:
            o = rng.choice(c.OPERATIONS)
            f = rng.choice(["ret", "VIRTUAL", "IS_STATIC", "IS_CONST"])
            if f == "ret":
                o.RETURN_TYPE, o.RETURN_TYPE_MODIFIER = rng.choice([("int", ""), ("void", ""), ("bool", ""), ("double", "*"), ("uint8_t", "[]")])
            else:
                setattr(o, f, not getattr(o, f))
            k += ":" + f
        elif k == "param" and c.OPERATIONS:
            o = rng.choice(c.OPERATIONS)
            a = rng.choice(["add", "remove", "retype", "rename", "default"])
            if a == "add" or not o.PARAMETERS:
                o.PARAMETERS.append({"const": rng.choice(["", "const"]), "type": rng.choice(["int", "bool", "double"]),
                                     "name": "_p%d" % len(o.PARAMETERS), "modifier": rng.choice(["", "*"]),
                                     "defaultvalue": rng.choice(["", "", "0"]), "multiplicity": rng.choice(["", "", "4", "0..*"]),
                                     "direction": rng.choice(["in", "inout", "out"])})
            elif a == "remove":
                o.PARAMETERS.remove(rng.choice(o.PARAMETERS))
            elif a == "retype":
                rng.choice(o.PARAMETERS)["type"] = rng.choice(["int", "float", "char"])
            elif a == "rename":
                rng.choice(o.PARAMETERS)["name"] = "_q%d" % rng.randint(0, 9)
            else:
                rng.choice(o.PARAMETERS)["defaultvalue"] = rng.choice(["", "1"])
            k += ":" + a
        elif k == "attribute" and c.ATTRIBUTES:
            a = rng.choice(c.ATTRIBUTES)
            act = rng.choice(["remove", "rename", "retype"])
            if act == "remove":
                c.ATTRIBUTES.remove(a)
            elif act == "rename":
                a.NAME = "m_r%d" % rng.randint(0, 99)
            else:
                a.TYPE = rng.choice(["int", "bool", "double"])
        elif k == "relationship" and cd.inheritence:
            key = rng.choice(list(cd.inheritence))
            if rng.random() < 0.5:
                del cd.inheritence[key]
                k += ":remove"
            else:
                cd.inheritence[key].IS_REALIZATION = not cd.inheritence[key].IS_REALIZATION
                k += ":flip-realisation"
        elif k == "visibility" and c.OPERATIONS:
            rng.choice(c.OPERATIONS).VISIBILITY = rng.choice(["public", "protected", "private", "package"])
        elif k == "second-path":
            # the class additionally realises a parent of an interface it already realises (two paths to the same operations)
            for i in list(cd.inheritence.values()):
                if i.CLASS_TO_ID == cid and i.CLASS_FROM_ID in cd.classes:
                    ups = [j for j in cd.inheritence.values() if j.CLASS_TO_ID == i.CLASS_FROM_ID and j.CLASS_FROM_ID in cd.classes
                           and cd.classes[j.CLASS_FROM_ID].PURE_VIRTUAL_INTERFACE]
                    if ups:
                        extra = copy.copy(i)
                        extra.CLASS_FROM_ID, extra.IS_REALIZATION = ups[0].CLASS_FROM_ID, True
                        extra.PostProjectParseFix(cd)
                        cd.inheritence["second-path-%d" % len(cd.inheritence)] = extra
                        break
        elif k == "copy-op":
            # declare in a class an operation of an interface it realises (what the shipped ProtocolStack diagram does)
            for i in cd.inheritence.values():
                if i.CLASS_TO_ID == cid and i.CLASS_FROM_ID in cd.classes and cd.classes[i.CLASS_FROM_ID].OPERATIONS:
                    c.OPERATIONS.append(copy.deepcopy(rng.choice(cd.classes[i.CLASS_FROM_ID].OPERATIONS)))
                    break
        log.append(k)
    return log


def add_cycle(cd):
    """make two pure virtual interfaces inherit each other (reached from a realising class)"""
    pure = [cid for cid, c in cd.classes.items() if c.PURE_VIRTUAL_INTERFACE]
    for i in list(cd.inheritence.values()):
        if i.CLASS_FROM_ID in pure and i.IS_REALIZATION:
            back = copy.copy(i)
            back.CLASS_TO_ID, back.CLASS_FROM_ID = i.CLASS_FROM_ID, i.CLASS_FROM_ID
            back.IS_REALIZATION = True
            cd.inheritence["cycle"] = back
            return True
    return False


# ---------------------------------------------------------------- the real generator

def generate(cd, outdir, lang_name="cpp", nsf=True, dclspc=""):
    lang = LanguageCPP.LanguageCPP() if lang_name == "cpp" else LanguageCsharp.LanguageCsharp()
    gen = umlgen.CUMLGenerator(outdir, lang, "a", "g", "b", nsf, "", cd.name)
    gen.vpp_filename = "blob.xml"
    with kj.quiet():
        return umlgen.GenerateUML(gen, cd, dclspc)


# ---------------------------------------------------------------- reading generated C++ (line tokenizer)

def strip_comments(text):
    text = re.sub(r"/\*.*?\*/", "", text, flags=re.S)
    return "\n".join(l.split("//")[0] for l in text.split("\n"))


def split_top(s, sep=","):
    out, depth, cur = [], 0, ""
    for ch in s:
        if ch in "<({[":
            depth += 1
        elif ch in ">)}]":
            depth -= 1
        if ch == sep and depth == 0:
            out.append(cur)
            cur = ""
        else:
            cur += ch
    if cur.strip() or out:
        out.append(cur)
    return out


def norm_params(ps):
    res = []
    for p in split_top(ps):
        p = split_top(p, "=")[0]
        res.append(" ".join(p.split()))
    return tuple(x for x in res if x)


HEAD = re.compile(r"^(?P<pre>.*?)(?P<name>~?\w+)\s*\((?P<params>.*)\)\s*(?P<post>[^()]*)$")


def declarations(header_text):
    """member function declarations of the (single) class body: (name, params without defaults, const?, flags)"""
    res = []
    body = strip_comments(header_text)
    m = re.search(r"\bclass\b[^;{]*\{", body)
    if not m:
        return res
    for line in body[m.end():].split("\n"):
        line = line.strip()
        if not line.endswith(";") or "(" not in line:
            continue
        h = HEAD.match(line[:-1])
        if not h:
            continue
        post = h.group("post").split()
        res.append({"name": h.group("name"), "params": norm_params(h.group("params")), "const": "const" in post,
                    "override": "override" in post, "pure": "0" in post, "static": "static" in h.group("pre").split(),
                    "ret": " ".join(w for w in h.group("pre").split() if w not in ("virtual", "static")), "line": line})
    return res


DEF = re.compile(r"^\s*(?P<ret>.*?)\b(?P<cls>\w+)::(?P<name>~?\w+)\s*\((?P<params>.*)\)\s*(?P<const>const)?\s*\{?\s*$")


def definitions(source_text):
    res = []
    for line in strip_comments(source_text).split("\n"):
        if "::" not in line or "(" not in line or line.strip().endswith(";"):
            continue
        m = DEF.match(line)
        if m and "=" not in m.group("ret"):
            res.append({"cls": m.group("cls"), "name": m.group("name"), "params": norm_params(m.group("params")),
                        "const": bool(m.group("const")), "ret": " ".join(m.group("ret").split()), "line": line.strip()})
    return res


CAUSES = [("constructors cannot be declared", "interface-constructor-declared-virtual"),
          ("initializer specified for static member function", "static-operation-of-interface-declared-pure"),
          ("default argument missing", "default-argument-before-non-default"),
          ("cannot be overloaded", "operation-emitted-twice"),
          ("redefinition of", "operation-emitted-twice"),
          ("no declaration matches", "definition-without-declaration"),
          ("marked 'override', but does not override", "override-of-nothing"),
          ("marked \u2018override\u2019, but does not override", "override-of-nothing")]


def syntax_check(root, rel, macro=""):
    """g++ -std=c++17 -fsyntax-only on one generated file (headers through a one-line translation unit).
    Returns (ok, message, culprit file basename, cause label)"""
    path = os.path.join(root, rel)
    cmd = ["g++", "-std=c++17", "-fsyntax-only", "-I", root] + (["-D%s=" % macro] if macro else [])
    cmd += [path] if rel.endswith(".cpp") else ["-x", "c++", "-include", path, "/dev/null"]
    p = subprocess.run(cmd, stdout=subprocess.PIPE, stderr=subprocess.STDOUT, timeout=120)
    msg = p.stdout.decode("utf-8", "replace")
    if p.returncode == 0:
        return True, "", "", ""
    m = re.search(r"^([^\s:]+):\d+:\d+: error: (.*)$", msg, re.M)
    culprit = os.path.basename(m.group(1)) if m else os.path.basename(rel)
    first = m.group(2) if m else msg[:200]
    cause = next((lab for pat, lab in CAUSES if pat in first), "other")
    return False, msg[:1500], culprit, cause
