"""C04 -- User code stays confined to its own file and tag: no leakage, no duplication."""
import glob
import json
import os
import random

from .. import kj, presv, synth
from ..check import VERIF, unjson
from ..kj import read_tree, scratch, splice, tabnorm, write_tree
from . import c01

from ..manifest_data import PRES_NOTE  # noqa: E402

LEVEL = "proof"

MANIFEST = {
    "technique": 'Coq proof (frame lemma over the per-file fold) + differential correspondence on adversarial file names',
    "text": "Theorem C04_confined: what is written for a file depends on that file's fresh lines and old content only, for all file names (C04_other_files_irrelevant: edits to other files of the directory never change it); C04_exactly_once for whole directories.",
    "note": PRES_NOTE,
}
RULE = ("(a) synthetic code models over an adversarial pool of file names (X.py/TestX.py, Foo.h/IFoo.h/oo.h/h, a/Foo.h, b/Foo.h, "
        "a/b/Foo.h ...) sharing tag names, pre-existing directory content incl. unrelated files, run through the real "
        "preserve_usercode_in_files+createoutput, compared with the Coq model and with the per-file oracle; (b) two state machines whose "
        "names are suffixes of one another generated into ONE directory by the real generators, every tag pair filled with marker lines, "
        "1..3 regenerations, every marker counted; non-trivial = at least one old block present")
ASSUMPTIONS = c01.ASSUMPTIONS + ["names_ok: generated file names are distinct and none is itself '<other generated file>.LostCode.txt'"]
TRUSTED = c01.TRUSTED


def two_machines(ctx, kind, seed, nregen):
    """Generate state machines named N and <P>N into one directory; fill every pair with unique markers; regenerate."""
    rng = random.Random(seed)
    base = rng.choice(["A", "X", "Foo"])
    other = rng.choice(["B", "I", "My"]) + base
    inputs = []
    for nm in (base, other):
        _kw, inp = presv.random_input(rng, kind)
        inp["lang"] = kind
        inp["name"] = nm
        inputs.append(inp)
    with scratch() as d:
        out = os.path.join(d, "out")
        for inp in inputs:
            presv.run_kind(kind, out, inp)
        t0 = read_tree(out)
        user = presv.user_blocks(rng, t0, density=1.0)
        t1 = splice(t0, user)
        write_tree(out, t1)
        expected = {k: tabnorm(v) for k, v in t1.items()}
        markers = [l.split(b" ")[-1].strip() for b in user.values() for l in b]
        for r in range(nregen):
            for inp in (inputs if r % 2 == 0 else inputs[::-1]):
                presv.run_kind(kind, out, inp)
            now = read_tree(out)
            bad = sorted(k for k in set(expected) | set(now) if expected.get(k) != now.get(k))
            allb = b"".join(now.values())
            wrong = [m.decode() for m in markers if allb.count(m + b"\n") != 1]
            if bad or wrong:
                return {"kind": kind, "seed": seed, "nregen": nregen, "files": bad[:6], "markers_not_exactly_once": wrong[:6],
                        "names": [base, other], "two_machines": True, "finding_key": "two:%s" % kind}
    return None


def run(ctx):
    for p in sorted(glob.glob(os.path.join(VERIF, "corpus", "C04", "*.json"))):
        data = unjson(json.load(open(p)))
        ok = replay(ctx, data)
        ctx.case(("corpus", p))
        if not ok:
            ctx.violation("corpus case %s fails" % os.path.basename(p), data)
    n = ctx.budget(250, 6000)
    for i in range(n):
        sp = ctx.rng.choice(["abs", "abs", "rel", "trail", "dot"])
        st = ctx.rng.getstate()
        fail, nt = synth.run_case(ctx, ctx.rng, sp)
        ctx.case(("synth", i, repr(st)[:0], ctx.rng.random()), nontrivial=nt)
        ctx.count("synthetic_" + sp)
        if fail and not fail.get("crash"):
            ctx.violation(fail["what"], fail)
        elif fail:
            ctx.tie_broken("real preservation crashed on a synthetic code model", fail)
    m = ctx.budget(4, 60)
    for kind in ("py", "cs", "cpp"):
        for i in range(m):
            seed = ctx.rng.randint(0, 1 << 30)
            nregen = ctx.rng.choice([1, 2, 3])
            res = two_machines(ctx, kind, seed, nregen)
            ctx.case(("two", kind, seed))
            ctx.count("two_machines_" + kind)
            if i == 0:
                ctx.sample({"two_machines": kind, "seed": seed, "nregen": nregen})
            if res:
                ctx.violation("user block leaked / duplicated / lost between files of one directory", res)


def replay(ctx, data):
    if data.get("no_failing_input_found"):
        print(json.dumps(data.get("no_longer_checks"), indent=1)[:3000])
        return False
    if data.get("synthetic"):
        fail, _ = synth.execute(ctx, data["fresh"], data["olds"], data.get("spelling", "abs"))
        return fail is None
    if data.get("two_machines"):
        return two_machines(ctx, data["kind"], data["seed"], data["nregen"]) is None
    return c01.replay(ctx, data)
