"""C15 -- C++ dispatcher/queue: at-most-once FIFO hand-off, clean shutdown, no data races."""
import glob
import json
import os
import re
import subprocess

from .. import kj
from ..check import VERIF, unjson

LEVEL = "proof"

MANIFEST = {
    "technique": "Coq: lockset discipline over the source-derived access table (vm_compute) + invariants and explicit ranking functions "
                 "of an LTS of the dispatcher over all interleavings; ThreadSanitizer stress probe and controlled-schedule replay of the real headers",
    "text": "C15_lockset: every pair of conflicting accesses in the table regenerated from threadsafe_queue.h / threaded_dispatcher.h "
            "(member, read/write, mutexes held, life-cycle phase) has a common mutex, or the member is std::atomic, or the accesses are "
            "ordered by thread creation/join. C15_at_most_once, C15_no_overlap (one worker), C15_per_producer_order, "
            "C15_eventually_handled, C15_shutdown_terminates (any number of workers and producers, any scripts, destruction at any "
            "moment) over every reachable state of the LTS Model/CxxQueue.v whose atomic steps are the critical sections of Gen/CxxSync.v "
            "(C15_skeleton_as_modelled breaks when a header's critical section changes). The real headers are compiled into a stress "
            "probe (plain and -fsanitize=thread, g++ and clang++), whose handler log is judged by an independent oracle, and into a "
            "schedule-replay probe (std::mutex/condition_variable/thread replaced by a controlled-scheduler shim) that must agree "
            "step by step with the extracted LTS. Object lifetime (Model/CxxLifetime.v: an owner destroys a DERIVED dispatcher in C++ "
            "order -- derived destructor body, derived members, ~threaded_dispatcher -> shutdown() -> joins; derived part alive / dying / "
            "dead; the worker's virtual call handle_dispatch): C15_lifetime_safe_with_shutdown (a derived destructor that calls "
            "shutdown() first: no virtual call and no running handler ever meets a derived part that is not alive, any schedule / workers / "
            "queue content), C15_lifetime_refuted_without_shutdown (schedule witness = K-C15-2), tied to the source by "
            "C15_shutdown_protocol_shape (shutdown() protected, joins guarded by joinable(), base destructor calls it, handler pure "
            "virtual). Notifications (Model/CxxNotify.v, explicit signals, no spurious wake-ups): C15_notify_per_push (source: one "
            "unconditional notification after every push), C15_notify_per_push_no_missed_wakeup (any consumers/pushes/schedule), "
            "C15_notify_on_transition_only_refuted (two consumers). A model-free explorer runs the real headers over a raw scheduler shim "
            "(lost and spurious wake-ups, rendezvous jobs, the derived probe class destroyed with and without shutdown()).",
    "note": "Model of the headers after two `fix:` commits (m_shutting_down is std::atomic<bool>; protected shutdown() for derived "
            "classes). Outside the model (stated, not verified): the C++ memory model itself (only its lockset/atomic discipline), "
            "what the derived class's members and handler do with each other (the lifetime LTS knows only alive/dying/dead and the "
            "virtual call; K-C15-2 -- a derived class that does not call shutdown() first -- stays a known finding, now with a model "
            "witness), destruction of the object by a worker's own handler, dispatching during destruction, destroying a stand-alone "
            "queue with waiting consumers, spurious wake-ups in the Coq models (the raw shim explores them on the real code). "
            "Fairness is the only liveness assumption. TSan and random/enumerated schedules are search, not proof.",
}
RULE = ("stress probe runs: workers 1..3 x producers 1..4 x items x {destroy after all handled, destroy while busy} x handler delay, "
        "under g++/clang++ with and without -fsanitize=thread; schedule replay: random and preemption-bounded schedules of the LTS "
        "executed by the shim-built real headers; non-trivial = at least 2 threads pushed/handled concurrently or destruction with a "
        "non-empty queue; distinct = (compiler, sanitizer, arguments) resp. (scripts, schedule)")
ASSUMPTIONS = ["no dispatch() during or after destruction; the dispatcher outlives its producers' use (object lifetime contract)",
               "a derived class calls shutdown() first thing in its destructor",
               "handlers terminate and do not destroy the dispatcher", "finite producer scripts; scheduler fairness for liveness",
               "the queue is used as the dispatcher's sub-object (constructed before the workers, destroyed after the joins)"]
TRUSTED = ["Coq 8.16.1 kernel", "axioms: none", "translator/cxxsync.py (strict line patterns, fail closed)",
           "extraction ExtrOcamlBasic + ExtrOcamlNativeString; ocaml/cmds_cxxqueue.ml",
           "modelled, not verified: std::mutex / condition_variable / thread semantics (critical sections atomic, wait(pred) atomic "
           "re-check under the lock, join), the lockset => data-race-free reading of the C++ memory model; g++/clang++/TSan as search tools"]
ALLOWED_AXIOMS = []

CORPUS = os.path.join(VERIF, "corpus", "C15")
PROBE = os.path.join(VERIF, "harness", "cxx", "c15_probe.cpp")
HDR = os.path.join(kj.REPO, "kojen", "allplatforms", "CPP")


def sh(cmd, timeout=120, env=None):
    e = dict(os.environ)
    e.update(env or {})
    try:
        p = subprocess.run(cmd, stdout=subprocess.PIPE, stderr=subprocess.PIPE, timeout=timeout, env=e)
        return p.returncode, p.stdout.decode("utf-8", "replace"), p.stderr.decode("utf-8", "replace")
    except subprocess.TimeoutExpired as ex:
        return None, (ex.stdout or b"").decode("utf-8", "replace"), (ex.stderr or b"").decode("utf-8", "replace")


def build(d, compiler, tsan, variant):
    out = os.path.join(d, "probe_%s_%s_%s" % (compiler.replace("+", "p"), "tsan" if tsan else "plain", variant))
    cmd = [compiler, "-std=c++17", "-O1", "-g", "-I" + HDR, PROBE, "-o", out, "-pthread", "-DVARIANT_%s=1" % variant.upper()]
    if tsan:
        cmd.insert(1, "-fsanitize=thread")
    rc, so, se = sh(cmd, timeout=300)
    if rc != 0:
        return None, (so + se)[-3000:]
    return out, ""


def tsan_reports(stderr):
    reps = []
    cur = None
    for line in stderr.split("\n"):
        if line.startswith("WARNING: ThreadSanitizer:"):
            cur = [line]
            reps.append(cur)
        elif cur is not None:
            cur.append(line)
            if line.startswith("SUMMARY:"):
                cur = None
    return ["\n".join(r) for r in reps]


def classify_tsan(rep):
    head = rep.split("\n")[0]
    if "data race on vptr" in head:
        return "c15:vptr_race_on_destruction"
    locs = re.findall(r"(threadsafe_queue|threaded_dispatcher)\.h:(\d+)", rep)
    where = "%s.h" % locs[0][0] if locs else "elsewhere"
    if "data race" in head:
        return "c15:data_race:" + where
    return "c15:tsan:" + head.replace("WARNING: ThreadSanitizer: ", "").split(" (")[0].replace(" ", "_")


def judge(stdout, workers, producers, items, mode):
    """Independent reading of C15 on a handler log.  Returns None or a description."""
    lines = stdout.strip().split("\n")
    m = re.match(r"handled (\d+) overlap (\d+)(?: alive (\d+) of (\d+))?", lines[0]) if lines and lines[0] else None
    if not m:
        return "probe printed no summary: %r" % stdout[:200]
    n, overlap = int(m.group(1)), int(m.group(2))
    if mode == 2 and m.group(3) is not None and int(m.group(3)) < int(m.group(4)):
        return "worker threads lost while the dispatcher is alive: only %s of %s workers took a rendezvous job (%d of %d items handled)" % (
            m.group(3), m.group(4), n, producers * items)
    log = [tuple(int(x) for x in l.split()) for l in lines[1:] if l.strip()]
    if len(log) != n:
        return "log length %d differs from summary %d" % (len(log), n)
    if len(set(log)) != len(log):
        return "an item was handed to the handler twice"
    for (p, s) in log:
        if not (0 <= p < producers and 0 <= s < items):
            return "handler received an item nobody dispatched: %r" % ((p, s),)
    if workers == 1:
        if overlap:
            return "two handler calls overlapped with one worker"
        last = {}
        for (p, s) in log:
            if s < last.get(p, -1):
                return "items of producer %d handled out of dispatch order" % p
            last[p] = s
        # FIFO without gaps while alive: per producer the handled items are a prefix of what it dispatched
        for p in range(producers):
            seqs = [s for (q, s) in log if q == p]
            if seqs != list(range(len(seqs))):
                return "producer %d: handled items are not a gap-free prefix: %r" % (p, seqs[:10])
    if mode in (0, 2) and n != producers * items:
        return "dispatcher alive and idle, yet only %d of %d items were handled" % (n, producers * items)
    return None


def run_probe(ctx, binary, tsan, compiler, variant, args, expect_known=None):
    workers, producers, items, mode, delay = args
    env = {"TSAN_OPTIONS": "halt_on_error=0 report_signal_unsafe=0 exitcode=0"} if tsan else {}
    rc, so, se = sh([binary] + [str(a) for a in args], timeout=45 if tsan else 20, env=env)
    key = (compiler, tsan, variant) + tuple(args)
    nontrivial = producers >= 2 or workers >= 2 or mode == 1
    ctx.case(key, nontrivial=nontrivial)
    ctx.count("probe_runs:%s:%s:%s" % (compiler, "tsan" if tsan else "plain", variant))
    replay = {"compiler": compiler, "tsan": tsan, "variant": variant, "args": list(args)}
    if rc is None:
        replay["finding_key"] = "c15:shutdown_hang"
        ctx.violation("probe did not terminate within the deadline (destructor or handler hand-off hangs)", replay)
        return
    if rc != 0:
        lifetime = variant == "noshutdown" and "pure virtual method called" in se
        replay["finding_key"] = "c15:vptr_race_on_destruction" if lifetime else "c15:crash"
        replay["stderr"] = se[-1500:]
        ctx.violation("probe crashed (exit %s)%s" % (rc, ": pure virtual method called" if lifetime else ""), replay)
        return
    bad = judge(so, workers, producers, items, mode)
    if bad:
        replay["finding_key"] = "c15:" + bad.split(":")[0].replace(" ", "_")[:40]
        replay["detail"] = bad
        ctx.violation(bad, replay)
    if tsan:
        seen = set()
        for rep in tsan_reports(se):
            fk = classify_tsan(rep)
            if variant == "noshutdown" and re.search(r"~Disp\(\)|~threaded_dispatcher\(\)", rep):
                fk = "c15:vptr_race_on_destruction"     # the derived part is destroyed under the running worker
            if fk in seen:
                continue
            seen.add(fk)
            r2 = dict(replay)
            r2["finding_key"] = fk
            r2["report"] = rep[:2500]
            ctx.count("tsan_report:" + fk)
            ctx.violation("ThreadSanitizer: " + rep.split("\n")[0], r2)
    ctx.sample({"compiler": compiler, "tsan": tsan, "variant": variant, "args": list(args), "summary": so.split("\n")[0]})


def arg_sets(ctx, rng, n):
    res = [(1, 2, 50, 1, 0), (1, 1, 100, 0, 0), (1, 3, 40, 0, 20), (2, 2, 60, 1, 10), (3, 4, 30, 0, 0), (1, 2, 30, 1, 50),
           (3, 3, 200, 2, 0), (2, 1, 300, 2, 0), (4, 2, 400, 2, 0)]            # mode 2: multi-worker rendezvous
    if ctx.broken or not ctx.quick:
        res += [(3, 1, 300, 2, 0), (2, 2, 300, 2, 0), (4, 1, 500, 2, 0), (3, 2, 400, 2, 5)]
    while len(res) < n:
        w = rng.choice([1, 1, 1, 2, 3, 4])
        res.append((w, rng.randint(1, 4), rng.choice([1, 5, 40, 150]), rng.choice([0, 1, 2] if w >= 2 else [0, 1]),
                    rng.choice([0, 0, 5, 50])))
    return res[:n]


def run(ctx):
    rng = ctx.rng
    # 0 the real headers over the RAW scheduler shim, explored without the model (lost / spurious wake-ups, workers that
    #   leave their loop): a few runs always, many once a proof or tie is broken and in the thorough tier; first, because
    #   it is fast and its failing runs are deterministic schedules
    from .. import c15search
    c15search.run(ctx)
    if ctx.broken and len(ctx.violations) >= 4:
        return
    with kj.scratch() as d:
        compilers = ["g++"] + (["clang++"] if not ctx.quick or ctx.broken else [])
        bins = {}
        for comp in compilers:
            for tsan in (False, True):
                for variant in ("shutdown", "noshutdown"):
                    if variant == "noshutdown" and not tsan:
                        continue
                    b, err = build(d, comp, tsan, variant)
                    if b is None:
                        ctx.tie_broken("stress probe does not compile against the current headers (%s %s %s)" % (comp, tsan, variant), err)
                        continue
                    bins[(comp, tsan, variant)] = b
        # 1 corpus
        for path in sorted(glob.glob(os.path.join(CORPUS, "*.json"))):
            with open(path) as f:
                data = unjson(json.load(f))
            ctx.count("corpus_replayed")
            b = bins.get(("g++", True, data.get("variant", "shutdown")))
            if b:
                run_probe(ctx, b, True, "g++", data.get("variant", "shutdown"), tuple(data["args"]))
        # 2 stress + race search
        n = ctx.budget(24, 120)
        for (comp, tsan, variant), b in sorted(bins.items()):
            sets = arg_sets(ctx, rng, n if variant == "shutdown" else 2)
            for a in sets:
                if len(ctx.violations) >= 6:          # enough concrete failing inputs: stop searching
                    break
                run_probe(ctx, b, tsan, comp, variant, a)
    if len(ctx.violations) >= 6:
        return
    # 4 schedule replay of the real headers against the extracted LTS
    from .. import c15replay
    c15replay.run(ctx)
    # 5 the derived dispatcher destroyed in C++ order against the lifetime LTS
    c15replay.run_lifetime(ctx)


def replay(ctx, data):
    """True iff the property holds for this probe configuration (or schedule) on the current headers."""
    if "args" not in data:
        if data.get("lifetime"):
            from .. import c15replay
            return c15replay.replay_lifetime(ctx, data)
        if data.get("explore"):
            from .. import c15search
            return c15search.replay(ctx, data)
        if "schedule" in data:
            from .. import c15replay
            return c15replay.replay(ctx, data)
        return True
    with kj.scratch() as d:
        b, err = build(d, data.get("compiler", "g++"), bool(data.get("tsan", True)), data.get("variant", "shutdown"))
        if b is None:
            print("  probe does not compile: " + err[-400:])
            return False
        args = data["args"]
        rc, so, se = sh([b] + [str(a) for a in args], timeout=120, env={"TSAN_OPTIONS": "halt_on_error=0 exitcode=0"})
        if rc is None or rc != 0:
            print("  probe hang/crash rc=%r" % rc)
            return False
        bad = judge(so, args[0], args[1], args[2], args[3])
        if bad:
            print("  " + bad)
            return False
        reps = sorted(set(classify_tsan(r) for r in tsan_reports(se)))
        if reps:
            print("  ThreadSanitizer: " + ", ".join(reps))
            return False
        return True
