"""C03 -- No silent loss: code under vanished tags goes to <file>.LostCode.txt next to its file; unreadable files are never overwritten."""
import glob
import json
import os
import random

from .. import kj, presv, synth
from ..check import VERIF, unjson
from ..kj import blocks, read_tree, scratch, splice, splitlines_keep, tabnorm, tag_pairs, write_tree
from . import c01

from ..manifest_data import PRES_NOTE  # noqa: E402

LEVEL = "proof"

MANIFEST = {
    "technique": 'Coq proof (LostCode characterisation, path algebra, unreadable files) + differential correspondence',
    "text": 'Theorems C03_lost_complete_and_only_lost / C03_lost_location / C03_nothing_lost_no_lostfile / C03_unreadable_untouched / C03_undecodable_untouched over the model of the repaired code.',
    "note": PRES_NOTE + ' Text-mode decodability is decided by the harness (strict UTF-8) and passed to the model as Unreadable.',
}
RULE = ("(a) synthetic code models through the real preserve_usercode_in_files+createoutput with the output directory spelled "
        "absolute / relative / with trailing separator / './x', old files with surviving, vanished, empty tags and invalid UTF-8; "
        "(b) real generators: model m with every tag pair filled, regenerated with a model m' that drops or renames tag-bearing elements, "
        "under each spelling of the output directory and from another working directory; (c) real generators with invalid bytes "
        "(Latin-1, UTF-16 fragment, truncated UTF-8) injected into one generated file. Oracle: spec-side block reader on the old tree vs "
        "LostCode files / untouched bytes / return list. non-trivial = at least one block lost or one file undecodable")
ASSUMPTIONS = c01.ASSUMPTIONS + ["'next to the file': join(outdir, name + '.LostCode.txt'); relative names only (no absolute names in the code model)"]
TRUSTED = c01.TRUSTED

SPELLINGS = ["abs", "rel", "trail", "dot", "dotdot"]
BAD_BYTES = [b"caf\xe9 latin1\n", b"\xff\xfe u\x00t\x00f\x001\x006\x00\n", b"trunc \xe2\x82\n", b"\xc3\x28\n", b"nul \x00 is fine\n"]


def lost_case(ctx, kind, inp, inp2, user_seed, spelling):
    rng = random.Random(user_seed)
    inp2_fresh = inp2
    if kind in ("py", "cs", "cpp") and (inp.get("reuse_gen") or (user_seed % 5 == 2 and "iface_table" not in inp2)):
        # a tool that keeps its Interface and generator objects (built before the output directory existed) and regenerates with them
        key = "c03-%d" % user_seed
        inp = dict(inp, reuse_iface=key, reuse_gen=key)
        inp2_fresh = dict(inp2, iface_table=inp["table"])
        inp2 = dict(inp2_fresh, reuse_iface=key, reuse_gen=key)
        presv.IFACES.pop(key, None)
        for k in [k for k in presv.GENS if k[0] == key]:
            presv.GENS.pop(k)
        ctx.count("reused_generator_object")
    with scratch() as d:
        os.makedirs(os.path.join(d, "w", "sub"))
        base = os.path.join(d, "w")
        out = os.path.join(base, "out")
        spell = {"abs": out, "rel": "out", "trail": "out/", "dot": "./out", "dotdot": "sub/../out"}[spelling]
        ref = os.path.join(d, "ref")
        try:
            with kj.cwd(base):
                presv.run_kind(kind, spell, inp)
            presv.run_kind(kind, ref, inp2_fresh)
        except Exception as e:  # noqa
            ctx.count("generator_rejected_input:%s" % type(e).__name__)
            return "trivial"
        t0 = read_tree(out)
        fresh2 = read_tree(ref)
        user = presv.user_blocks(rng, t0, density=1.0)
        for k in list(user):
            if rng.random() < 0.15:
                user[k] = []
        t1 = splice(t0, user)
        write_tree(out, t1)
        with kj.cwd(base):
            ret = presv.run_kind(kind, spell, inp2)
        now = read_tree(out)
        stray = [p for p in read_tree(base) if p.endswith(".LostCode.txt") and not p.startswith("out/")]
        oldb = blocks(t1)
        nontrivial = False
        for rel, data in t1.items():
            if rel not in fresh2:
                continue
            newnames = [nm for (_o, _c, nm) in tag_pairs(splitlines_keep(fresh2[rel]))]
            oldpairs = tag_pairs(splitlines_keep(data))
            if len({p[2] for p in oldpairs}) != len(oldpairs):
                continue
            lost = [(nm, oldb[(rel, nm)][0]) for (_o, _c, nm) in oldpairs if nm not in newnames and oldb[(rel, nm)][0]]
            lname = rel + ".LostCode.txt"
            fk = "%s:%s:%s" % (kind, inp2.get("name"), os.path.basename(rel))
            if lost:
                nontrivial = True
                lc = now.get(lname)
                if lc is None:
                    return fail(kind, inp, inp2, user_seed, spelling, "LostCode file missing next to " + rel, fk, stray)
                if not any(os.path.normpath(r) == os.path.normpath(lname) for r in (ret or [])):
                    return fail(kind, inp, inp2, user_seed, spelling, "LostCode file not in the returned list: %r" % (ret,), fk, stray)
                ll = splitlines_keep(lc)
                for nm, b in lost:
                    idx = [i for i, x in enumerate(ll) if x == nm + b"\n"]
                    want = [tabnorm(x) for x in b if x != b"\n"]
                    if not any([x for x in ll[idx[a] + 1:idx[a + 1]] if x != b"\n"] == want for a in range(len(idx) - 1)):
                        return fail(kind, inp, inp2, user_seed, spelling, "block of %s not found labelled in %s" % (nm.decode(), lname), fk, stray)
            elif lname in now:
                return fail(kind, inp, inp2, user_seed, spelling, "LostCode file %s written although no non-empty block was lost" % lname, fk, stray)
        if stray:
            return fail(kind, inp, inp2, user_seed, spelling, "LostCode file outside the output directory", "stray", stray)
        return None if nontrivial else "trivial"


def fail(kind, inp, inp2, user_seed, spelling, what, fk, stray):
    return {"kind": kind, "input": inp, "input2": inp2, "user_seed": user_seed, "spelling": spelling, "detail": what,
            "finding_key": fk, "stray_lostcode": stray, "lost_case": True}


def undecodable_case(ctx, kind, inp, user_seed):
    rng = random.Random(user_seed)
    with scratch() as d:
        out = os.path.join(d, "out")
        try:
            presv.run_kind(kind, out, inp)
        except Exception:  # noqa
            return "trivial"
        t0 = read_tree(out)
        user = presv.user_blocks(rng, t0, density=1.0)
        if not user:
            return "trivial"
        victim = rng.choice(sorted(user))
        bad = rng.choice(BAD_BYTES)
        user[victim] = user[victim][: rng.randint(0, len(user[victim]))] + [bad] + [b"after\n"]
        t1 = splice(t0, user)
        write_tree(out, t1)
        presv.run_kind(kind, out, inp)
        now = read_tree(out)
        rel = victim[0]
        try:
            t1[rel].decode("utf-8")
            decodable = True
        except UnicodeDecodeError:
            decodable = False
        if decodable:
            return "trivial"          # (e.g. NUL bytes: valid UTF-8) nothing to check here; regeneration of readable files is C01's clause
        if now.get(rel) == t1[rel]:
            return None
        return {"kind": kind, "input": inp, "user_seed": user_seed, "file": rel, "undecodable_case": True,
                "detail": "file with undecodable bytes was rewritten with different content", "finding_key": "undecodable:%s" % kind}


def run(ctx):
    for p in sorted(glob.glob(os.path.join(VERIF, "corpus", "C03", "*.json"))):
        data = unjson(json.load(open(p)))
        ctx.case(("corpus", p))
        if not replay(ctx, data):
            ctx.violation("corpus case %s fails" % os.path.basename(p), data)
    # function level: the model's strict UTF-8 test vs CPython's decoder (what makes a file "unreadable")
    if ctx.km:
        pool = [b"a", b"\n", b"\x00", b"\xc3\xa9", b"\xe4\xb8\xad", b"\xf0\x9f\x98\x80", b"\xe9", b"\xff", b"\xfe", b"\xc0\xaf", b"\xed\xa0\x80",
                b"\xe2\x82", b"\xf4\x90\x80\x80", b"\xf4\x8f\xbf\xbf", b"\xe0\x9f\xbf", b"\xe0\xa0\x80", b"\x80", b"\xbf", b"\xc2", b"\xf0\x90\x80"]
        for i in range(ctx.budget(1500, 30000)):
            b = b"".join(ctx.rng.choice(pool) for _ in range(ctx.rng.randint(0, 6)))
            if ctx.rng.random() < 0.3:
                b = bytes(ctx.rng.randrange(256) for _ in range(ctx.rng.randint(1, 5)))
            try:
                b.decode("utf-8")
                impl = True
            except UnicodeDecodeError:
                impl = False
            ctx.case(("utf8", b), nontrivial=not impl)
            if (ctx.km.call("utf8_valid", b) == b"1") != impl:
                ctx.tie_broken("correspondence: bytes.decode('utf-8') vs Model.Preserve.utf8_valid", {"bytes": b, "impl": impl})
                break
        ctx.count("f_utf8_valid", 1)
    n = ctx.budget(200, 5000)
    for i in range(n):
        sp = ctx.rng.choice(["abs", "rel", "trail", "dot"])
        fail_, nt = synth.run_case(ctx, ctx.rng, sp)
        ctx.case(("synth", i, ctx.rng.random()), nontrivial=nt)
        ctx.count("synthetic_" + sp)
        if fail_ and not fail_.get("crash"):
            ctx.violation(fail_["what"], fail_)
    per_kind = ctx.budget(4, 80)
    for kind in ("py", "cs", "cpp", "proto", "uml"):
        for i in range(per_kind):
            _kw, inp = presv.random_input(ctx.rng, kind)
            inp["lang"] = kind
            inp2 = inp
            for _ in range(ctx.rng.randint(1, 3)):
                inp2 = presv.mutate_input(ctx.rng, kind, inp2)
            inp2["name"] = inp["name"]
            user_seed = ctx.rng.randint(0, 1 << 30)
            if i == 1 and kind in ("py", "cs", "cpp"):
                user_seed = user_seed - user_seed % 5 + 2      # one case per state-machine back end keeps its generator object
            sp = SPELLINGS[i % len(SPELLINGS)]
            res = lost_case(ctx, kind, inp, inp2, user_seed, sp)
            ctx.case(("lost", kind, json.dumps(inp2, sort_keys=True), user_seed, sp), nontrivial=(res != "trivial"))
            ctx.count("lost_%s_%s" % (kind, sp))
            if i == 0:
                ctx.sample({"kind": kind, "input": inp, "input2": inp2, "spelling": sp})
            if res and res != "trivial":
                ctx.violation(res["detail"], res)
        for i in range(max(2, per_kind // 2)):
            _kw, inp = presv.random_input(ctx.rng, kind)
            inp["lang"] = kind
            user_seed = ctx.rng.randint(0, 1 << 30)
            res = undecodable_case(ctx, kind, inp, user_seed)
            ctx.case(("undecodable", kind, user_seed), nontrivial=(res != "trivial"))
            ctx.count("undecodable_" + kind)
            if res and res != "trivial":
                ctx.violation(res["detail"], res)


def replay(ctx, data):
    if data.get("no_failing_input_found"):
        print(json.dumps(data.get("no_longer_checks"), indent=1)[:3000])
        return False
    if data.get("synthetic"):
        f, _ = synth.execute(ctx, data["fresh"], data["olds"], data.get("spelling", "abs"))
        return f is None
    if data.get("undecodable_case"):
        r = undecodable_case(ctx, data["kind"], data["input"], data["user_seed"])
        return not (r and r != "trivial")
    r = lost_case(ctx, data["kind"], data["input"], data["input2"], data["user_seed"], data["spelling"])
    return not (r and r != "trivial")
