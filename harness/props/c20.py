"""C20 -- State-diagram extraction from a VP project yields exactly the drawn transitions."""
import glob
import json
import os
import re

from .. import kj, vppsynth as vs
from ..check import VERIF, unjson

from kojen import vppfs  # noqa: E402

LEVEL = "proof"

MANIFEST = {
    "technique": "Coq proof of the read-back theorem (reader model o assumed writer = specification) + differential correspondence "
                 "of the extracted reader model against vppfs on synthesised SQLite projects",
    "text": "Theorem C20_roundtrip: for EVERY abstract state diagram D (any number of states/transitions, guards and effects present, "
            "absent or shared, self loops, shapes in any drawing order, reference fields in any order between any noise fields) with "
            "wf_diagram D, and EVERY row database db that hosts D (other diagrams' rows arbitrary and interleaved, MODEL_ELEMENT rows in "
            "any order), the model of vppfs.ExtractTransitionTable returns exactly Spec.expected_rows D (one row per drawn non-initial "
            "transition, self loop -> 'None', missing guard/effect -> 'None', initial target first, grouped by source in first-appearance "
            "order); C20_others_no_influence: two databases hosting D give the same table; C20_calibration: the assumed writer "
            "reproduces the shipped project's rows byte for byte and the model reads the shipped table; C20_keyword_refuted: without the "
            "keyword hypothesis the statement is false. The reader model (Model/Vpp.v) is tied to vppfs.py by the translator "
            "(replace chain, keywords, type dispatch regenerated from the AST) and by differential runs: function level (str(bytes), "
            "mass_replace, split, replace, strip, Transition.Parse, Guard.Parse) and end to end (real SQLite files through "
            "vppfs.ExtractTransitionTable vs model vs specification vs an independent Python oracle, malformed projects included: "
            "exceptions must agree too).",
    "note": "The K-C19-6 repair (vppfs.ParseBLOB_Recursive / Get_ValuesFromOutside made quote-aware, kojen d35a215) is not on this property's path: "
            "Transition.Parse / Guard.Parse split their blobs themselves (Model/Vpp.v is unchanged, the C20 theorems are re-checked unchanged). "
            "Trusted: Coq kernel, extraction (ExtrOcamlBasic/NativeString), translator/vpp.py, sqlite3 (SELECT * in rowid order, PRIMARY KEY), "
            "CPython str methods (tied by execution only). The Visual Paradigm writer is an ASSUMPTION (Model/VppWriter.v), calibrated on the "
            "one shipped project: field syntax CR LF TAB key=<id:..:id>; first field never a reference field. Known finding K-C20-1/2: names, "
            "authors or ids containing toModel/fromModel/guard/effect/value_string, and guard texts with = < > ( ) ; quotes, are misread.",
}
RULE = ("random abstract diagrams (1-5 states, 0-8 transitions, guards/effects absent/present/shared, self loops, unnamed triggers, notes, "
        "shapes shuffled, reference fields shuffled between noise fields incl. nested {..} pieces and Child lists, owner chains of 0-3 ids) "
        "encoded by the extracted writer, embedded between 0-3 other diagrams (state diagrams of the same generator, class diagrams, a "
        "later state diagram of the same name), rows interleaved / shuffled, written to an SQLite file with the shipped schema and read by "
        "the real vppfs.ExtractTransitionTable; a share of the diagrams departs from the domain on purpose (keyword in names/ids/authors, "
        "guard text with operators, no/two initial states, target not drawn, unhandled element type, element drawn twice). "
        "non-trivial = wf_diagram and hosts hold and the table has at least one row; distinct = distinct (diagram, database)")
ASSUMPTIONS = [
    "the diagram holds exactly one initial pseudo state, simple states, transitions, notes and anchors (anything else is rejected by vppfs with an explicit exception), each model element drawn once",
    "states are identified by their names (pairwise distinct); every transition starts at the initial pseudo state or a drawn state and ends at a drawn state; its guard/effect rows exist",
    "assumed VP writer (calibrated on the shipped project): blob = id:\"name\"|NULL:Transition2 {field;...;field;CRLF} with reference fields CR LF TAB key=<owner:...:id>, never as the first field; guard text in CR LF TAB TAB value_string=\"text\" after at least one other field",
    "no text of a transition blob other than the four reference keys contains toModel/fromModel/guard/effect (as shown by str(bytes)); no earlier guard field contains value_string (K-C20-1)",
    "guard texts and referenced ids consist of printable ASCII without = < > ; \\ \" ' ( ) (K-C20-2 for guard texts); blobs contain no apostrophe",
    "the name passed in is looked up after ASCII str.strip(); the first state diagram of that name is the one meant",
]
TRUSTED = ["Coq 8.16.1 kernel (coqc; coqchk in the thorough tier)", "axioms: none",
           "translator/vpp.py (AST patterns of vppfs.py; SQLite rows of blob.xml; both re-checked: digests, calibration theorem)",
           "extraction: ExtrOcamlBasic + ExtrOcamlNativeString",
           "modelled, not verified: sqlite3 row order and PRIMARY KEY lookup, CPython str.split/replace/find/strip and bytes.__repr__ (tied by differential execution on every run)",
           "assumed, not kojen code: the Visual Paradigm writer (Model/VppWriter.v)"]
ALLOWED_AXIOMS = []

FIRST_FIELD_REF = re.compile(rb"^\r\n\t(toModel|fromModel|guard|effect)=<")


# ---------------------------------------------------------------- function level

ALPHA = ["=", "<", ">", ";", "\\", "n", "r", "t", "\n", "\r", "\t", '"', "(", ")", ":", "'", " ", "a", "Z", "0", "é", "中",
         "toModel", "fromModel", "guard", "effect", "value_string", "\\r\\n\\t", "x", "b'"]


def rstr(rng, maxlen=14):
    return "".join(rng.choice(ALPHA) for _ in range(rng.randint(0, maxlen)))


def function_level(ctx, n):
    km = ctx.km
    rng = ctx.rng
    for i in range(n):
        b = bytes(rng.choice([rng.randrange(256), 39, 34, 92, 9, 10, 13, 65, 0x7f, 0xef]) for _ in range(rng.randint(0, 12)))
        if str(b).encode() != km.call("vpp_str_bytes", b):
            ctx.tie_broken("correspondence str(bytes) vs py_str_bytes", {"bytes": b})
        s = rstr(rng)
        e = s.encode("utf-8")
        pairs = [("mass_replace", vppfs.mass_replace(s), km.call("vpp_mass", e)),
                 ("split(';')", [x.encode() for x in s.split(";")], km.call("vpp_split", b";", e)),
                 ("GetLastIDFromColonList", vppfs.GetLastIDFromColonList(s), km.call("vpp_last_colon", e))]
        for kw in ("toModel", "effect", "aa", "\\n"):
            pairs.append(("replace(%r,'')" % kw, s.replace(kw, ""), km.call("vpp_rm", kw.encode(), e)))
        w = "".join(rng.choice([" ", "\t", "\n", "\r", "\x0b", "\x0c", "\x1c", "\x1f", "a", "é", "b "]) for _ in range(rng.randint(0, 6)))
        pairs.append(("strip", w.strip(), km.call("vpp_strip", w.encode("utf-8"))))
        for what, real, model in pairs:
            if isinstance(real, str):
                real = real.encode("utf-8")
            if real != model:
                ctx.tie_broken("correspondence %s vs model" % what, {"input": s, "real": real, "model": model})
        # Transition.Parse / Guard.Parse on arbitrary ';' separated text
        blob = ";".join(rstr(rng, 8) for _ in range(rng.randint(1, 6)))
        base = vppfs.VPPModelElement()
        base.ID, base.NAME, base.BLOB_STRING = "id", "nm", blob
        t = vppfs.Transition(base)
        real = [vs.o(x.encode("utf-8") if x is not None else None) for x in (t.STATE_TO_ID, t.STATE_FROM_ID, t.GUARD, t.ACTIVITY)]
        model = km.call("vpp_parse_transition", b"id", b"nm", blob.encode("utf-8"))
        if real != model:
            ctx.tie_broken("correspondence Transition.Parse vs parse_transition", {"blob": blob, "real": real, "model": model})
        try:
            gname = [vppfs.Guard(base).NAME.encode("utf-8")]
        except Exception:  # noqa
            gname = []
        if gname != km.call("vpp_parse_guard", blob.encode("utf-8")):
            ctx.tie_broken("correspondence Guard.Parse vs parse_guard", {"blob": blob})
        ctx.case(("fn", i, s, blob), nontrivial=any(x for x in model) or bool(gname))
        ctx.count("function_level")


# ---------------------------------------------------------------- end to end

def structural(D):
    """None, or the reason why D is outside the property's input domain (not a drawable state diagram / not handled by design)"""
    kinds = [k for k, _de, _p in D["elems"]]
    ids = [p["id"] for _k, _de, p in D["elems"]]
    states = [p for k, _de, p in D["elems"] if k == "state"]
    inits = [p for k, _de, p in D["elems"] if k == "init"]
    if kinds.count("init") != 1:
        return "initial-pseudo-state-count"
    if len(set(ids)) != len(ids):
        return "element-drawn-twice"
    names = [p["name"] or b"" for p in states]
    if len(set(names)) != len(names):
        return "duplicate-state-name"
    for k, _de, p in D["elems"]:
        want = {"init": [b"InitialPseudoState"], "state": [b"State2"], "other": [b"NOTE", b"Anchor"]}.get(k)
        if want and p["type"] not in want:
            return "unhandled-element-type"
    sid = {p["id"] for p in states}
    for k, _de, t in D["elems"]:
        if k != "trans":
            continue
        if t["to"] not in sid or t["from"] not in sid | {inits[0]["id"]}:
            return "transition-end-not-drawn"
        if (t["guard"] is not None and t["guard"] not in [g["id"] for g in D["guards"]]) or \
                (t["effect"] is not None and t["effect"] not in [a["id"] for a in D["acts"]]):
            return "dangling-reference"
    return None


def why_not_wf(ctx, D):
    """finding key for a structurally sound diagram that fails wf_diagram"""
    km = ctx.km
    for k, _de, t in D["elems"]:
        if k == "trans" and km.call("vpp_wf_trans", vs.trans_v(t)) != b"1":
            if FIRST_FIELD_REF.match(t["head"]):
                return "first-field-is-reference"
            return "keyword-in-blob-text"
    for g in D["guards"]:
        if km.call("vpp_wf_guard", vs.guard_v(g)) != b"1":
            plain = all(32 <= c < 127 and c not in b"=<>;\\\"()'" for c in g["text"]) and b"value_string" not in g["text"]
            return "keyword-in-blob-text" if plain else "guard-text-not-plain"
    return "other"


def one_case(ctx, D, db, name, tags=()):
    """returns (nontrivial, failing replay dict or None)"""
    km = ctx.km
    real, err = vs.run_real(db, name)
    fail = None
    wf = hosts = None
    if km is not None:
        m = km.call("vpp_extract", vs.db_v(db), name)
        model = m[0] if m else None
        if model != real:
            ctx.tie_broken("correspondence vppfs.ExtractTransitionTable vs Vpp.extract",
                           {"D": D, "db": db, "name": name, "real": real, "error": err, "model": model})
        wf = km.call("vpp_wf", vs.diagram_v(D)) == b"1"
        hosts = km.call("vpp_hosts", vs.db_v(db), vs.diagram_v(D)) == b"1"
    why = structural(D)
    if why is not None:
        ctx.count("outside_domain:" + why)
        if wf:
            ctx.tie_broken("wf_diagram accepts a diagram the harness classifies as outside the domain (%s)" % why, {"D": D})
        return False, None
    want = vs.oracle_rows(D)
    if km is not None and wf and hosts:
        spec = km.call("vpp_expected", vs.diagram_v(D))
        if spec != want:
            ctx.tie_broken("Spec.expected_rows disagrees with the independent Python oracle", {"D": D, "spec": spec, "oracle": want})
    if real != want:
        if km is None:
            key = "unclassified"
        elif wf and hosts:
            key = "wf-diagram"
        elif wf is False:
            key = why_not_wf(ctx, D)
        else:
            key = "not-hosted"
        if key == "first-field-is-reference":
            ctx.count("outside_assumed_writer:first-field-is-reference")
            return False, None
        if key == "not-hosted":
            ctx.count("outside_domain:not-hosted")
            return False, None
        fail = {"D": D, "db": db, "name": name, "expected": want, "observed": real, "error": err, "finding_key": key, "tags": list(tags)}
    ctx.count("wf=%s" % wf)
    return bool(wf and hosts and want), fail


def witnesses(gen):
    """hand-made diagrams: the _refuted witness of Props/C20.v (trigger 'Safeguard', no guard) and a guard text with an operator"""
    def st(n):
        return gen.pelem(b"State2", n)
    a, b = st(b"StateA"), st(b"StateB")
    ini = gen.pelem(b"InitialPseudoState", b"")
    act = gen.pelem(b"Activity", b"OnGo")

    def tr(nm, frm, to, g=None, e=None):
        keys = [["K", "to"]] + ([["K", "guard"]] if g else []) + [["N", b'\r\n\tpmAuthor="eugene"'], ["K", "from"]] + ([["K", "effect"]] if e else [])
        return {"id": gen.new_id(), "name": nm, "parent": None, "from": frm, "to": to, "guard": g, "effect": e, "pto": [], "pfrom": [],
                "pguard": [], "peffect": [gen.new_id()], "head": b"\r\n\t_modelEditable=T", "layout": keys}
    res = []
    for label, nm, gtext in (("keyword-in-trigger-name", b"Safeguard", None), ("guard-with-operator", b"EventGo", b"x>5")):
        guards = []
        g = None
        if gtext is not None:
            g = gen.new_id()
            guards = [{"id": g, "type": b"ConstraintElement", "name": b"", "parent": None, "head": b'\r\n\tpmAuthor="eugene"',
                       "pre": [b"\r\n\tspecification={x:\"\":CompositeValueSpecification {\r\n\t\t_modelViews=NULL"], "text": gtext,
                       "post": b"\r\n\t}};\r\n}"}]
        elems = [["trans", gen.new_id(), tr(None, ini["id"], a["id"])], ["init", gen.new_id(), ini], ["state", gen.new_id(), a],
                 ["state", gen.new_id(), b], ["trans", gen.new_id(), tr(nm, a["id"], b["id"], g, act["id"])]]
        res.append((label, {"id": gen.new_id(), "name": b"Machine", "elems": elems, "guards": guards, "acts": [act]}))
    return res


def run(ctx):
    for p in sorted(glob.glob(os.path.join(VERIF, "corpus", "C20", "*.json"))):
        data = unjson(json.load(open(p)))
        ctx.case(("corpus", p))
        if not replay(ctx, data):
            ctx.violation("corpus case %s fails" % os.path.basename(p), data)
    if ctx.km is not None:
        function_level(ctx, ctx.budget(400, 6000))
    # calibration point: the shipped project through the real entry point
    with kj.quiet():
        tt = vppfs.ExtractTransitionTable(" TestStateMachine ", vs.BLOB_XML)
    ctx.case(("shipped",))
    if tt != [['StateRed', 'EventButtonPressed', 'StateOrange', 'OnOrange', 'GuardCanChangeToOrange'],
              ['StateOrange', 'EventButtonPressed', 'StateGreen', 'OnGreen', 'GuardCanChangeToGreen'],
              ['StateGreen', 'EventButtonPressed', 'StateRed', 'OnRed', 'GuardCanChangeToRed']]:
        ctx.violation("the shipped diagram is not read as drawn", {"shipped": True, "observed": tt, "finding_key": "shipped"})
    if ctx.km is None:
        return
    gen = vs.Gen(ctx.rng)
    for label, D in witnesses(gen):
        db = gen.project(ctx.km, D, nothers=1)
        _nt, fail = one_case(ctx, D, db, D["name"], [label])
        ctx.case(("witness", label))
        ctx.count("witness_fails" if fail else "witness_holds")
        if fail:
            ctx.violation("%s: %r instead of %r" % (label, fail["observed"], fail["expected"]), fail)
    n = ctx.budget(250, 6000)
    for i in range(n):
        gen = vs.Gen(ctx.rng)
        quirks = 0.0 if i % 3 else ctx.rng.choice([0.02, 0.06])
        D, tags = gen.diagram(quirks=quirks)
        db = gen.project(ctx.km, D)
        name = D["name"] if ctx.rng.random() < 0.8 else b" " + D["name"] + b"\t\n"
        nt, fail = one_case(ctx, D, db, name, tags)
        ctx.case(("e2e", json.dumps([D, db], default=repr, sort_keys=True)), nontrivial=nt)
        ntr = sum(1 for k, _d, _p in D["elems"] if k == "trans")
        ctx.count("transitions_%s" % ("0" if ntr == 0 else "1-3" if ntr < 4 else "4-8"))
        ctx.count("other_diagrams_%d" % (len(db[0]) - 1))
        if nt and len(ctx.samples) < 3:
            ctx.sample({"diagram": D["name"], "shapes": [k for k, _d, _p in D["elems"]], "rows": vs.oracle_rows(D),
                        "diagram_rows_in_project": len(db[0]), "model_element_rows": len(db[2])})
        if fail:
            ctx.violation("%s: extracted %r, drawn %r (%s)" % (fail["finding_key"], fail["observed"], fail["expected"], fail["error"]), fail)


def replay(ctx, data):
    if data.get("no_failing_input_found"):
        print(json.dumps(data.get("no_longer_checks"), indent=1, default=repr)[:3000])
        return False
    if data.get("shipped"):
        return False
    db = tuple([tuple(r) for r in tbl] for tbl in data["db"])
    real, _err = vs.run_real(db, data["name"])
    return real == vs.oracle_rows(data["D"])
