"""C11 -- Threaded Python state machine: exactly-once FIFO, run to completion, stop() ends."""
import glob
import json
import os
import random

from .. import c11lib as L
from ..check import VERIF, unjson
from ..pysched import Ev

LEVEL = "proof"

MANIFEST = {
    "technique": "Coq proof over all interleavings of an LTS interpreting the template's synchronisation skeleton (invariant + "
                 "simulation + explicit ranking function) + schedule replay of the real generated module under a controlled scheduler",
    "text": "Theorems C11_exactly_once, C11_per_producer_order, C11_run_to_completion, C11_stop_progress, C11_stop_post "
            "(Props/C11.v) hold for every state reachable under ANY schedule of main/stopper, worker and any number of producers "
            "with any scripts (events may trigger events from callbacks; a get() time-out may fire whenever the queue is empty). "
            "The thread programs are Gen/PySync.v, regenerated from TEMPLATEStateMachine.py on every run (fail-closed translator); "
            "every generated module must carry exactly that skeleton in __init__/run/stop and in EVERY Trigger method (checked by the "
            "same translator on each generated machine, so one LTS covers all tables); the REAL generated module is executed on real "
            "threads under a baton-passing scheduler (fake threading/queue injected through __import__, private-flag reads/writes "
            "intercepted) and must agree step by step (operation label, set of threads able to move) and in its final log / stop "
            "flags / termination with the extracted LTS on the same schedule; the property itself is read off every real run by an "
            "oracle that does not use the model.",
    "note": "Model of the code after two `fix:` commits (stop() drained after clearing the flag: deadlock; Trigger during/after "
            "stop() ran process() on the caller's thread). Liveness: weak fairness is the only assumption (C11_stop_progress: no "
            "deadlock + rank strictly decreasing on every non-idle step + idle turns never block). Trusted: Coq kernel, the "
            "translator translator/pysync.py, extraction, CPython's queue.Queue/threading semantics as written in Model/PyThreads.v "
            "(sequentially consistent attribute access under the GIL; get(timeout) raises Empty only when the queue is empty). "
            "Callbacks: a callback is NOT one step -- each Trigger it makes is Call/ReadFlag/Put, interleavable with every other "
            "thread (incl. while stop() is in progress: covered by the theorems and by the enumerated scenario family); only its own "
            "code between two machine operations is atomic. Excluded (Props/C11.v, list (a)-(d)): a callback that blocks on a "
            "primitive of its own, that calls stop(), that raises (the worker would die without task_done()), or that triggers "
            "without bound; two concurrent stop() calls. Random and preemption-bounded exhaustive schedules are "
            "model validation and search, not the proof.",
}
RULE = ("random generated machines (random tables, threaded and a few unthreaded) x random scripts (0-3 producers, 0-3 events each, "
        "callback-triggered children up to depth 2) x schedules chosen among the threads the REAL scheduler reports enabled "
        "(uniform / sticky / worker-starving / main-first, then a fair round-robin tail until stop() returns); plus, for small "
        "scenarios, ALL schedules with at most k preemptions enumerated from the model's enabled sets and replayed on the real code. "
        "non-trivial = at least 3 context switches and at least one event processed or stop() called with a non-empty queue; "
        "distinct = (skeleton, scripts, schedule)")
ASSUMPTIONS = ["machine generated in threaded mode (<<<StateMachineThread>>> = 1, the default)",
               "one stopping thread, not the worker; stop() is not called from inside a callback",
               "every event triggers finitely many further events (finite trees); scripts are finite",
               "scheduler fairness (an enabled thread is not starved for ever) for the termination of stop()",
               "controller callbacks synchronise with the machine only through Trigger calls"]
TRUSTED = ["Coq 8.16.1 kernel (coqc; coqchk in the thorough tier)", "axioms: none (all Print Assumptions: Closed under the global context)",
           "translator/pysync.py (template -> Gen/PySync.v; also applied to every generated module)",
           "extraction ExtrOcamlBasic + ExtrOcamlNativeString; ocaml/cmds_pythreads.ml",
           "modelled, not verified: CPython queue.Queue / threading.Thread semantics and GIL atomicity of attribute access (Model/PyThreads.v); "
           "harness/pysched.py is the tie (controlled scheduler), not part of the proof"]
ALLOWED_AXIOMS = []

CORPUS = os.path.join(VERIF, "corpus", "C11")
FIXED_TABLE = [["StateA", "EventX", "StateB", "OnGo", "None"], ["StateB", "EventX", "StateA", "OnBack", "None"],
               ["StateA", "EventY", "None", "OnStay", "GuardOk"], ["StateB", "EventY", "StateA", "OnBack", "None"]]


def fixed_machine():
    from .. import kj
    iface = kj.events_interface(random.Random(0), FIXED_TABLE, "py")
    cs, ss = L.machine_sources(FIXED_TABLE, iface)
    return {"table": FIXED_TABLE, "events": ["EventX", "EventY"], "controller": cs, "machine": ss, "threaded": True}


def classify(msg):
    for k in ("deadlock", "overlap", "after stop() had returned", "stop() returned although", "twice", "out of its trigger order",
              "thread other than the worker", "has not returned", "exception", "skipped", "nobody triggered"):
        if k in msg:
            return "c11:" + k.replace(" ", "_").replace("()", "")
    return "c11:other"


def run_schedule(m, scripts, schedule, fair=True):
    """Replay a schedule of thread names on the real code (names that cannot move are skipped), then a fair tail."""
    real = L.RealRun(m, scripts)
    try:
        for n in schedule:
            if n in real.enabled():
                real.step(n)
        if fair:
            L.fair_tail(real, 600)
        return real, L.oracle(real, scripts, m["threaded"], expect_termination=fair)
    except Exception:
        real.close()
        raise


def one_case(ctx, m, scripts, style, prefix_len, tsk, seed_rng, compare=True):
    real = L.RealRun(m, scripts)
    try:
        L.drive(real, seed_rng, prefix_len, style)
        L.fair_tail(real, 600)
        res = real.result()
        sched = list(real.schedule)
        bad = L.oracle(real, scripts, m["threaded"], expect_termination=True) if m["threaded"] else None
        switches = sum(1 for a, b in zip(sched, sched[1:]) if a != b)
        labels = [s[0] or "" for s in res["steps"]]
        nonempty_stop = False
        if "StopCall" in labels:
            i = labels.index("StopCall")
            nonempty_stop = sum(l.startswith("Put ") for l in labels[:i]) > sum(l.startswith("GetOk ") for l in labels[:i])
        nontrivial = switches >= 3 and (any(l.startswith("Process") for l in labels) or nonempty_stop)
        key = (hash(m["machine"]), json.dumps(L.scripts_json(scripts)), tuple(sched))
        ctx.case(key, nontrivial=nontrivial)
        ctx.count("style:" + style)
        ctx.count("producers:%d" % (len(scripts) - 1))
        ctx.count("stop_with_nonempty_queue" if nonempty_stop else "stop_with_empty_queue")
        ctx.count("steps", len(sched))
        if any(l == "GetTimeout" for l in labels):
            ctx.count("runs_with_timeout_fired")
        if any(e.children for sc in scripts.values() for e in sc):
            ctx.count("runs_with_callback_triggered_events")
        replay = {"scripts": L.scripts_json(scripts), "schedule": sched, "table": m["table"], "threaded": m["threaded"]}
        if bad:
            replay["finding_key"] = classify(bad)
            replay["detail"] = bad
            ctx.violation(bad, replay)
        if ctx.km is not None and compare:
            wf = ctx.km.call("py_wf", *L.model_args(scripts, m["threaded"])) == b"1"
            ctx.count("wf_config_true" if wf else "wf_config_false(unthreaded machine)")
            if wf != bool(m["threaded"]):
                ctx.tie_broken("hypothesis wf_config evaluates to %r on a %s scenario" % (wf, "threaded" if m["threaded"] else "unthreaded"), replay)
            mod = L.model_trace(ctx.km, scripts, m["threaded"], sched)
            diff = L.compare(res, mod)
            if diff:
                replay["detail"] = diff
                ctx.tie_broken("correspondence real generated module under the controlled scheduler vs PyMachine.trace_model: " + diff, replay)
                return False
        ctx.sample({"scripts": L.scripts_json(scripts), "schedule": " ".join(sched[:60]), "log": res["log"][:12],
                    "stop_returned": res["stop_returned"]})
        return True
    finally:
        real.close()


def enumerate_schedules(km, scripts, threaded, max_preempt, max_len, limit):
    """All schedules (thread names) with at most max_preempt preemptions, from the MODEL's enabled sets; an idle turn of
    the worker's loop counts as a voluntary yield.  Returns complete schedules (nobody can move) or cut at max_len."""
    out = []
    stack = [([], max_preempt)]
    while stack and len(out) < limit:
        sched, budget = stack.pop()
        tr = L.model_trace(km, scripts, threaded, sched)
        en = [L.name_of(t) for t in tr["enabled"]]
        if not en or len(sched) >= max_len:
            out.append(sched)
            continue
        last = sched[-1] if sched else None
        labels = [s[0] for s in tr["steps"]]
        idled = last == "worker" and labels and labels[-1] == "GetTimeout"
        choices = []
        if last in en and not (idled and len(en) > 1):
            choices.append((last, budget))
            if budget > 0:
                choices += [(n, budget - 1) for n in en if n != last]
        else:
            choices += [(n, budget) for n in en if not (idled and n == last and len(en) > 1)]
        if not choices:
            choices = [(en[0], budget)]
        for n, b in reversed(choices):
            stack.append((sched + [n], b))
    return out


def exhaustive(ctx, m, tsk):
    if ctx.km is None:
        return
    scen = [
        ({"main": [Ev(1, m["events"][0])]}, 2),
        ({"main": [], "p0": [Ev(1, m["events"][0])]}, 2),
        ({"main": [Ev(1, m["events"][0], [Ev(2, m["events"][-1])])]}, 1),
        ({"main": [Ev(1, m["events"][0])], "p0": [Ev(2, m["events"][-1]), Ev(3, m["events"][0])]}, 1),
    ]
    # family "Trigger from inside a callback while stop() is in progress": the owner of the callback is the worker, main is
    # inside stop() (blocked in Queue.join() or racing towards it), optionally a producer triggers at the same time
    e0, e1 = m["events"][0], m["events"][-1]
    scen += [
        ({"main": [], "p0": [Ev(1, e0, [Ev(2, e1), Ev(3, e0)])]}, 1),                 # stop() called with nothing queued yet
        ({"main": [Ev(1, e0, [Ev(2, e1, [Ev(3, e0)])])]}, 1),                          # a callback-triggered event triggers again
        ({"main": [Ev(1, e0, [Ev(2, e1)])], "p0": [Ev(3, e0)]}, 1),                    # + a producer racing with both
    ]
    if not ctx.quick:
        scen += [({"main": [Ev(1, e0, [Ev(2, e1), Ev(3, e0)])], "p0": [Ev(4, e1, [Ev(5, e0)])]}, 2),
                 ({"main": [], "p0": [Ev(1, e0, [Ev(2, e1)])], "p1": [Ev(3, e1, [Ev(4, e0)])]}, 1)]
    if not ctx.quick:
        scen += [({"main": [], "p0": [Ev(1, m["events"][0])], "p1": [Ev(2, m["events"][-1])]}, 2),
                 ({"main": [Ev(1, m["events"][0])], "p0": [Ev(2, m["events"][0], [Ev(3, m["events"][-1])])]}, 2)]
    limit = ctx.budget(400, 4000)
    covered = [0]
    for scripts, k in scen:
        scheds = enumerate_schedules(ctx.km, scripts, True, k, 90, limit)
        ctx.count("enumerated_schedules(preemptions<=%d)" % k, len(scheds))
        for sched in scheds:
            real = L.RealRun(m, scripts)
            try:
                for n in sched:
                    real.step(n)
                res = real.result()
                bad = L.oracle(real, scripts, True, expect_termination=False)
                mod = L.model_trace(ctx.km, scripts, True, sched)
                diff = L.compare(res, mod)
                # coverage of the family: a Trigger call made by the worker (= from inside a callback) between the call of
                # stop() and its return, on the real run
                tr = real.run.sched.trace
                labs = [lab for (_t, lab) in tr]
                if "StopCall" in labs:
                    i0 = labs.index("StopCall")
                    i1 = labs.index("StopRet") if "StopRet" in labs else len(labs)
                    if any(t == "worker" and lab.startswith("Call ") for (t, lab) in tr[i0:i1]):
                        ctx.count("enumerated:callback_trigger_while_stop_in_progress")
                        covered[0] += 1
                replay = {"scripts": L.scripts_json(scripts), "schedule": sched, "table": m["table"], "threaded": True}
                ctx.case(("enum", json.dumps(L.scripts_json(scripts)), tuple(sched)), nontrivial=True)
                if not bad and not real.enabled() and not res["stop_returned"]:
                    bad = "deadlock: complete schedule ends with stop() not returned"
                if bad:
                    replay["finding_key"] = classify(bad)
                    replay["detail"] = bad
                    ctx.violation(bad, replay)
                    if len(ctx.violations) >= 8:
                        return
                if diff:
                    replay["detail"] = diff
                    ctx.tie_broken("correspondence (enumerated schedule) real vs model: " + diff, replay)
                    return
            finally:
                real.close()
    if not covered[0]:
        ctx.tie_broken("the enumeration no longer covers 'Trigger from inside a callback while stop() is in progress'")


def run(ctx):
    from translator import pysync
    tsk = None
    try:
        tsk = pysync.skeleton(pysync.detag(pysync.src(pysync.TEMPLATE).decode("utf-8")))
    except Exception as e:  # noqa -- the refusal itself is already reported by check.py
        ctx.count("template_skeleton_unavailable")
    # 1 corpus: the schedules that broke the original skeleton must now satisfy the property on the real code
    m0 = fixed_machine()
    for path in sorted(glob.glob(os.path.join(CORPUS, "*.json"))):
        with open(path) as f:
            data = unjson(json.load(f))
        ok = replay(ctx, data, m0)
        ctx.case(("corpus", os.path.basename(path)), nontrivial=True)
        ctx.count("corpus_replayed")
        if not ok:
            d = dict(data)
            d["finding_key"] = "c11:corpus:" + os.path.basename(path)
            ctx.violation("corpus schedule %s violates C11 on the real generated module" % os.path.basename(path), d)
    # 2b search mode only (a proof or tie is broken): a flood scenario -- one producer with a long script whose events trigger
    # follow-up events from inside callbacks, main first: exposes capacity-dependent behaviour (e.g. a bounded queue)
    if ctx.broken:
        flood(ctx, m0)
        if ctx.violations:          # a concrete failing run is what the search is for
            return
    # 2 the generated module carries the template's skeleton (all Trigger methods), for random tables
    rng = ctx.rng
    n_mach = ctx.budget(12, 60)
    n_runs = ctx.budget(25, 120)
    for i in range(n_mach):
        threaded = not (i % 6 == 5)
        try:
            m = L.random_machine(rng, threaded=threaded)
        except Exception as e:  # noqa
            ctx.count("generator_rejected_table:%s" % type(e).__name__)
            continue
        if tsk is not None:
            d = L.skeleton_matches(tsk, m["machine"], threaded)
            if d:
                ctx.tie_broken("generated module does not carry the template's synchronisation skeleton: " + d, {"table": m["table"]})
                continue
        ctx.count("machines_threaded" if threaded else "machines_unthreaded")
        ctx.count("trigger_methods_checked", len(m["events"]))
        cmp_model = not any("trace_model" in str(b.get("what", "")) for b in ctx.broken) if ctx.broken else True
        for _ in range(n_runs if threaded else max(3, n_runs // 5)):
            scripts = L.random_scripts(rng, m["events"])
            style = rng.choice(["uniform", "sticky", "starve_worker", "main_first"])
            if not one_case(ctx, m, scripts, style, rng.randint(0, 80), tsk, rng, compare=cmp_model):
                if not ctx.broken:
                    break
                cmp_model = False      # search mode: the model is known to disagree; keep running the REAL code against the oracle
            if len(ctx.violations) >= (4 if ctx.broken else 8):      # enough concrete failing inputs: stop searching
                return
    # 3 all schedules with few preemptions on small scenarios
    exhaustive(ctx, m0, tsk)


def flood(ctx, m, n=1100):
    counter = [0]

    def ev(children=()):
        counter[0] += 1
        return Ev(counter[0], "EventX", children)
    script = [ev((ev(),)) if i % 50 == 0 else ev() for i in range(n)]
    scripts = {"main": script}
    real = L.RealRun(m, scripts)
    try:
        # main runs until it blocks or finishes triggering, then worker and main alternate a little, then the fair tail
        for _ in range(3 * n):
            if "main" in real.enabled():
                real.step("main")
            else:
                break
        for i in range(40):
            en = real.enabled()
            if not en:
                break
            real.step(en[i % len(en)] if "worker" not in en or i % 3 else "worker")
        L.fair_tail(real, 20 * n)
        bad = L.oracle(real, scripts, m["threaded"], expect_termination=True)
        ctx.case(("flood", n), nontrivial=True)
        ctx.count("flood_scenario")
        if bad:
            ctx.violation(bad, {"scripts": L.scripts_json(scripts), "schedule": list(real.schedule), "table": m["table"], "threaded": m["threaded"],
                                "finding_key": classify(bad), "detail": bad})
    except Exception as e:  # noqa
        ctx.count("flood_scenario_error:%s" % type(e).__name__)
    finally:
        real.close()


def replay(ctx, data, m=None):
    """True iff C11 holds on the real code for this scenario + schedule (followed by a fair tail)."""
    if "scripts" not in data:
        return True
    if m is None:
        if data.get("table"):
            from .. import kj
            iface = kj.events_interface(random.Random(0), data["table"], "py")
            cs, ss = L.machine_sources(data["table"], iface)
            m = {"table": data["table"], "controller": cs, "machine": ss, "threaded": data.get("threaded", True)}
        else:
            m = fixed_machine()
    scripts = L.scripts_from_json(data["scripts"])
    real, bad = run_schedule(m, scripts, data["schedule"], fair=True)
    real.close()
    if bad:
        print("  C11 on replay: " + bad)
    return bad is None
