"""C01 -- Regenerating an unchanged model is a fixed point that keeps all user code."""
import glob
import json
import os

from .. import kj, presv
from ..check import VERIF, unjson
from ..kj import preservative, read_tree, scratch, splice, splitlines_keep, tabnorm, tag_pairs, write_tree

from ..manifest_data import PRES_NOTE  # noqa: E402

LEVEL = "proof"

MANIFEST = {
    "technique": 'Coq proof (induction over file items / regenerations) + differential correspondence model vs code',
    "text": 'Theorems C01_fixed_point / C01_iterated / C01_tree_fixed_point: for every fresh code model satisfying the boolean well-formedness, every user text and every number of regenerations the model of preserve+createoutput rewrites identical bytes. The model is executed against the real generators on every run. C01_fixed_point_shipped: for the shipped file Test.TEMPLATEStateMachine.cpp the well-formedness hypothesis is itself a theorem for ALL state-machine models with admissible names (Props/C07.v, C07_wf_out_Test_TEMPLATEStateMachine_cpp over the engine model Model/EngineSM.v), so the fixed point holds there without a per-output boolean; C01_fixed_point_shipped_cs: the same for Test.TEMPLATEStateMachine.cs; C01_fixed_point_shipped_py / _h: for the whole shipped files TEMPLATEStateMachine.py / TEMPLATEStateMachine.h, whose USER tags are all fixed text (hypothesis names_ok_py / names_ok_h, syntactic: alphanumeric names; initial state, per-state transition lists, table cells and the signature strings of the oracle free of the left brace, backslash and CR -- C07_dyn_plain_of_names); for all other generated files the boolean is evaluated on every real output.',
    "note": PRES_NOTE,
}
RULE = ("cases = (generator kind, random valid model, random subset of the tag pairs of every generated file filled with user text "
        "from the grammar of harness/kj.user_line, 2..3 regenerations); each case is run on the real generators, compared with the "
        "extracted Coq model (regen) and with the splice oracle; function-level cases compare CleanUpLine/CollectFile/Emplace with "
        "their Gallina twins; a case is non-trivial when at least one tag pair holds user text; distinct = distinct (kind, model, user text)")
ASSUMPTIONS = [
    "platform text I/O: UTF-8 locale, universal newlines on read, LF written as LF (POSIX); user text contains no CR byte",
    "every generated file's engine output satisfies the boolean well-formedness wf_fresh_file (evaluated on every captured real output; C07 is the property about it)",
]
TRUSTED = [
    "Coq 8.16.1 kernel (coqc; vm_compute used in examples and finite obligations; no native_compute)",
    "axioms: none (Print Assumptions: Closed under the global context for every theorem of Props/C01.v)",
    "translator/tags.py (CleanUpLine chain, tag prefix, LostCode constants, TAB filter -> Gen/Tags.v)",
    "extraction: ExtrOcamlBasic + ExtrOcamlNativeString only; ocaml/driver.ml",
    "modelled, not verified: CPython str.replace/find/in, text-mode open(), os.path.join, dict ordering; the engine that produces `fresh` (captured, not modelled, for this property)",
]


def fcorr(ctx):
    """Function-level correspondence: CleanUpLine, CollectFile, Emplace(replace=False)."""
    km, rng = ctx.km, ctx.rng
    n = ctx.budget(1500, 20000)
    alpha = "\t\n\\tn /*#~`@$%?+}]>={U_abSER<-\r"
    for i in range(n):
        s = "".join(rng.choice(alpha) for _ in range(rng.randint(0, 16)))
        if rng.random() < 0.4:
            j = rng.randint(0, len(s))
            s = s[:j] + "{{{USER_" + rng.choice(["X", "Y_1", "", "a b"]) + s[j:]
        a = preservative.CleanUpLine(s).encode()
        b = km.call("clean", s)
        ctx.case(("clean", s), nontrivial=(a != s.encode()))
        if a != b:
            ctx.tie_broken("correspondence CleanUpLine vs Model.Preserve.kof", {"input": s, "impl": a, "model": b})
            return
    ctx.count("f_clean", n)
    # CollectFile / Emplace on random files
    n2 = ctx.budget(300, 4000)
    with scratch() as d:
        for i in range(n2):
            lines = random_lines(rng)
            p = os.path.join(d, "f.h")
            with open(p, "wb") as f:
                f.write(b"".join(lines))
            with kj.quiet():
                pr = preservative.Preservative(p)
            impl = [[k.encode(), [x.encode() for x in v]] for k, v in pr.preserved_tags_per_file[p].items()]
            model = km.call("collect", km.call("read_lines", b"".join(lines)))
            ctx.case(("collect", tuple(lines)), nontrivial=bool(impl))
            if impl != model:
                ctx.tie_broken("correspondence CollectFile vs Model.Preserve.collect", {"lines": lines, "impl": impl, "model": model})
                return
            fresh = [l.decode() for l in random_lines(rng)]
            fl = {"f.h": list(fresh)}
            with kj.quiet():
                pr.Emplace(fl, False)
            out_impl = [x.encode() for x in fl["f.h"]]
            lost_impl = [x.encode() for k, v in fl.items() if k != "f.h" for x in v]
            out_model, lost_model = km.call("preserve1", p, [x.encode() for x in fresh], km.call("read_lines", b"".join(lines)))
            if out_impl != out_model or lost_impl != lost_model:
                ctx.tie_broken("correspondence Emplace(replace=False)+LostCode vs Model.Preserve.preserve1",
                               {"old": lines, "fresh": fresh, "impl": [out_impl, lost_impl], "model": [out_model, lost_model]})
                return
    ctx.count("f_collect_emplace", n2)


def random_lines(rng):
    tags = ["X", "Y", "XY", "Z_1"]
    res = []
    for _ in range(rng.randint(0, 10)):
        r = rng.random()
        if r < 0.4:
            t = rng.choice(tags)
            res.append(rng.choice([b"// {{{USER_%s}}}\n", b"  # {{{USER_%s\n", b"/* {{{USER_%s */\n", b"{{{USER_%s}}}\n", b"\t// {{{USER_ %s\n"]) % t.encode())
        else:
            res.append(kj.user_line(rng))
    if res and rng.random() < 0.2:
        res[-1] = res[-1].rstrip(b"\n") or b"x"
    return res


def one_case(ctx, kind, inp, user_seed, nregen, check_model=True):
    """Run one end-to-end case. Returns None if the property holds, else a dict describing the failure."""
    import random
    rng = random.Random(user_seed)
    with scratch() as d:
        out = os.path.join(d, "out")
        try:
            with presv.Capture() as cap:
                ret0 = presv.run_kind(kind, out, inp)
        except Exception as e:  # the generator rejects/crashes on this input with an empty directory: outside the domain
            ctx.count("generator_rejected_input:%s:%s" % (kind, type(e).__name__))
            return "trivial"
        fresh0 = cap.fresh
        t0 = read_tree(out)
        if check_model and ctx.km:
            for fn, ls in fresh0.items():
                wf = ctx.km.call("wf_fresh", [l.encode("utf-8", "surrogateescape") for l in ls]) == b"1"
                ctx.count("wf_fresh_true" if wf else "wf_fresh_false")
                if not wf:
                    ctx.wf_false.append((kind, inp.get("name"), os.path.basename(fn)))
        user = presv.user_blocks(rng, t0, density=rng.choice([0.3, 0.7, 1.0]))
        t1 = splice(t0, user)
        write_tree(out, t1)
        expected = {k: tabnorm(v) for k, v in t1.items()}
        prev = t1
        for r in range(nregen):
            old = presv.old_spec(out, list(fresh0.keys()))
            with presv.Capture() as cap:
                ret = presv.run_kind(kind, out, inp)
            now = read_tree(out)
            if check_model and ctx.km:
                written, returned = presv.model_regen(ctx.km, out, old, cap.fresh)
                mtree = presv.apply_model(prev, written)
                if mtree != now or sorted(returned) != sorted(ret):
                    bad = [k for k in set(mtree) | set(now) if mtree.get(k) != now.get(k)]
                    ctx.tie_broken("correspondence: real regeneration vs Model.Preserve.regen (end to end)",
                                   {"kind": kind, "input": inp, "user_seed": user_seed, "regen": r, "files": sorted(bad)[:5],
                                    "returned_model": returned, "returned_impl": ret})
                    check_model = False
            # the property itself (spec oracle: splice + TAB normalisation; byte equality)
            bad = sorted(k for k in set(expected) | set(now) if expected.get(k) != now.get(k))
            if bad or sorted(ret) != sorted(ret0):
                return {"kind": kind, "input": inp, "user_seed": user_seed, "nregen": nregen, "failed_at_regen": r + 1,
                        "files": bad[:6], "returned": ret, "finding_key": finding_key(kind, inp, bad, now, expected)}
            prev = now
        # one more regeneration in a FRESH process with another hash seed (successive regenerations are separate runs in practice)
        if user_seed % 2 == 0:
            from .c05 import runner
            hs = 1 + user_seed % 997
            res, _rc = runner(kind, inp, out, None, False, hashseed=hs)
            now = read_tree(out)
            bad = sorted(k for k in set(expected) | set(now) if expected.get(k) != now.get(k))
            if bad:
                return {"kind": kind, "input": inp, "user_seed": user_seed, "nregen": nregen, "failed_at_regen": "subprocess PYTHONHASHSEED=%d" % hs,
                        "files": bad[:6], "finding_key": finding_key(kind, inp, bad, now, expected)}
        return None if user else "trivial"


def two_dirs_case(ctx, kind, inp, user_seed):
    """The same model kept in two directories with different user code, regenerated alternately in ONE process (A, B, A, B):
    every regeneration must leave its own directory exactly as it was and know nothing of the other one."""
    import random
    rng = random.Random(user_seed)
    with scratch() as d:
        outs = [os.path.join(d, "prodA", "gen"), os.path.join(d, "prodB", "gen")]
        expected = []
        try:
            for o in outs:
                presv.run_kind(kind, o, inp)
        except Exception:  # noqa
            return "trivial"
        any_user = False
        for o in outs:
            t0 = read_tree(o)
            user = presv.user_blocks(rng, t0, density=1.0)
            any_user = any_user or bool(user)
            t1 = splice(t0, user)
            write_tree(o, t1)
            expected.append(dict(t1))     # until its first regeneration a directory holds exactly what was written into it
        for step in range(4):
            i = step % 2
            presv.run_kind(kind, outs[i], inp)
            expected[i] = {k: tabnorm(v) for k, v in expected[i].items()}
            for j in (0, 1):
                now = read_tree(outs[j])
                bad = sorted(k for k in set(expected[j]) | set(now) if expected[j].get(k) != now.get(k))
                if bad:
                    return {"kind": kind, "input": inp, "user_seed": user_seed, "two_dirs": True, "failed_at_step": step, "regenerated": "AB"[i],
                            "changed_dir": "AB"[j], "files": bad[:6], "finding_key": finding_key(kind, inp, bad, now, expected[j])}
        return None if any_user else "trivial"


def finding_key(kind, inp, bad, now, expected):
    if not bad:
        return "%s:returned-list" % kind
    f = os.path.basename(bad[0])
    return "%s:%s:%s" % (kind, inp.get("name"), f)


def run(ctx):
    ctx.wf_false = []
    # corpus first
    for p in sorted(glob.glob(os.path.join(VERIF, "corpus", "C01", "*.json"))):
        data = unjson(json.load(open(p)))
        res = one_case(ctx, data["kind"], data["input"], data["user_seed"], data["nregen"], check_model=bool(ctx.km))
        ctx.case(("corpus", p))
        ctx.count("corpus")
        if res and res != "trivial":
            ctx.violation("regeneration is not a fixed point (corpus case %s)" % os.path.basename(p), res)
    if ctx.km:
        fcorr(ctx)
    per_kind = ctx.budget(5, 120)
    for kind in presv.KINDS:
        for i in range(per_kind):
            _kw, inp = presv.random_input(ctx.rng, kind)
            inp["lang"] = kind
            user_seed = ctx.rng.randint(0, 1 << 30)
            nregen = ctx.rng.choice([2, 2, 3])
            res = one_case(ctx, kind, inp, user_seed, nregen)
            ctx.case((kind, json.dumps(inp, sort_keys=True), user_seed), nontrivial=(res != "trivial"))
            ctx.count("e2e_" + kind)
            if i == 0:
                ctx.sample({"kind": kind, "input": inp, "user_seed": user_seed, "nregen": nregen})
            if res and res != "trivial":
                ctx.violation("regeneration is not a fixed point / user code not kept", res)
        for i in range(ctx.budget(1, 6)):
            _kw, inp = presv.random_input(ctx.rng, kind)
            inp["lang"] = kind
            user_seed = ctx.rng.randint(0, 1 << 30)
            res = two_dirs_case(ctx, kind, inp, user_seed)
            ctx.case((kind, "two_dirs", json.dumps(inp, sort_keys=True), user_seed), nontrivial=(res != "trivial"))
            ctx.count("two_dirs_" + kind)
            if res and res != "trivial":
                ctx.violation("regenerating one directory changed a directory (the same model kept in two places, regenerated alternately in one process)", res)
    crlf_probe(ctx)
    if ctx.wf_false:
        uniq = sorted(set(ctx.wf_false))
        ctx.coverage_extra["wf_fresh_false_files"] = [list(x) for x in uniq[:20]]
        # the theorem's hypothesis is not met by these real outputs: the theorem does not cover them
        unknown = [x for x in uniq if not ctx.match_known({"finding_key": "wf:%s:%s:%s" % x})]
        for x in uniq:
            if ctx.match_known({"finding_key": "wf:%s:%s:%s" % x}):
                ctx.violation("", {"finding_key": "wf:%s:%s:%s" % x})
        if unknown:
            ctx.tie_broken("hypothesis wf_fresh_file of C01_fixed_point is false on real generator output", [list(x) for x in unknown[:10]])


def crlf_probe(ctx):
    """Directed probe of the recorded finding K01-crlf: a user line ending in CR LF (not a *bare* carriage return, hence inside the
    property's quantifier) is rewritten to LF by text-mode I/O on POSIX."""
    import random
    t = kj.CDPLAYER
    with scratch() as d:
        out = os.path.join(d, "o")
        iface = kj.events_interface(random.Random(1), t, "py")
        kj.generate("py", out, table=t, iface=iface, name="CD")
        t0 = read_tree(out)
        t1 = splice(t0, {("CDController.py", 0): [b"x = 1\r\n", b"y = 2\r\n"]})
        write_tree(out, t1)
        kj.generate("py", out, table=t, iface=iface, name="CD")
        t2 = read_tree(out)
    ctx.case(("crlf-probe",))
    ctx.count("crlf_probe")
    if t2.get("CDController.py") != tabnorm(t1["CDController.py"]):
        ctx.violation("user lines ending in CR LF are rewritten (LF only) by a regeneration",
                      {"kind": "py", "file": "CDController.py", "finding_key": "crlf-user-line"})


def replay(ctx, data):
    if data.get("no_failing_input_found"):
        print("this replay names obligations that no longer check:", json.dumps(data.get("no_longer_checks"), indent=1)[:3000])
        return False
    ctx.wf_false = []
    if data.get("two_dirs"):
        res = two_dirs_case(ctx, data["kind"], data["input"], data["user_seed"])
    else:
        res = one_case(ctx, data["kind"], data["input"], data["user_seed"], data["nregen"], check_model=False)
    return not (res and res != "trivial")
