"""C18 -- FileSync copies shared tag bodies and touches nothing else."""
import glob
import json
import os
import random

from .. import kj
from ..check import VERIF, unjson
from ..kj import Generate, scratch, splitlines_keep, tag_pairs
from . import c01

from ..manifest_data import PRES_NOTE  # noqa: E402

LEVEL = "proof"

MANIFEST = {
    "technique": 'Coq proof (replace-mode emplace = sync specification; idempotence) + differential correspondence',
    "text": "Theorems C18_shared_replaced_rest_untouched / C18_no_shared_tag_b_unchanged / C18_idempotent over the model of FilePreservationSyncUtil; C18_source_untouched / C18_b_receives_the_synchronised_content over its file-system operations (Model.Output.filesync_ops, compared with the traced operations of every real run).",
    "note": PRES_NOTE,
}
RULE = ("cases = pairs of files (A, B) built from a grammar: plain lines (TABs, blank-line runs, generator-tag look-alikes, EXCLUDE/"
        "EXTENDS lines), tag pairs in 5 comment styles/indentations with names that are prefixes of one another (X, XY, X_1), shared / "
        "A-only / B-only, bodies empty / blank runs / tabs, last line with or without LF; run through the real Generate.FileSync, "
        "compared with the Coq model (file_sync) and with an independent Python reading of the property (sync_spec), A must be unchanged, "
        "second sync must change nothing; non-trivial = at least one shared pair whose bodies differ")
ASSUMPTIONS = ["files are valid UTF-8 without CR; B's tags are paired, bodies contain no USER tag prefix (also not after CleanUpLine); "
               "the closing tag's cleaned text occurs in the raw opening tag line (same spelling of the name)"]
TRUSTED = c01.TRUSTED + ["harness/faults.py: the interception layer that records the file-system operations of Generate.FileSync for the comparison with Model.Output.filesync_ops"]

NAMES = ["X", "XY", "X_1", "IMPORTS", "Y", "x", "Imports"]
STYLES = [b"// {{{USER_%s}}}\n", b"    # {{{USER_%s}}}\n", b"/* {{{USER_%s */\n", b"{{{USER_%s\n", b"\t/// {{{USER_%s}}}\n"]
PLAIN = [b"x = 1\n", b"\n", b"\n", b"\n", b"\twith tab\n", b"    \n", b"<<<EXCLUDE=foo>>>\n", b"foo bar\n", b"<<<EXTENDS=other.h>>>\n",
         b"<<<IF x>>>\n", b"}\n", "grüße\n".encode(), b"a\tb\tc\n", b"  trailing  \n"]


def gen_file(rng, names):
    lines = []
    order = list(names)
    rng.shuffle(order)
    for nm in order:
        for _ in range(rng.randint(0, 3)):
            lines.append(rng.choice(PLAIN))
        lines.append(rng.choice(STYLES) % nm.encode())
        for _ in range(rng.randint(0, 4)):
            lines.append(rng.choice(PLAIN + [b"body %d\n" % rng.randint(0, 99)]))
        lines.append(rng.choice(STYLES) % nm.encode())
    for _ in range(rng.randint(0, 3)):
        lines.append(rng.choice(PLAIN))
    if lines and rng.random() < 0.3:
        lines.append(b"no newline at end")
    return b"".join(lines)


def sync_spec(a, b):
    la, lb = splitlines_keep(a), splitlines_keep(b)
    abody = {}
    for (o, c, nm) in tag_pairs(la):
        abody[nm] = la[o + 1:c]
    out = []
    pairs = {o: (c, nm) for (o, c, nm) in tag_pairs(lb)}
    i = 0
    while i < len(lb):
        out.append(lb[i])
        if i in pairs and pairs[i][1] in abody:
            c, nm = pairs[i]
            out.extend(abody[nm])
            out.append(lb[c])
            i = c + 1
        else:
            i += 1
    return b"".join(out)


def same_length_variant(rng, a):
    """a with some characters inside tag-free lines replaced by other characters: same size, different bodies"""
    out = []
    for line in a.split(b"\n"):
        if b"USER_" not in line and line and rng.random() < 0.6:
            i = rng.randrange(len(line))
            c = line[i:i + 1]
            line = line[:i] + (b"7" if c.isdigit() and c != b"7" else b"Q" if c.isalpha() and c != b"Q" else c) + line[i + 1:]
        out.append(line)
    return b"\n".join(out)


def decodable(x):
    try:
        x.decode("utf-8")
        return True
    except UnicodeDecodeError:
        return False


EXTS = [".h", ".h", ".cpp", ".py", ".cs", ".c", ".cc", ".hpp", ".java", ".txt", ""]


def one_case(ctx, a, b, check_model=True, same_mtime=False, exts=(".h", ".h")):
    if not (decodable(a) and decodable(b)):
        # a file that cannot be read as text: FileSync may refuse (raise), but whatever it does, it may not rewrite anything
        with scratch() as d:
            os.makedirs(os.path.join(d, "s"))
            A, B = os.path.join(d, "A" + exts[0]), os.path.join(d, "s", "B" + exts[1])
            open(A, "wb").write(a)
            open(B, "wb").write(b)
            try:
                with kj.quiet():
                    Generate.FileSync(A, B)
            except Exception:  # noqa
                pass
            ctx.count("undecodable_pairs")
            if open(B, "rb").read() != b or open(A, "rb").read() != a:
                return {"a": a, "b": b, "exts": list(exts), "detail": "a file that is not valid UTF-8 was rewritten by FileSync (bytes changed)", "finding_key": "sync"}
        return None
    with scratch() as d:
        os.makedirs(os.path.join(d, "s"))
        A = os.path.join(d, "A" + exts[0])
        B = os.path.join(d, "s", "B" + exts[1])
        open(A, "wb").write(a)
        open(B, "wb").write(b)
        if same_mtime:     # files restored from an archive / copied with their timestamps: metadata says nothing about content
            os.utime(A, (1000000000, 1000000000))
            os.utime(B, (1000000000, 1000000000))
        Bp = B
        trace = None
        if check_model and ctx.km:
            from .. import faults
            faults.TRACE_ALL.clear()
            un = faults.install({}, None)
            try:
                with kj.quiet():
                    Generate.FileSync(A, B)
            finally:
                un()
            trace = [list(x) for x in faults.TRACE_ALL]
        else:
            with kj.quiet():
                Generate.FileSync(A, B)
        b1 = open(B, "rb").read()
        a1 = open(A, "rb").read()
        with kj.quiet():
            Generate.FileSync(A, B)
        b2 = open(B, "rb").read()
        others = sorted(p for p in kj.read_tree(d) if p not in ("A" + exts[0], "s/B" + exts[1]) and not p.endswith(".LostCode.txt"))
    if check_model and ctx.km and trace is not None:
        mops = [[k.decode(), x.decode("utf-8", "surrogateescape"), y.decode("utf-8", "surrogateescape")] for k, x, y in ctx.km.call("filesync_ops", Bp, a, b)]
        ok = ctx.km.call("filesync_jobs_ok", Bp, a, b) == b"1"
        ctx.count("jobs_ok_true" if ok else "jobs_ok_false")
        if mops != trace:
            ctx.tie_broken("correspondence: traced file-system operations of Generate.FileSync vs Model.Output.filesync_ops",
                           {"a": a, "b": b, "impl": trace[:6], "model": mops[:6], "lengths": [len(trace), len(mops)]})
    if check_model and ctx.km:
        m = ctx.km.call("file_sync", a, b)
        if m != b1:
            ctx.tie_broken("correspondence: Generate.FileSync vs Model.Preserve.file_sync", {"a": a, "b": b, "impl": b1, "model": m})
    exp = sync_spec(a, b)
    if b1 != exp:
        return {"a": a, "b": b, "got": b1, "expected": exp, "detail": "B differs from B with shared bodies replaced", "finding_key": "sync"}
    if a1 != a:
        return {"a": a, "b": b, "detail": "A was modified", "finding_key": "sync"}
    if b2 != b1:
        return {"a": a, "b": b, "detail": "second synchronisation changed B again", "finding_key": "sync"}
    if others:
        return {"a": a, "b": b, "detail": "unexpected files written: %r" % others, "finding_key": "sync"}
    return None


def multi_case(ctx, pairs, rounds=2):
    """Several (A, B) pairs whose targets have the same base name in different directories, synchronised one after the other in ONE
    process, the whole list `rounds` times: every synchronisation must give what it gives on its own."""
    with scratch() as d:
        paths = []
        for k, (a, b) in enumerate(pairs):
            os.makedirs(os.path.join(d, "m%d" % k, "src"))
            A = os.path.join(d, "m%d" % k, "Impl.cpp")
            B = os.path.join(d, "m%d" % k, "src", "Impl.cpp")
            open(A, "wb").write(a)
            open(B, "wb").write(b)
            paths.append((A, B))
        for r in range(rounds):
            for k, ((a, b), (A, B)) in enumerate(zip(pairs, paths)):
                with kj.quiet():
                    Generate.FileSync(A, B)
                got = open(B, "rb").read()
                exp = sync_spec(a, b)
                if got != exp:
                    return {"pairs": [[a, b] for a, b in pairs], "multi": True, "round": r, "pair": k, "got": got, "expected": exp,
                            "detail": "pair %d, round %d of a list of synchronisations in one process: B differs from B with shared bodies replaced" % (k, r),
                            "finding_key": "sync"}
                for k2, ((a2, _b2), (A2, _B2)) in enumerate(zip(pairs, paths)):
                    if open(A2, "rb").read() != a2:
                        return {"pairs": [[a, b] for a, b in pairs], "multi": True, "detail": "a source file was modified", "finding_key": "sync"}
    return None


def run(ctx):
    for i in range(ctx.budget(12, 300)):
        rng = ctx.rng
        names = rng.sample(NAMES, rng.randint(1, 4))
        pairs = [(gen_file(rng, names), gen_file(rng, names)) for _ in range(rng.randint(2, 3))]
        res = multi_case(ctx, pairs)
        ctx.case(("multi", tuple(pairs)), nontrivial=True)
        ctx.count("multi_sync_lists")
        if res:
            ctx.violation(res["detail"], res)
    for p in sorted(glob.glob(os.path.join(VERIF, "corpus", "C18", "*.json"))):
        data = unjson(json.load(open(p)))
        ctx.case(("corpus", p))
        if not replay(ctx, data):
            ctx.violation("corpus case %s fails" % os.path.basename(p), data)
    n = ctx.budget(400, 10000)
    for i in range(n):
        rng = ctx.rng
        na = rng.sample(NAMES, rng.randint(0, 4))
        nb = rng.sample(NAMES, rng.randint(0, 4))
        a, b = gen_file(rng, na), gen_file(rng, nb)
        if rng.random() < 0.15:
            b = same_length_variant(rng, a)
            nb = na
        sm = rng.random() < 0.3
        if rng.random() < 0.08:       # bytes of another encoding (Latin-1 copyright line) in one of the two files
            if rng.random() < 0.6:
                b = b"// Copyright \xa9 2015 J\xfcrgen\n" + b
            else:
                a = a + b"// gr\xfc\xdfe\n"
        exts = (rng.choice(EXTS), rng.choice(EXTS))
        res = one_case(ctx, a, b, same_mtime=sm, exts=exts)
        if res:
            res["same_mtime"] = sm
            res["exts"] = list(exts)
        shared = set(na) & set(nb)
        ctx.case((a, b), nontrivial=bool(shared))
        ctx.count("shared_%d" % len(shared))
        if i < 2:
            ctx.sample({"a": a, "b": b})
        if res:
            ctx.violation(res["detail"], res)


def replay(ctx, data):
    if data.get("no_failing_input_found"):
        print(json.dumps(data.get("no_longer_checks"), indent=1)[:3000])
        return False
    if data.get("multi"):
        return multi_case(ctx, [tuple(x) for x in data["pairs"]]) is None
    return one_case(ctx, data["a"], data["b"], check_model=False, same_mtime=bool(data.get("same_mtime")), exts=tuple(data.get("exts") or (".h", ".h"))) is None
