"""C08 -- The generated Python state machine executes exactly the transition table."""
import ast
import glob
import json
import os
import re
import subprocess
import sys

from .. import kj, smlib
from ..check import VERIF, unjson
from ..kj import scratch

LEVEL = "proof"

MANIFEST = {
    "technique": "Coq proof (template-shape expansion, Python block-rule parser lemma, big-step semantics vs table interpreter) + translation validation of the generated module + execution against the interpreter",
    "text": ("Theorems C08_sem / C08_sem_triggered / C08_init / C08_block_structure / C08_name_domain: for every well-formed table, every event sequence and every guard oracle "
             "(indexed by call count) the lines smgen produces from the shipped template's transition blocks (shape regenerated from the "
             "template into Gen/PyTmpl.v on every run) parse by Python's block rule, and the parsed program makes exactly the callbacks and "
             "passes through exactly the states of the independent table interpreter (Spec/TableInterp.v). Tie: gen_py T equals the "
             "abstraction (indentation + statement kind per line) of the real generated __init__/process* code; parse_indent agrees with "
             "CPython's ast.parse (also on perturbed indentation); CTransitionTableModel vs Model/TTable.v; the real modules are imported in a "
             "subprocess and driven through Trigger<Event> under a tracing controller subclass and compared with the interpreter. "
             "WHOLE FILE (C08_sem_engine_whole, C08_whole_file_is_shipped): the shipped TEMPLATEStateMachine.py as a whole is inside the C16 grammar; the signature strings of the events (get_event_signature, printed by LanguagePython) are an INTERFACE ORACLE -- a parameter of model and theorem, read per case from the real Language object; for every table / interface / oracle / user-tag assignment admitted for the file (py_file_wf, evaluated per case) the pipeline writes Lpre ++ L with L reading line by line as the process part of gen_py and items 34/40/41 as its constructor part; the real <Name>StateMachine.py is compared AS A WHOLE with the reference on every case. " 
             "ENGINE BRIDGE (C08_sem_engine_full, C08_sem_engine, C08_block_structure_engine, C08_ref_reads, C08_init_reads, C08_wf_table_admitted): for every well-formed table the "
             "file the engine model's pipeline writes from the State Processing region of the SHIPPED template (Model/PyRender.py_proc16: the "
             "lines of Gen/Templates.v from def process on, read into the template syntax of C16, checked to render back and to lie in "
             "in_grammar16) is a sequence of lines that read one by one (reads: indentation ++ Python statement of the abstract atom; blank / "
             "comment / print lines recognised) as the process part of gen_py, which then parses and executes the table; no per-table side "
             "condition (wf_table implies the engine theorem's name conditions). The real module's text from def process on is compared with "
             "ref16 of that region on every case."),
    "note": ("Proved about the model of the template as repaired by two fix: commits (unguarded rows get 'if True:'; process() ends in "
             "NoTransition). Modelled, not verified: CPython executing if/return/method calls as the big-step semantics says; the construction of the event object in "
             "Trigger<Event> (that Trigger calls process(event) synchronously exactly once when StateMachineThread=0 is now part of the theorem, "
             "C08_sem_triggered, from the IR of Gen/PySync.v; threaded delivery is C11); isinstance on distinct event classes = name equality. "
             "The three behaviour-deciding constructor lines (def, entry callback and assignment of <<<STATE_0>>>; selected from the shipped file like translator/pytmpl.py does: PyRender.py_init16) go through the engine too (C08_sem_engine_full, C08_init_reads; filterInitialState is part of the C16 grammar), compared with the real text on every case. The process region and the constructor lines are run through the engine model as templates of their own (the whole shipped file is outside the C16 grammar: SIGNATURE, TTT_BOOST_SML, user tags); that the real engine produces these texts inside the whole file is now the theorem C08_sem_engine_whole (with the signature oracle). "
             "Names: the theorems carry the hypothesis py_names_ok (no table name is one of the template module's bare names); that list is computed from the template "
             "by translator/pytmpl.py on every run (which also requires the controller's star import to be the FIRST import), pinned by C08_name_domain, used by the case "
             "generator, and every reserved name is probed on the real code as an event with a parameter."),
}
RULE = ("random well-formed tables biased to several rows per (state,event) mixing guarded rows and unguarded fallbacks in both orders, "
        "repeated rows, self loops, target-only states, rows without target, spellings None/none/''/NONE/nOnE; random event parameter "
        "interfaces incl. events the table never mentions; random event sequences (length 0..14, incl. unknown events) and random guard bit "
        "strings indexed by call count. non-trivial = at least one guard evaluated or one transition fired or NoTransition reached in a "
        "target-only state; distinct = (table, interface, events, bits)")
ASSUMPTIONS = ["wf_table: non-empty table; start state and event are UpperCamelCase alphanumeric identifiers, next/action/guard are such identifiers or an "
               "absent spelling ('' or any capitalisation of 'none'); True/False excluded; states/events/actions/guards pairwise disjoint",
               "non-threaded delivery (user tag StateMachineThread=0); the threaded queue is property C11",
               "py_names_ok: no state/event/action/guard is one of the template module's bare names (Gen/PyTmpl.v py_reserved_names: Enum, EventStartup, auto, queue, threading, unique) "
               "nor <Name>StateId / <Name>StateMachine; NoTransition, On<State>Entry/Exit of another state, process<State> likewise"]
TRUSTED = ["INTERFACE ORACLE: the signature strings smgen.get_event_signature(name, False/True) (LanguagePython.ParameterString / GetFactoryCreateParams) enter C08_sem_engine_whole as the parameter sigs; the harness reads them from the real Language object on every case",
           "Coq 8.16.1 kernel (coqc; coqchk in the thorough tier)", "axioms: none",
           "translator/pytmpl.py (regex classification of the template's __init__ tail and State Processing section, fail closed)",
           "extraction: ExtrOcamlBasic + ExtrOcamlNativeString; ocaml/cmds_sm.ml",
           "harness abstraction of generated Python lines to (indent, kind, name) by regex",
           "translator/pysync.py (IR of Trigger<Event>, shared with C11)",
           "modelled, not verified: CPython's execution of if/return/method calls and isinstance; event = <Event>(args) in Trigger<Event>"]
ALLOWED_AXIOMS = []

PY = sys.executable

DRIVER = r'''
import sys, json, io, contextlib, importlib
spec = json.load(sys.stdin)
name = spec["name"]
res = {"import": None, "steps": [], "error": None}
buf = io.StringIO()
sys.path.insert(0, ".")
try:
    with contextlib.redirect_stdout(buf):
        ctrl_mod = importlib.import_module(name + "Controller")
        sm_mod = importlib.import_module(name + "StateMachine")
        test_mod = importlib.import_module("Test" + name + "StateMachine")
    res["import"] = "ok"
except BaseException as e:
    res["import"] = "%s: %s" % (type(e).__name__, e)
    print(json.dumps(res)); sys.exit(0)
try:
    Base = getattr(ctrl_mod, name + "Controller")
    trace = []
    bits = spec["bits"]; count = [0]
    def wrap(mname, is_guard):
        def f(self, event):
            trace.append([mname, type(event).__name__, {k: v for k, v in vars(event).items()}])
            if is_guard:
                i = count[0]; count[0] += 1
                return bits[i] if i < len(bits) else False
            return None
        return f
    ns = {}
    for attr in dir(Base):
        if not attr.startswith("_") and callable(getattr(Base, attr)):
            ns[attr] = wrap(attr, attr in spec["guards"])
    Tr = type("Tracing", (Base,), ns)
    with contextlib.redirect_stdout(buf):
        sm = getattr(sm_mod, name + "StateMachine")(Tr())
        res["steps"].append([list(trace), [s for s in spec["states"] if getattr(sm, "Is" + s)()]])
        del trace[:]
        for ev, args in spec["events"]:
            getattr(sm, "Trigger" + ev)(*args)
            res["steps"].append([list(trace), [s for s in spec["states"] if getattr(sm, "Is" + s)()]])
            del trace[:]
except BaseException as e:
    res["error"] = "%s: %s" % (type(e).__name__, e)
print(json.dumps(res))
'''

NAME = "X"

KNOWN_PROBES = [
    ([["S", "E", "S", "None", "Is"]], [["E", []]], "py-guard-lowercamel-keyword"),
    ([["S", "E", "T", "OnA", "In"]], [["E", []]], "py-guard-lowercamel-keyword"),
    ([["S", "Enum", "T", "OnA", "None"]], [["Enum", []]], "py-event-named-Enum"),
]


def abstract_line(text, table):
    """(kind, name) of one generated line (stripped), or None if unknown."""
    st, _ev, ac, _gu = smlib.names(table)
    pats = [
        (r"def __init__\(self, controller\):", "def", lambda m: "__init__"),
        (r"def process\(self, event\) -> None:", "def", lambda m: "process"),
        (r"def (process\w+)\(self, event\) -> None:", "def", lambda m: m.group(1)),
        (r"self\.context\.On(\w+)Entry\(EventStartup\(\)\)", "entry0", lambda m: m.group(1)),
        (r"if self\.currentState == %sStateId\.c(\w+):" % NAME, "ifstate", lambda m: m.group(1)),
        (r"self\.currentState = %sStateId\.c(\w+)" % NAME, "setstate", lambda m: m.group(1)),
        (r"self\.process(\w+)\(event\)", "callstate", lambda m: m.group(1)),
        (r"return", "return", lambda m: ""),
        (r"if isinstance\(event, (\w+)\):", "ifevent", lambda m: m.group(1)),
        (r"if self\.context\.(\w+)\(event\):", "ifguard", lambda m: m.group(1)),
        (r"if True:", "iftrue", lambda m: ""),
        (r"self\.context\.NoTransition\(event\)", "notrans", lambda m: ""),
    ]
    for rx, kind, f in pats:
        m = re.fullmatch(rx, text)
        if m:
            return kind, f(m)
    m = re.fullmatch(r"self\.context\.(\w+)\(event\)", text)
    if m:
        meth = m.group(1)
        if meth in ac:
            return "action", meth
        mm = re.fullmatch(r"On(\w+)Exit", meth)
        if mm and mm.group(1) in st:
            return "exit", mm.group(1)
        mm = re.fullmatch(r"On(\w+)Entry", meth)
        if mm and mm.group(1) in st:
            return "entry", mm.group(1)
        return "action", meth
    if text == "" or text.startswith("#") or re.fullmatch(r"print\(.*\);?", text):
        return "skip", ""
    return None


def abstract_module(src, table):
    """The behaviour-deciding lines of the real generated <Name>StateMachine.py as [indent, kind, name] (skips dropped)."""
    lines = src.split("\n")
    out = []
    region = None
    for raw in lines:
        text = raw.strip(" ")
        ind = len(raw) - len(raw.lstrip(" "))
        if text.startswith("def "):
            if text.startswith("def process("):
                region = "process"
            elif region != "process":
                region = "init" if text.startswith("def __init__(") else None
        if region == "process":
            a = abstract_line(text, table)
            if a is None:
                return None, "unknown line %r" % raw
            if a[0] != "skip":
                out.append([str(ind), a[0], a[1]])
        elif region == "init":
            a = abstract_line(text, table)
            if a is not None and a[0] in ("def", "entry0", "setstate"):
                out.append([str(ind), a[0], a[1]])
    return out, None


def model_lines(ctx, table):
    res = []
    for i, k, n in ctx.km.call("gen_py", table):
        if k != b"skip":
            res.append([i.decode(), k.decode(), n.decode()])
    return res


def render(lines):
    """Python text with the block structure of abstract lines (for ast.parse); every line shifted right by one."""
    out = ["class C:"]
    for i, k, _n in lines:
        pad = " " * (int(i) + 1)
        if k == "def":
            out.append(pad + "def f(self):")
        elif k in ("ifstate", "ifevent", "ifguard", "iftrue"):
            out.append(pad + "if x:")
        elif k == "return":
            out.append(pad + "return")
        elif k == "skip":
            out.append(pad + "# c")
        else:
            out.append(pad + "f()")
    return "\n".join(out) + "\n"


def cpython_parses(text):
    try:
        ast.parse(text)
        return True
    except SyntaxError:   # IndentationError is a subclass
        return False


def event_args(rng, spec, ev):
    for nm, mem in spec["structs"]:
        if nm == ev:
            return [rng.randint(0, 99) for _ in mem], [m[0] for m in mem]
    return [], []


def run_real(table, spec, evs_with_args, bits):
    """Generate, import and drive the real module; returns (driver result dict, source text)."""
    st, _ev, _ac, gu = smlib.names(table)
    with scratch() as d:
        iface = smlib.build_iface(spec)
        kj.generate("py", d, table=table, iface=iface, name=NAME)
        with open(os.path.join(d, NAME + "StateMachine.py")) as f:
            src = f.read()
        req = {"name": NAME, "bits": bits, "guards": gu, "states": st, "events": evs_with_args}
        p = subprocess.run([PY, "-c", DRIVER], input=json.dumps(req).encode(), cwd=d, stdout=subprocess.PIPE,
                           stderr=subprocess.PIPE, timeout=60, env={"PATH": os.environ.get("PATH", ""), "PYTHONHASHSEED": "0"})
        try:
            res = json.loads(p.stdout.decode().strip().split("\n")[-1])
        except Exception:  # noqa
            res = {"import": "driver crashed: " + p.stderr.decode()[-400:], "steps": [], "error": None}
        return res, src


def expected_names(steps):
    """interpreter steps -> [[method name, event class], ...] per step and the state."""
    out = []
    for cbs, st in steps:
        tr = []
        for kind, nm, e in cbs:
            meth = {"guard": nm, "action": nm, "exit": "On%sExit" % nm, "entry": "On%sEntry" % nm, "notrans": "NoTransition"}[kind]
            tr.append([meth, e])
        out.append((tr, st))
    return out


def observe(ctx, table, spec, evs_with_args, bits):
    """The property on the real code: None if it holds, else a description. Oracle: Spec/TableInterp.v through kmodel and,
    independently, smlib.py_table_interp (they must agree with each other as well)."""
    evs = [e for e, _a in evs_with_args]
    want = smlib.py_table_interp(table, evs, bits)
    if ctx.km is not None:
        spec_steps = smlib.km_steps(ctx.km.call("table_interp", table, evs, smlib.bits_arg(bits)))
        if spec_steps != want:
            ctx.tie_broken("Spec/TableInterp.table_interp vs the Python reading of the property", {"table": table, "events": evs, "bits": bits})
    res, src = run_real(table, spec, evs_with_args, bits)
    if res["import"] != "ok":
        return "generated modules do not import: %s" % res["import"], src
    if res["error"]:
        return "driving the generated machine raised %s" % res["error"], src
    exp = expected_names(want)
    if len(res["steps"]) != len(exp):
        return "wrong number of steps", src
    members = {nm: [m[0] for m in mem] for nm, mem in spec["structs"]}
    for i, ((tr, iss), (etr, est)) in enumerate(zip(res["steps"], exp)):
        got = [[m, e] for m, e, _v in tr]
        if got != etr:
            return "step %d (%s): callbacks %r, the table says %r" % (i, "init" if i == 0 else evs[i - 1], got, etr), src
        if iss != [est]:
            return "step %d: Is<State>() true for %r, the table says %r" % (i, iss, est), src
        if i > 0:
            ev, args = evs_with_args[i - 1]
            payload = dict(zip(members.get(ev, []), args))
            for _m, _e, v in tr:
                if v != payload:
                    return "step %d: callback received event members %r, triggered with %r" % (i, v, payload), src
    return None, src


def one_case(ctx, table, spec, evs_with_args, bits, correspond=True):
    """Returns (failure description or None, nontrivial)."""
    if ctx.km is not None:
        if ctx.km.call("tt_wf", table) != b"1":
            ctx.tie_broken("generator produced a table outside wf_table", {"table": table})
            return None, False
    fail, src = observe(ctx, table, spec, evs_with_args, bits)
    if correspond and ctx.km is not None and src is not None:
        real, why = abstract_module(src, table)
        model = model_lines(ctx, table)
        if real is None:
            ctx.tie_broken("abstraction of the generated Python failed: " + why, {"table": table})
        elif real != model:
            diff = next((i for i, (a, b) in enumerate(zip(real, model)) if a != b), min(len(real), len(model)))
            ctx.tie_broken("correspondence generated process*/__init__ lines vs PySM.gen_py",
                           {"table": table, "first_difference": diff, "real": real[diff:diff + 3], "model": model[diff:diff + 3]})
        else:
            mp = ctx.km.call("py_parses", model) == b"1"
            cp = cpython_parses(src)
            if mp != cp:
                ctx.tie_broken("correspondence PySM.parse_indent vs CPython ast.parse on the generated module", {"table": table, "model": mp, "cpython": cp})
        # the text: the real file from "def process" on is the reference expansion (Spec/RefExpand16.ref16, = the engine by
        # C16_engine_is_ref_table) of the shipped region in the Coq template syntax, whose lines read as gen_py (C08_engine_reads)
        start = src.find("    def process(self, event) -> None:\n")
        rows = [list(r) for r in table]
        if start < 0:
            ctx.tie_broken("generated module has no def process", {"table": table})
        else:
            ref = ctx.km.call("py.proc_ref", rows, [], [], []).decode("utf-8", "surrogateescape")
            ctx.count("process_region_text_compared")
            if src[start:] != ref:
                ctx.tie_broken("the process region of the generated module differs from ref16 of the shipped region (Model/PyRender.py_proc16)",
                               {"table": table, "real": src[start:][:1500], "ref16": ref[:1500]})
            iref = ctx.km.call("py.init_ref", rows, [], [], []).decode("utf-8", "surrogateescape").split("\n")
            ilines = [l for l in src[:start].split("\n") if l == "    def __init__(self, controller):" or ("self.context.On" in l and "Entry(EventStartup())" in l)
                      or l.startswith("        self.currentState = ")]
            if ilines + [""] != iref:
                ctx.tie_broken("the constructor's initial-state lines of the generated module differ from ref16 of Model/PyRender.py_init16",
                               {"table": table, "real": ilines, "ref16": iref})
            # THE WHOLE FILE (C08_sem_engine_whole): the real module as a whole is ref16 of the whole shipped template, the signature strings of the
            # events being the interface oracle (read from the real Language object)
            from .. import engine_e2e as e2e
            from kojen import LanguagePython
            iface_w = smlib.build_iface(spec)
            structs_w, protos_w, msgs_w = e2e.iface_parts(iface_w)
            lang = LanguagePython.LanguagePython()
            evs_all = []
            for r0 in table:
                if r0[1] != "" and r0[1].lower() != "none" and r0[1] not in evs_all:
                    evs_all.append(r0[1])
            evs_all += [n for n in structs_w if n not in evs_all]
            def sig_of(nm, wd):
                for st in iface_w.All():
                    if st.Name == nm:
                        return lang.ParameterString(lang.GetFactoryCreateParams(st, iface_w, wd))
                return ""
            sigs = [[nm, sig_of(nm, False), sig_of(nm, True)] for nm in evs_all]
            ut = [[k, "" if v is None else str(v)] for k, v in spec.get("usertags", {}).items()]
            if ctx.km.call("py.file_wf", rows, structs_w, protos_w, msgs_w, sigs, ut) == b"1":
                ctx.count("whole_file_inside_domain")
                whole = ctx.km.call("py.file_ref", rows, structs_w, protos_w, msgs_w, sigs, ut).decode("utf-8", "surrogateescape")
                if whole != src:
                    kk = next((j for j, (x, y) in enumerate(zip(whole, src)) if x != y), min(len(whole), len(src)))
                    ctx.tie_broken("the generated StateMachine.py differs from ref16 of the whole shipped template (Model/PyRender.py_file16)",
                                   {"table": table, "sigs": sigs, "at": kk, "real": src[max(0, kk - 100):kk + 150], "ref16": whole[max(0, kk - 100):kk + 150]})
            else:
                ctx.count("whole_file_outside_domain")
            if ctx.km.call("py.proc_reads", rows, [], [], []) != b"1":
                ctx.tie_broken("py_proc_reads false although C08_ref_reads is proved", {"table": table})
        # the model's own run agrees with the spec on this case (re-evaluates the theorem's instance outside Coq)
        evs = [e for e, _a in evs_with_args]
        r = ctx.km.call("run_py", table, evs, smlib.bits_arg(bits))
        if r[0] != b"ok" or smlib.km_steps(r[1]) != smlib.km_steps(ctx.km.call("table_interp", table, evs, smlib.bits_arg(bits))):
            ctx.tie_broken("extracted run_py (gen_py T) differs from extracted table_interp although C08_sem is proved", {"table": table, "events": evs, "bits": bits})
    want = smlib.py_table_interp(table, [e for e, _a in evs_with_args], bits)
    nontrivial = any(k in ("guard", "exit", "action") for cbs, _s in want[1:] for k, _n, _e in cbs) or \
        any(s not in {r[0] for r in table} for _c, s in want)
    return fail, nontrivial


def parser_case(ctx, rng, table):
    """parse_indent vs ast.parse on the model's lines with perturbed indentation (validates the parser model incl. failures)."""
    lines = [[i.decode(), k.decode(), n.decode()] for i, k, n in ctx.km.call("gen_py", table)]
    for _ in range(rng.randint(0, 3)):
        j = rng.randrange(len(lines))
        lines[j] = [str(max(0, int(lines[j][0]) + rng.choice([-8, -4, -2, 2, 4, 8]))), lines[j][1], lines[j][2]]
    if rng.random() < 0.3:
        j = rng.randrange(len(lines))
        del lines[j]
    if rng.random() < 0.2:
        j = rng.randrange(len(lines))
        lines.insert(j, [str(rng.choice([0, 4, 8, 12, 16, 20])), rng.choice(["iftrue", "return", "action", "skip"]), "Z"])
    mp = ctx.km.call("py_parses", lines) == b"1"
    cp = cpython_parses(render(lines))
    ctx.count("parser_case_accepts" if cp else "parser_case_rejects")
    if mp != cp:
        ctx.tie_broken("correspondence PySM.parse_indent vs CPython ast.parse (perturbed indentation)", {"lines": lines, "model": mp, "cpython": cp})


def reserved_names():
    """py_reserved_names of Gen/PyTmpl.v (what translator/pytmpl.py computed from the template on this run)."""
    try:
        text = open(os.path.join(VERIF, "coq", "theories", "Gen", "PyTmpl.v")).read()
    except OSError:
        return []
    m = re.search(r"py_reserved_names : list string := \[(.*?)\]\.", text)
    return ["".join(chr(int(x)) for x in b.split(";") if x) for b in re.findall(r"bs \[([0-9;]*)\]", m.group(1))] if m else []


def gen_case(rng):
    res = set(reserved_names())
    while True:
        table = smlib.random_table(rng)
        if not (set(sum(smlib.names(table), [])) & res):      # inside the theorem's name domain (py_names_ok)
            break
    spec = smlib.random_iface_spec(rng, table, "py", {"StateMachineThread": "0"}, extra_events=rng.choice([0, 0, 1]))
    evnames = smlib.names(table)[1] + [nm for nm, _m in spec["structs"] if nm not in smlib.names(table)[1]]
    evs = []
    for _ in range(rng.randint(0, 14)):
        e = rng.choice(evnames)
        args, _ = event_args(rng, spec, e)
        evs.append([e, args])
    bits = [rng.random() < 0.5 for _ in range(48)]
    return table, spec, evs, bits


def run(ctx):
    for p in sorted(glob.glob(os.path.join(VERIF, "corpus", "C08", "*.json"))):
        data = unjson(json.load(open(p)))
        ctx.case(("corpus", p))
        ctx.count("corpus")
        if not replay(ctx, data):
            ctx.violation("corpus case %s fails" % os.path.basename(p), dict(data, finding_key=data.get("finding_key", "corpus:" + os.path.basename(p))))
    # known defects outside the proof's name abstraction: reproduced on the real code on every run
    nothread = {"structs": [], "usertags": {"StateMachineThread": "0"}}
    for table, evs, key in KNOWN_PROBES:
        fail, _src = observe(ctx, table, nothread, evs, [True] * 4)
        ctx.case(("known-probe", key))
        ctx.count("known_probe")
        if fail:
            ctx.violation(fail, {"table": table, "iface": nothread, "events": evs, "bits": [True] * 4, "finding_key": key})
    # every reserved bare name of the template (Gen/PyTmpl.v) that a table could use, probed as an event with one parameter:
    # outside the theorem's domain by py_names_ok; what happens on the real code is reported (known for Enum, EventStartup)
    probe = list(reserved_names())
    try:    # also when the translator refused (stale Gen): the names the template binds NOW, read without refusing
        from translator import pytmpl
        with open(os.path.join(kj.REPO, pytmpl.SOURCE)) as fh:
            probe += [x for x in pytmpl.scan_names(fh.read())[0] if x not in probe]
    except Exception:  # noqa
        pass
    for nm in probe:
        if not re.fullmatch(r"[A-Z][A-Za-z0-9]*", nm):
            continue
        table = [["S", nm, "T", "OnA", "None"]]
        spec = {"structs": [[nm, [["m0", "int", None]]]], "usertags": {"StateMachineThread": "0"}}
        fail, _src = observe(ctx, table, spec, [[nm, [7]]], [])
        ctx.case(("reserved-name-probe", nm))
        ctx.count("reserved_name_probe")
        if fail:
            ctx.violation("event named %s (a bare name of the template's module): %s" % (nm, fail),
                          {"table": table, "iface": spec, "events": [[nm, [7]]], "bits": [], "finding_key": "py-event-named-" + nm})
    n = ctx.budget(500, 7000)
    for i in range(n):
        table, spec, evs, bits = gen_case(ctx.rng)
        fail, nontrivial = one_case(ctx, table, spec, evs, bits)
        ctx.case((json.dumps(table), json.dumps(spec, sort_keys=True), json.dumps(evs), bits), nontrivial=nontrivial)
        for tg in smlib.shape_tags(table):
            ctx.count(tg)
        ctx.count("rows_%d" % min(len(table), 10))
        if i < 2:
            ctx.sample({"table": table, "iface": spec, "events": evs, "bits": bits[:12]})
        if fail:
            small = smlib.shrink_rows(table, lambda t: observe(ctx, t, spec, [ev for ev in evs if ev[0] in smlib.names(t)[1] or ev[0].startswith("Extra")], bits)[0] is not None)
            evs2 = [ev for ev in evs if ev[0] in smlib.names(small)[1] or ev[0].startswith("Extra")]
            ctx.violation(fail, {"table": small, "iface": spec, "events": evs2, "bits": bits, "finding_key": "py-behaviour",
                                 "original_table": table, "original_events": evs})
    if ctx.km is not None:
        m = ctx.budget(1500, 20000)
        for i in range(m):
            table = smlib.random_table(ctx.rng, collide=(i % 5 == 0))
            smlib.ttmodel_case(ctx, table)
            parser_case(ctx, ctx.rng, table)
            ctx.case(("parser", i, json.dumps(table)), nontrivial=True)
            ctx.count("ttmodel_and_parser_cases")


def replay(ctx, data):
    if data.get("no_failing_input_found"):
        print(json.dumps(data.get("no_longer_checks"), indent=1)[:3000])
        return False
    fail, _src = observe(ctx, data["table"], data["iface"], data["events"], data["bits"])
    if fail:
        print("replay:", fail)
    return fail is None
