"""C12 -- Protocol structs are padding-free; factories yield declared header and defaults; arguments land in their fields."""
import contextlib
import glob
import json
import os
import random
import struct
from concurrent.futures import ThreadPoolExecutor

from .. import kj, layoutgen as lg
from ..check import VERIF, unjson

LEVEL = "proof"

MANIFEST = {
    "technique": "Coq proof over a model of the emitted C++ (GCC struct layout + aggregate initialisation) + translation validation "
                 "of the generated headers + compiled sizeof/offsetof/byte-dump probe against an independent packing",
    "text": "Theorems C12_compiles_in_model / C12_packed / C12_defaults / C12_args (+ _struct variants, C12_arg_in_field) for ALL "
            "interfaces satisfying the boolean wf_iface (any number of structs nested to any depth, any member lists, any defaults "
            "inside their type, any 16-bit ids/preamble): the program emitted by the model of kojentypes/LanguageCPP "
            "(Model/ProtoLang.emit) has, under the model of GCC's layout and of C++ aggregate initialisation (Model/Layout), "
            "sizeof = sum of member sizes, offsets = running sums in declaration order, alignof = 1 for the header, every struct "
            "and every message, and every factory called with its first k arguments returns header {preamble,id,sizeof-8} ++ "
            "the arguments ++ the declared defaults (zero where none) of the remaining members through any depth. "
            "Tie: translator/layoutsrc.py regenerates Gen/LayoutSrc.v (header name/fields from kojentypes.MessageHeader, integer typedefs "
            "of basetypes.h) and C12_source_constants re-proves that the model's constants are the source's; on every run the real generated Protocol.h/<cls>.h/<cls>.cpp are abstracted by regex to the model's abstract "
            "program and must equal emit(I) (declarations, packed attributes, parameter lists, default texts, return statements); "
            "a probe compiled with g++ against the real headers prints sizeof/alignof/offsetof and the bytes of every factory result "
            "(no / all / some arguments), which must equal both the extracted model and an independent Python struct packing.",
    "note": "PARTIAL for 'the generated C++ compiles': proved only as 'the model of C++ assigns the program a meaning' "
            "(build_env/call return Some); acceptance by g++ is observed on every case. Trusted: Coq kernel, extraction, "
            "the model of GCC layout / aggregate initialisation / literal conversion (tied by the probes and by a literal "
            "differential against Python and g++), the regex abstraction of the generated text, g++ 14 on x86-64. "
            "Domain restrictions (wf_iface) where kojen has no check are listed under assumptions; inputs outside it that break "
            "the property as literally stated are reported as known findings K-C12-*.",
}
RULE = ("interface descriptions from harness/layoutgen.gen_desc (0..8 structs nested to depth 0..5, 1..4 messages with 0..5 members, all "
        "eleven primitive types, defaults absent / falsy / decimal / hex / bool / decimal-float literals incl. non-representable "
        "ones at every level, ids and preambles over the whole uint16 range, enums, defines, namespace and class names) plus "
        "kj.random_proto_interface; each is built with the real kojentypes API, generated with the real Generate.Protocol, "
        "abstracted, and probed with g++; every struct/message factory is called with 0, all and a random number of leading "
        "arguments holding random object bytes. non-trivial = nesting depth >= 1 or a declared default; distinct = distinct "
        "(description, argument seed)")
ASSUMPTIONS = [
    "wf_iface (boolean, evaluated on every case): preamble and message ids are integers in 0..65535 (kojen does not check; larger "
    "values do not compile: K-C12-1)",
    "every struct has at least one member (an empty C++ struct has size 1, and as a member it gets no default argument: K-C12-2)",
    "a struct is registered in the interface before every struct/message that contains it, and the nested object equals the "
    "registered one (otherwise the C++ does not compile: K-C12-3)",
    "a declared default is a C++ literal of the member's type: decimal (no leading 0) / 0x integer within the type's range "
    "(int64: > -2^63), true/false (also 0/1 for bool), decimal floating literal or integer <= 2^24 / 2^53 for float/double; "
    "Python True (rendered 'True'), out-of-range and fractional defaults for integers are outside (K-C12-4, K-C12-5)",
    "names: struct/message names pairwise distinct, not a primitive type name, not 'sMsgHeader'; member names distinct, no message "
    "member called 'Header'; payload < 2^32 bytes; C++ identifier validity and keyword clashes are not modelled (observed with g++)",
    "member types are the eleven names of allplatforms/basetypes.h; arrays do not exist in kojentypes (README only)",
    "target: g++ on x86-64 SysV, little endian (the non-boost, non-MSVC branch of basetypes.h)",
]
TRUSTED = [
    "Coq 8.16.1 kernel (coqc; coqchk in the thorough tier)", "axioms: none",
    "translator/layoutsrc.py (ast of kojentypes.MessageHeader, regex over the GCC typedef block of basetypes.h)",
    "extraction: ExtrOcamlBasic + ExtrOcamlNativeString, OCaml 4.13",
    "harness/layoutgen.abstract_iface (real kojentypes objects -> model input) and abstract_generated (regex reading of the real "
    "generated headers -> abstract program); both fail closed",
    "modelled, not verified: GCC's struct layout with per-member packed, C++17 aggregate initialisation from fully braced lists, "
    "default arguments, conversion of literals (own correctly rounded decimal->binary64->binary32) -- tied to g++ by the probes",
    "g++ 14 / x86-64 for 'compiles' and for the probe itself; Python's struct module as the oracle's packing",
]
ALLOWED_AXIOMS = []

BATCH = 16


# ------------------------------------------------------------------------------------------------ one case
def plan_calls(rng, desc, oracle):
    """[(tag, kind, name, factory, members, [arg bytes])]: every factory with no, all and a random number of leading arguments"""
    calls = []
    for kind, items in (("S", desc["structs"]), ("M", desc["msgs"])):
        for s in items:
            n = len(s["members"])
            ks = [0]
            if n:
                ks.append(n)
            if n > 1:
                ks.append(rng.randint(1, n - 1))
            for k in ks:
                args = [lg.random_arg(rng, oracle, m) for m in s["members"][:k]]
                calls.append(("c%d" % len(calls), kind, s["name"], "Create" + s["name"], s["members"], args))
    return calls


def prepare(desc, call_seed, outdir):
    """run the real generator, write the probe; returns a dict for the later steps"""
    rng = random.Random(call_seed)
    nested = [s for s in desc["structs"] if s["members"] and any(m[0] == "S" and m[2] == s["name"] for t in desc["structs"] + desc["msgs"] for m in t["members"])]
    if nested and rng.random() < 0.35:
        # history: the interface objects are generated from once before a nested struct receives its last member(s)
        s0 = rng.choice(nested)

        def between(ifc):
            with kj.scratch() as d0:
                try:
                    kj.generate("proto", os.path.join(d0, "out"), iface=ifc, ns=desc["ns"], name=desc["cls"], copy_other=False)
                except Exception:  # noqa -- the intermediate interface need not be valid (e.g. an empty struct)
                    pass
        iface = lg.build_iface(desc, hold_back=(s0["name"], rng.randint(1, len(s0["members"]))), between=between)
    else:
        iface = lg.build_iface(desc)
    # the host the generator runs on is no input: a share of the interfaces is generated "on" another platform
    import sys as _sys
    host = rng.choice([None, None, None, "win32", "darwin"])
    saved_platform = _sys.platform
    try:
        if host:
            _sys.platform = host
        kj.generate("proto", outdir, iface=iface, ns=desc["ns"], name=desc["cls"], copy_other=True)
    finally:
        _sys.platform = saved_platform
    oracle = lg.Oracle(desc)
    calls = plan_calls(rng, desc, oracle)
    probe_calls = []
    for tag, _kind, _name, fname, members, args in calls:
        probe_calls.append((tag, fname, [((m[2]), a) for m, a in zip(members, args)]))
    src = lg.probe_source(desc, probe_calls)
    return {"desc": desc, "iface": iface, "oracle": oracle, "calls": calls, "src": src, "outdir": outdir}


def observe(case, ok, text):
    """The property itself on the real artefact, against the independent packing. -> list of failure strings"""
    desc, oracle = case["desc"], case["oracle"]
    if not ok:
        return ["the generated C++ does not compile / the probe failed: " + text[-1500:]]
    layouts, fields, calls = lg.parse_probe(text)
    fails = []
    items = [(lg.HDR, 8, [("Preamble", 0, 2), ("TypeID", 2, 2), ("PayloadSize", 4, 4)])]
    for s in desc["structs"]:
        size, fl = oracle.layout(s["members"])
        items.append((s["name"], size, fl))
    for m in desc["msgs"]:
        size, fl = oracle.layout(m["members"], header=True)
        items.append((m["name"], size, fl))
    for name, size, fl in items:
        if layouts.get(name) != (size, 1):
            fails.append("sizeof/alignof(%s) = %r, padding-free packing demands %r" % (name, layouts.get(name), (size, 1)))
        if fields.get(name, []) != fl:
            fails.append("members of %s at %r, declaration-order packing demands %r" % (name, fields.get(name), fl))
    msgs = {m["name"]: m for m in desc["msgs"]}
    for tag, kind, name, _fname, members, args in case["calls"]:
        hdr = oracle.header(msgs[name]) if kind == "M" else b""
        want = oracle.value(members, args, hdr)
        got = calls.get(tag)
        if got != want:
            fails.append("Create%s with %d argument(s) returned %s, expected %s" % (name, len(args), got.hex() if got is not None else None, want.hex()))
    return fails


def finding_key(desc):
    return desc.get("finding_key", "generated")


def correspond(ctx, case, ok, text):
    """model vs real (ties) and Coq spec vs Python oracle; returns nothing, reports through ctx"""
    km, desc = ctx.km, case["desc"]
    if km is None:
        return
    rep = {"desc": desc}
    try:
        term = lg.abstract_iface(case["iface"])
    except lg.Unsupported as e:
        ctx.tie_broken("abstract_iface refused a generated interface: %s" % e, rep)
        return
    case["term"] = term
    wf = km.call("c12_wf", term) == b"1"
    case["wf"] = wf
    if not wf:
        return
    # -- translation validation of the generator
    try:
        rdecls, rfacts = lg.abstract_generated(case["outdir"], desc["cls"])
    except lg.Unsupported as e:
        ctx.tie_broken("abstract_generated: the generated text has an unknown shape: %s" % e, rep)
        return
    mdecls, mfacts = km.call("c12_emit", term)
    mdecls = [[d[0].decode(), [[x.decode() for x in m] for m in d[1]]] for d in mdecls]
    mf = []
    for f in mfacts:
        params = [[p[0].decode(), p[1].decode(), p[2].decode(), (p[3][0].decode() if p[3] else None)] for p in f[2]]
        mf.append([f[0].decode(), f[1].decode(), params, f[3].decode().replace(" ", "")])
    if rdecls != mdecls:
        ctx.tie_broken("translation validation: struct declarations of the real headers vs ProtoLang.emit", dict(rep, real=rdecls, model=mdecls))
    if rfacts != mf:
        ctx.tie_broken("translation validation: factory signatures/bodies of the real files vs ProtoLang.emit", dict(rep, real=rfacts, model=mf))
    # -- Coq specification vs the Python oracle (the theorem's right-hand sides mean what the oracle computes)
    oracle = case["oracle"]
    spec = {e[0].decode(): (int(e[1]), int(e[2]), [(f[0].decode(), int(f[2]), int(f[3])) for f in e[3]]) for e in km.call("c12_spec_layout", term)}
    for s in desc["structs"]:
        size, fl = oracle.layout(s["members"])
        if spec.get(s["name"]) != (size, 1, fl):
            ctx.tie_broken("Spec.struct_spec vs Python oracle", dict(rep, name=s["name"]))
    for m in desc["msgs"]:
        size, fl = oracle.layout(m["members"], header=True)
        if spec.get(m["name"]) != (size, 1, fl):
            ctx.tie_broken("Spec.msg_spec vs Python oracle", dict(rep, name=m["name"]))
    if not ok:
        return
    layouts, fields, calls = lg.parse_probe(text)
    # -- model of GCC's layout vs g++
    okl, ml = km.call("c12_layout", term)
    if okl != b"1":
        ctx.tie_broken("Layout.build_env gives the emitted program no meaning but g++ compiled it", rep)
    else:
        for e in ml:
            name = e[0].decode()
            mine = (int(e[1]), int(e[2]))
            mfl = [(f[0].decode(), int(f[2]), int(f[3])) for f in e[3]]
            if layouts.get(name) != mine or fields.get(name, []) != mfl:
                ctx.tie_broken("correspondence g++ sizeof/alignof/offsetof vs Layout.layout_struct", dict(rep, name=name, real=[layouts.get(name), fields.get(name)], model=[mine, mfl]))
    # -- model of the factories vs the compiled ones, and the Coq spec value vs the oracle
    msgs = {m["name"]: m for m in desc["msgs"]}
    for tag, kind, name, fname, members, args in case["calls"]:
        okc, b = km.call("c12_call", term, fname, args)
        if okc != b"1" or b != calls.get(tag):
            ctx.tie_broken("correspondence compiled factory vs Layout.call", dict(rep, factory=fname, args=[a.hex() for a in args],
                                                                                   real=calls.get(tag, b"").hex(), model=b.hex() if okc == b"1" else None))
        sv = km.call("c12_spec_value", term, kind, name, args)
        hdr = oracle.header(msgs[name]) if kind == "M" else b""
        if sv != oracle.value(members, args, hdr):
            ctx.tie_broken("Spec.msg_value/struct_value vs Python oracle", dict(rep, factory=fname))
        ctx.count("factory_calls")


def run_batch(ctx, descs, label):
    """descs: [(desc, call_seed)]"""
    with contextlib.ExitStack() as st:
        cases = []
        for desc, seed in descs:
            d = st.enter_context(kj.scratch())
            try:
                cases.append(prepare(desc, seed, os.path.join(d, "out")))
            except Exception as e:  # noqa  -- kojen rejected / crashed on an input of the stated domain
                ctx.violation("the generator raised %r" % (e,), {"desc": desc, "call_seed": seed, "finding_key": finding_key(desc)})
                continue
            cases[-1]["seed"] = seed
        with ThreadPoolExecutor(max_workers=min(BATCH, os.cpu_count() or 4)) as ex:
            results = list(ex.map(lambda c: lg.compile_and_run(c["outdir"], c["src"]), cases))
        for case, (ok, text) in zip(cases, results):
            desc = case["desc"]
            correspond(ctx, case, ok, text)
            depth, _ = lg.desc_depth(desc)
            ndef = sum(1 for s in desc["structs"] + desc["msgs"] for m in s["members"] if m[0] == "P" and m[3])
            if ctx.km is not None and not case.get("wf", True) and label != "outside":
                ctx.tie_broken("the generator of valid interfaces produced one that wf_iface rejects", {"desc": desc})
            fails = observe(case, ok, text)
            for f in fails[:1]:
                ctx.violation(f, {"desc": desc, "call_seed": case["seed"], "finding_key": finding_key(desc), "all": fails[:5]})
            ctx.case((label, json.dumps(desc, sort_keys=True, default=repr), case["seed"]), nontrivial=(depth >= 1 or ndef > 0))
            ctx.count("%s_interfaces" % label)
            ctx.count("depth_%d" % depth)
            ctx.count("structs_and_messages", len(desc["structs"]) + len(desc["msgs"]))
            ctx.count("members_with_declared_default", ndef)
            if label == "gen":
                ctx.sample({"desc": desc, "call_seed": case["seed"]}, limit=2)


# ------------------------------------------------------------------------------------------------ literals
def literal_differential(ctx, n):
    """CValue.conv (through parse_lit) vs Python's own reading of the literal, for every primitive type"""
    rng = ctx.rng
    if ctx.km is None:
        return
    for i in range(n):
        ty = rng.choice(lg.PRIM_NAMES)
        d = lg.gen_default(rng, ty, mode="always")
        if d is None or (not isinstance(d, str) and not d):
            continue
        text = d if isinstance(d, str) else str(d)
        okc, b = ctx.km.call("c12_lit", ty, text)
        want = lg.oracle_prim_bytes(ty, d)
        if okc != b"1" or b != want:
            ctx.tie_broken("correspondence CValue.conv vs Python struct on literal", {"type": ty, "literal": text, "model": b.hex(), "python": want.hex()})
        ctx.case(("lit", ty, text), nontrivial=True)
        ctx.count("literal_differential")


# ------------------------------------------------------------------------------------------------ inputs outside the domain
def outside_descs():
    """Interfaces kojen accepts although the property as literally stated fails on them; each carries the key of its finding."""
    base = {"iname": "IOut", "preamble": 0xBEEF, "ns": "NS", "cls": "X", "enums": [], "defines": []}
    inner = {"name": "sIn", "members": [["P", "a", "uint8", "5"], ["P", "b", "uint32", None]]}
    res = []
    res.append(dict(base, finding_key="K-C12-1", structs=[], msgs=[{"name": "MsgBig", "id": 70000, "members": [["P", "a", "uint8", None]]}]))
    res.append(dict(base, finding_key="K-C12-1", preamble=0x1BEEF, structs=[], msgs=[{"name": "MsgP", "id": 1, "members": []}]))
    res.append(dict(base, finding_key="K-C12-2", structs=[{"name": "sEmpty", "members": []}],
                    msgs=[{"name": "MsgE", "id": 1, "members": [["S", "e", "sEmpty"], ["P", "x", "uint8", "1"]]}]))
    res.append(dict(base, finding_key="K-C12-3", structs=[{"name": "sOut", "members": [["S", "i", "sIn"]]}, inner], _order="user-first",
                    msgs=[{"name": "MsgO", "id": 1, "members": [["S", "o", "sOut"]]}]))
    res.append(dict(base, finding_key="K-C12-4", structs=[], msgs=[{"name": "MsgT", "id": 1, "members": [["P", "flag", "bool", True]]}]))
    res.append(dict(base, finding_key="K-C12-5", structs=[inner_with("300")], msgs=[{"name": "MsgN", "id": 1, "members": [["S", "i", "sIn"]]}]))
    res.append(dict(base, finding_key="K-C12-5", structs=[], msgs=[{"name": "MsgF", "id": 1, "members": [["P", "a", "uint8", "1.5"], ["P", "b", "uint8", "300"]]}]))
    return res


def inner_with(d):
    return {"name": "sIn", "members": [["P", "a", "uint8", d], ["P", "b", "uint32", None]]}


def build_outside(desc):
    """like lg.build_iface but honouring the registration-order quirk of K-C12-3"""
    if desc.get("_order") != "user-first":
        return lg.build_iface(desc)
    kt = kj.kojentypes
    iface = kt.Interface(desc["iname"], desc["preamble"])
    objs = {s["name"]: kt.Struct(s["name"]) for s in desc["structs"]}
    for s in reversed(desc["structs"]):
        lg._add_members(objs[s["name"]], s["members"], objs)
    for s in desc["structs"]:          # the containing struct is registered BEFORE the contained one
        iface.AddStruct(objs[s["name"]])
    for m in desc["msgs"]:
        mo = kt.Message(m["name"], m["id"])
        lg._add_members(mo, m["members"], objs)
        iface.AddMessage(mo)
    return iface


def outside_case(ctx, desc):
    """-> True iff the property (compiles, padding-free, defaults) HOLDS on this input"""
    with kj.scratch() as d:
        out = os.path.join(d, "out")
        iface = build_outside(desc)
        kj.generate("proto", out, iface=iface, ns=desc["ns"], name=desc["cls"], copy_other=True)
        oracle = lg.Oracle(desc)
        calls = plan_calls(random.Random(0), desc, oracle)
        calls = [c for c in calls if not c[5]]
        case = {"desc": desc, "oracle": oracle, "calls": calls, "outdir": out}
        src = lg.probe_source(desc, [(c[0], c[3], []) for c in calls])
        ok, text = lg.compile_and_run(out, src)
        try:
            fails = observe(case, ok, text)
        except Exception as e:  # noqa -- the oracle itself has no reading of this default
            fails = ["the declared default has no reading in the member's type: %r" % (e,)]
        if ctx.km is not None:
            try:
                wf = ctx.km.call("c12_wf", lg.abstract_iface(iface)) == b"1"
            except lg.Unsupported:
                wf = False
            if wf:
                ctx.tie_broken("wf_iface accepts an interface of the out-of-domain stream", {"desc": desc})
        return fails


# ------------------------------------------------------------------------------------------------ entry points
def run(ctx):
    for p in sorted(glob.glob(os.path.join(VERIF, "corpus", "C12", "*.json"))):
        data = unjson(json.load(open(p)))
        ctx.case(("corpus", p))
        ctx.count("corpus")
        if not replay(ctx, data):
            ctx.violation("corpus case %s fails" % os.path.basename(p), data)
    # inputs outside wf_iface: the property as literally stated fails; known findings (the theorems carry wf_iface)
    for desc in outside_descs():
        fails = outside_case(ctx, desc)
        ctx.case(("outside", json.dumps(desc, sort_keys=True, default=repr)), nontrivial=True)
        ctx.count("outside_domain_inputs")
        if fails:
            ctx.violation(fails[0], {"desc": desc, "outside": True, "finding_key": desc["finding_key"]})
        else:
            ctx.count("outside_domain_inputs_on_which_the_property_held")
    literal_differential(ctx, ctx.budget(1500, 20000))
    n = ctx.budget(96, 1600)
    todo = []
    for i in range(n):
        r = ctx.rng.random()
        if r < 0.08:
            desc = desc_of_random_proto(ctx.rng)
        elif r < 0.2:
            desc = lg.gen_desc(ctx.rng, depth=ctx.rng.randint(3, 6))
        else:
            desc = lg.gen_desc(ctx.rng)
        todo.append((desc, ctx.rng.randint(0, 1 << 30)))
    for i in range(0, len(todo), BATCH):
        run_batch(ctx, todo[i:i + BATCH], "gen")


def desc_of_random_proto(rng):
    """kj.random_proto_interface, re-read as a description (so that it can be replayed)"""
    iface = kj.random_proto_interface(rng)
    structs, msgs = [], []

    def mem(obj, skip=()):
        res = []
        for k, v in obj.items():
            if k in skip:
                continue
            if isinstance(v, str):
                res.append(["P", k, v, obj.defaults.get(k)])
            else:
                res.append(["S", k, v.Name])
        return res
    for s in iface.Structs():
        structs.append({"name": s.Name, "members": mem(s)})
    for m in iface.Messages():
        msgs.append({"name": m.Name, "id": m.MessageTypeID, "members": mem(m, ("Header",))})
    return {"iname": iface.Name, "preamble": iface.InterfacePreamble, "ns": "NS", "cls": "X", "structs": structs, "msgs": msgs,
            "enums": [], "defines": []}


def replay(ctx, data):
    """True iff the property holds on this input (real code and oracle only)."""
    if data.get("no_failing_input_found"):
        print(json.dumps(data.get("no_longer_checks"), indent=1, default=repr)[:3000])
        return False
    desc = data["desc"]
    if data.get("outside") or desc.get("_order"):
        fails = outside_case(ctx, desc)
    else:
        with kj.scratch() as d:
            case = prepare(desc, data.get("call_seed", 0), os.path.join(d, "out"))
            ok, text = lg.compile_and_run(case["outdir"], case["src"])
            fails = observe(case, ok, text)
    for f in fails[:5]:
        print("  " + f[:600])
    return not fails
