"""C09 -- Generated C++ (boost::sml) encodes exactly the table and is self-consistent."""
import glob
import json
import os
import re
import subprocess

from .. import kj, smlib
from ..check import VERIF, unjson
from ..kj import scratch

LEVEL = "proof"

MANIFEST = {
    "technique": "Coq proof (row-by-row fidelity of the emitted sml table, hook rows exactly once per state, executable reading of the table = table interpreter, declarations exactly once) + parsing the real make_transition_table back + g++ compilation AND execution of the generated unit against a functional mini-sml header",
    "text": ("Theorem C09_sem (under the semantics of boost::sml stated in Model/SmlTT.v -- initial state, first-match in table order, external vs internal transitions, "
             "entry/exit hooks -- reading the generated table makes exactly the table interpreter's callbacks and states, for every table, event sequence and guard oracle); theorems C09_rows (rows_of (gen_sml ee T) = spec_rows T: one row per input row in order, same source/event/guard/action/target, gnone/none "
             "for absent guard/action, no target for rows without next state, initial marker on row 0 only), C09_entry_exit (exactly one entry and one exit "
             "hook row per state of the table incl. target-only states), C09_hooks_only_states, C09_self_consistent (every declaration a row needs -- state, event with its parameter list, guard, action, "
             "(action,event) signature, in controller / interface / implementation / test unit -- is produced exactly once by the per-element blocks of the file "
             "that must hold it, as (kind, name, params) triples; Model/Decls.v over the block shapes of Gen/DeclTmpl.v), C09_declares_only_elements. Tie: constants and loop "
             "structure of smgen.innerexpand_sml regenerated into Gen/SmlTmpl.v; the real make_transition_table(...) text parsed back to items and compared "
             "with gen_sml and, independently, with a Python reading of the property; the (kind, name, params) triples read out of the four real files by per-kind regexes equal Decls.decls_file and every reference of refs_cpp is found "
             "exactly once; smgen.CTransitionTableModel vs Model/TTable.v on a batch of its own, the model following Gen/TTModelSrc.v (translator obligations on the "
             "containers and the signature key); both translation units type-checked by g++ -std=c++17 -fsyntax-only against harness/stubs/boost/sml.hpp; the same stated semantics is run in Python over the "
             "rows parsed back from the real text (vs the interpreter and vs the extracted sml_run), and for non-threaded cases the generated implementation unit is compiled with a "
             "recording controller subclass against the FUNCTIONAL mini-sml header and executed: callback lines and Is<State>() flags vs the interpreter."),
    "note": ("ENGINE BRIDGE (C09_engine_text, C09_sem_engine, C09_engine_text_nonvacuous): smgen.innerexpand_sml, the Python printer behind <<<TTT_BOOST_SML>>> / "
             "<<<TTT_BOOST_SML_ENTRY_EXIT>>>, is part of the engine model (Model/EngineSM.sml_print: header, column padding to the longest present names, "
             "the none / gnone / msmf::none replacements with their '__' and 'msmf::' strippings, rstrip, once-only hook rows, trailing loop over the states) as the "
             "expansion function of the two single-tag stages; for every table of well-formed rows its text is the header line followed by the text of the items "
             "of gen_sml (Model/SmlRender.v), so C09_rows / C09_entry_exit / C09_sem speak about what the engine writes. The real Impl_SML.cpp contains that text "
             "verbatim on every case (sml.print), and the example's text is the real printer's output. "
             "Self-consistency is proved for names, parameter lists and multiplicities of declarations; C++ type checking itself (name lookup, overload resolution, member "
             "types) stays OBSERVED by g++ -fsyntax-only against the stub, not proved. harness/stubs/boost/sml.hpp stands in for boost::sml "
             "(empty submodule): it implements the semantics STATED in Model/SmlTT.v for the subset used, it is not boost::sml; whether boost::sml itself orders exit/action/entry "
             "as stated is the assumption of C09_sem. "
             "Proved about smgen as repaired by three fix: commits ('' next state internal, hooks for target-only states, signature key)."),
}
RULE = ("random well-formed tables (as C08: multi-row groups, target-only states, all absent spellings incl. '' next state, repeated rows) plus tables with "
        "colliding concatenations (OnA+BEv = OnAB+Ev); event interfaces with primitive C++ member types with and without (trailing) defaults, events the "
        "table never mentions; StateMachineThread/Verbose user tags 0/1/absent; plain and nested namespaces; with and without export macro. "
        "non-trivial = table has a target-only state, an absent guard/action/target or a colliding signature; distinct = (table, interface, options)")
ASSUMPTIONS = ["forallb row_ok T: start state and event are UpperCamelCase alphanumeric identifiers, next/action/guard are such identifiers or an absent spelling",
               "defaults only on a trailing run of an event's members; member types are C++ primitive types",
               "sml_names_ok: no guard is named Gnone/gnone (its functor instance would be the always-true guard's name); no action/guard is named <State>OnEntry/OnExit",
               "the semantics of boost::sml as stated in Model/SmlTT.v (C09_sem's assumption)"]
TRUSTED = ["Coq 8.16.1 kernel (coqc; coqchk in the thorough tier)", "axioms: none",
           "translator/smltmpl.py (ast of smgen.innerexpand_sml and the two replace_NONE helpers, regexes on the template, fail closed); Model/EngineSM.sml_print is a hand transcription of innerexpand_sml, tied to the real text on every case",
           "extraction: ExtrOcamlBasic + ExtrOcamlNativeString; ocaml/cmds_sm.ml",
           "harness row parser / declaration regexes; harness/stubs/boost/sml.hpp (functional stand-in with the stated semantics) and minunit.h",
           "modelled, not verified: boost::sml's reading of the table (row without `= state<..>` is internal, `*` marks the initial state); g++ 14 as type checker"]
ALLOWED_AXIOMS = []

NAME = "X"
STUBS = os.path.join(VERIF, "harness", "stubs")
ROW = re.compile(r"^\s*(\*|,)\s*state<([\w:]+)>\s*\+\s*event<([\w:]+)>\s*\[(\w+)\]\s*/\s*(\w+)(?:\s*=\s*state<(\w+)>)?\s*$")
HOOK = re.compile(r"^\s*,\s*state<(\w+)>\s*\+\s*boost::sml::on_(entry|exit)<_>\s*/\s*(\w+)\s*$")


def camel(s):
    return s[0].lower() + s[1:] if s else ""


def parse_table(cpp):
    """make_transition_table( ... ); -> items like the model's, or (None, why)."""
    m = re.search(r"return make_transition_table\(\n(.*?)\n\s*\);", cpp, re.S)
    if not m:
        return None, "make_transition_table( ... ); not found"
    items = []
    for line in m.group(1).split("\n"):
        if line.strip().startswith("//") or not line.strip():
            continue
        r = ROW.match(line)
        if r:
            items.append(["row", "1" if r.group(1) == "*" else "0", r.group(2), r.group(3), r.group(4), r.group(5), r.group(6) or "", "1" if r.group(6) else "0"])
            continue
        h = HOOK.match(line)
        if h:
            items.append([h.group(2), h.group(1), h.group(3)])
            continue
        return None, "unparsed table line %r" % line
    return items, None


def spec_items(table):
    """The property read directly: rows, and the multiset of hooks."""
    rows = []
    for i, r in enumerate(table):
        rows.append(["row", "1" if i == 0 else "0", r[0], r[1], "gnone" if smlib.is_none(r[4]) else camel(r[4]),
                     "none" if smlib.is_none(r[3]) else camel(r[3]), "" if smlib.is_none(r[2]) else r[2], "0" if smlib.is_none(r[2]) else "1"])
    hooks = sorted([k, s, camel(s) + ("OnEntry" if k == "entry" else "OnExit")] for s in smlib.names(table)[0] for k in ("entry", "exit"))
    return rows, hooks


def sig_of(spec, ev):
    for nm, mem in spec["structs"]:
        if nm == ev:
            return ", ".join("%s %s" % (ty, m) for m, ty, _d in mem)
    return ""


def check_decls(table, spec, files):
    """Every referenced element declared exactly once, with matching event parameters. Returns a description or None."""
    st, ev, ac, gu = smlib.names(table)
    events = ev + [nm for nm, _m in spec["structs"] if nm not in ev]
    sigs = []
    for r in table:
        if not smlib.is_none(r[3]) and (r[3], r[1]) not in sigs:
            sigs.append((r[3], r[1]))
    ctl, smh, impl, test = files["I%sController.h" % NAME], files["%sStateMachine.h" % NAME], files["%sStateMachineImpl_SML.cpp" % NAME], files["Test.%sStateMachine.cpp" % NAME]

    def once(what, found, expected):
        if sorted(found) != sorted(expected):
            return "%s: declared %r, referenced %r" % (what, sorted(found), sorted(expected))
        return None
    checks = [
        ("controller: event structs", re.findall(r"struct (\w+) : public Event", ctl), events),
        ("controller: guards", re.findall(r"virtual bool (\w+)\(\)\s*$", ctl, re.M), gu),
        ("controller: on_entry", re.findall(r"virtual void (\w+)_on_entry\(\)", ctl), st),
        ("controller: on_exit", re.findall(r"virtual void (\w+)_on_exit\(\)", ctl), st),
        ("controller: action signatures", re.findall(r"virtual void (\w+)\((\w+) const& data\)", ctl), sigs),
        ("interface: Is<State>", re.findall(r"virtual bool Is(\w+)\(\) const = 0;", smh), st),
        ("interface: Trigger<Event>", re.findall(r"virtual void Trigger(\w+)\((.*)\) = 0;", smh), [(e, sig_of(spec, e)) for e in events]),
        ("impl: state forward declarations", re.findall(r"^\s*struct (\w+);\s*$", impl, re.M), st),
        ("impl: Is<State> overrides", re.findall(r"virtual bool Is(\w+)\(\) const override", impl), st),
        ("impl: Trigger<Event> overrides", re.findall(r"virtual void Trigger(\w+)\((.*)\) override", impl), [(e, sig_of(spec, e)) for e in events]),
        ("impl: Dispatch definitions", re.findall(r"void (\w+)::Dispatch\(void\* sm\)", impl), events),
        ("impl: guard functors", re.findall(r"return ctrl\.(\w+)\(\);", impl), gu),
        ("impl: action functors", re.findall(r"ctrl\.(\w+)\(e\);", impl), ac),
        ("impl: hook functors (entry)", re.findall(r"ctrl\.(\w+)_on_entry\(\);", impl), st),
        ("impl: hook functors (exit)", re.findall(r"ctrl\.(\w+)_on_exit\(\);", impl), st),
        ("impl: functor instances", re.findall(r"^\s*(\w+) +(\w+);\s*$", inst_region(impl), re.M),
         [(g, camel(g)) for g in gu] + [(a, camel(a)) for a in ac] + [(s + k, camel(s) + k) for s in st for k in ("OnEntry", "OnExit")]),
        ("test: guard overrides", re.findall(r"virtual bool (\w+)\(\) override", test), gu),
        ("test: action overrides", re.findall(r"virtual void (\w+)\((\w+) const& data\) override", test), sigs),
    ]
    for what, found, expected in checks:
        found = [tuple(x) if isinstance(x, (tuple, list)) else x for x in found]
        expected = [tuple(x) if isinstance(x, (tuple, list)) else x for x in expected]
        r = once(what, found, expected)
        if r:
            return r
    # member declarations of the event structs
    for nm, mem in spec["structs"]:
        body = re.search(r"struct %s : public Event\s*\{(.*?)\n    \};" % nm, ctl, re.S)
        decl = re.findall(r"^\s+([\w:]+) (\w+)(?: = ([^;]+))?;\s*$", body.group(1) if body else "", re.M)
        want = [(ty, m, d or "") for m, ty, d in mem]
        if decl != want:
            return "event %s: members declared %r, interface says %r" % (nm, decl, want)
    return None


def inst_region(impl):
    m = re.search(r"using namespace boost::sml;\n(.*?)/// Transition table", impl, re.S)
    return m.group(1) if m else ""


def gxx(d, unit, dll=""):
    # the export macro is the user's to define (e.g. __declspec(dllexport)); here: empty
    p = subprocess.run(["g++", "-std=c++17", "-fsyntax-only", "-I" + d, "-I" + STUBS] + (["-D%s=" % dll] if dll else []) + [os.path.join(d, unit)],
                       stdout=subprocess.PIPE, stderr=subprocess.STDOUT, timeout=300)
    out = "\n".join(l for l in p.stdout.decode("utf-8", "replace").split("\n") if "WARNING conda" not in l)
    return p.returncode, out


def py_sml_run(items, evs, bits):
    """The stated sml semantics (Model/SmlTT.v) read off the rows parsed back from the REAL table text: [(callbacks, state)]."""
    rows = [i for i in items if i[0] == "row"]

    def hooks(kind, s, e):
        out = []
        for i in items:
            if i[0] == kind and i[1] == s:
                suffix = "OnEntry" if kind == "entry" else "OnExit"
                out.append((kind, s, e) if i[2] == camel(s) + suffix else ("action", i[2], e))
        return out
    init = next((r[2] for r in rows if r[1] == "1"), "")
    res = [(hooks("entry", init, "EventStartup"), init)]
    cur, n = init, 0
    for e in evs:
        cbs = []
        for r in rows:
            if r[2] != cur or r[3] != e:
                continue
            if r[4] != "gnone":
                cbs.append(("guard", r[4], e))
                ok = bits[n] if n < len(bits) else False
                n += 1
                if not ok:
                    continue
            act = [] if r[5] == "none" else [("action", r[5], e)]
            if r[7] == "1":
                cbs += hooks("exit", cur, e) + act
                cur = r[6]
                cbs += hooks("entry", cur, e)
            else:
                cbs += act
            break
        res.append((cbs, cur))
    return res


def camel_quiet_interp(table, evs, bits):
    out = []
    for cbs, s in smlib.py_table_interp(table, evs, bits):
        out.append(([(k, camel(n) if k in ("guard", "action") else n, e) for k, n, e in cbs if k != "notrans"], s))
    return out


def driver_cpp(table, spec, ns, evs_with_args, bits):
    """A main() that subclasses the generated controller with recording overrides and drives the generated machine."""
    st, _ev, _ac, gu = smlib.names(table)
    members = {nm: mem for nm, mem in spec["structs"]}
    sigs = []
    for r in table:
        if not smlib.is_none(r[3]) and (r[3], r[1]) not in sigs:
            sigs.append((r[3], r[1]))
    o = ['#include "%sStateMachine.h"' % NAME, "#include <cstdio>", "#include <vector>", "using namespace %s;" % ns,
         "static std::vector<int> bits = {%s};" % ", ".join("1" if b else "0" for b in bits), "static unsigned nb = 0;",
         "struct Ctl : public I%sController {" % NAME]
    for g in gu:
        o.append('  bool %s() override { std::printf("%s\\n"); bool b = nb < bits.size() && bits[nb]; nb++; return b; }' % (g, g))
    for s_ in st:
        o.append('  void %s_on_entry() override { std::printf("%s_on_entry\\n"); }' % (s_, s_))
        o.append('  void %s_on_exit() override { std::printf("%s_on_exit\\n"); }' % (s_, s_))
    for a, e in sigs:
        fmt = " ".join("%s=%%g" % m[0] for m in members.get(e, []))
        args = "".join(", (double)data.%s" % m[0] for m in members.get(e, []))
        o.append('  void %s(%s const& data) override { (void)data; std::printf("%s %s %s\\n"%s); }' % (a, e, a, e, fmt, args))
    o.append("};")
    o.append("static void snap(I%sStateMachine* sm) { std::printf(\"--%s\\n\"%s); }" % (
        NAME, "".join(" %d" for _ in st), "".join(", (int)sm->Is%s()" % s_ for s_ in st)))
    o.append("int main() { Ctl c; I%sStateMachine* sm = I%sStateMachine::Create(c); snap(sm);" % (NAME, NAME))
    for e, args in evs_with_args:
        o.append("  sm->Trigger%s(%s); snap(sm);" % (e, ", ".join(str(a) for a in args)))
    o.append("  return 0; }")
    return "\n".join(o) + "\n"


def run_compiled(d, table, spec, ns, dll, evs_with_args, bits):
    """Compile the generated implementation unit + a driver against the functional mini-sml header and run it.
    Returns ([(callback lines, Is-flags)], None) or (None, why)."""
    with open(os.path.join(d, "driver.cpp"), "w") as f:
        f.write(driver_cpp(table, spec, ns, evs_with_args, bits))
    cmd = ["g++", "-std=c++17", "-O0", "-I" + d, "-I" + STUBS] + (["-D%s=" % dll] if dll else []) + [
        os.path.join(d, "driver.cpp"), os.path.join(d, "%sStateMachineImpl_SML.cpp" % NAME), "-o", os.path.join(d, "drv")]
    p = subprocess.run(cmd, stdout=subprocess.PIPE, stderr=subprocess.STDOUT, timeout=300)
    if p.returncode:
        errs = [l for l in p.stdout.decode("utf-8", "replace").split("\n") if "error" in l][:3]
        return None, "g++ (driver + implementation unit): " + " | ".join(errs)
    r = subprocess.run([os.path.join(d, "drv")], stdout=subprocess.PIPE, stderr=subprocess.STDOUT, timeout=60)
    if r.returncode:
        return None, "the compiled machine exited with status %d" % r.returncode
    steps, cur = [], []
    for line in r.stdout.decode("utf-8", "replace").split("\n"):
        if line.startswith("--"):
            steps.append((cur, [int(x) for x in line[2:].split()]))
            cur = []
        elif line.strip():
            cur.append(line.strip())
    return steps, None


def exec_compiled_case(d, table, spec, ns, dll, evs_with_args, bits):
    st = smlib.names(table)[0]
    members = {nm: [m[0] for m in mem] for nm, mem in spec["structs"]}
    steps, why = run_compiled(d, table, spec, ns, dll, evs_with_args, bits)
    if steps is None:
        return why
    want = [([c for c in cbs if c[0] != "notrans"], s) for cbs, s in smlib.py_table_interp(table, [e for e, _a in evs_with_args], bits)]
    if len(steps) != len(want):
        return "the compiled machine printed %d steps, expected %d" % (len(steps), len(want))
    for i, ((lines, flags), (cbs, s)) in enumerate(zip(steps, want)):
        exp = []
        for kind, nm, e in cbs:
            if kind == "guard":
                exp.append(nm)
            elif kind in ("exit", "entry"):
                exp.append("%s_on_%s" % (nm, kind))
            else:
                ev, args = evs_with_args[i - 1]
                exp.append(("%s %s %s" % (nm, e, " ".join("%s=%g" % (m, a) for m, a in zip(members.get(e, []), args)))).strip())
        where = "construction" if i == 0 else "Trigger%s (event %d)" % (evs_with_args[i - 1][0], i)
        if lines != exp:
            return "%s: the compiled machine called %r, the table says %r" % (where, lines, exp)
        if [x for x, f in zip(st, flags) if f] != [s]:
            return "%s: Is<State>() true for %r, the table says %r" % (where, [x for x, f in zip(st, flags) if f], s)
    return None


def one_case(ctx, table, spec, ns, dll, compile_it, evs_with_args=None, bits=None):
    """Returns (failure description or None, finding key)."""
    with scratch() as d:
        with kj.quiet():
            kj.Generate.StateMachine(d, table, smlib.build_iface(spec), ns, NAME, dll, "a", "g", "b", "", "", compile_it)
        files = {}
        for f in os.listdir(d):
            if os.path.isfile(os.path.join(d, f)):
                with open(os.path.join(d, f)) as fh:
                    files[f] = fh.read()
        items, why = parse_table(files.get("%sStateMachineImpl_SML.cpp" % NAME, ""))
        if items is None:
            ctx.tie_broken("row parser: " + why, {"table": table})
            return None, None
        if ctx.km is not None:
            dec = lambda v: [dec(x) for x in v] if isinstance(v, list) else v.decode()  # noqa
            model = dec(ctx.km.call("gen_sml", "1", table))
            if model != items:
                ctx.tie_broken("correspondence real make_transition_table vs SmlTT.gen_sml", {"table": table, "real": items, "model": model})
            # the text: the table in the real file is what the engine model's printer (EngineSM.sml_print = innerexpand_sml) appends,
            # which is the text of gen_sml's items (C09_engine_text); the indentation is the shipped template's
            ws = " " * 16
            rws = [list(r) for r in table]
            printed = ctx.km.call("sml.print", ws, "1", rws).decode("utf-8", "surrogateescape")
            ctx.count("sml_table_text_compared")
            if printed == "" or printed not in files.get("%sStateMachineImpl_SML.cpp" % NAME, ""):
                ctx.tie_broken("the transition table text of the generated Impl_SML.cpp differs from EngineSM.sml_print", {"table": table, "model": printed[:1500]})
            if ctx.km.call("sml.text", ws, "1", rws).decode("utf-8", "surrogateescape") != printed:
                ctx.tie_broken("SmlRender.sml_text differs from EngineSM.sml_print although C09_engine_text is proved", {"table": table})
        rows, hooks = spec_items(table)
        got_rows = [i for i in items if i[0] == "row"]
        got_hooks = sorted(i for i in items if i[0] != "row")
        if got_rows != rows:
            k = next((j for j, (a, b) in enumerate(zip(got_rows, rows)) if a != b), min(len(rows), len(got_rows)))
            return "sml row %d is %r, the table says %r" % (k, got_rows[k:k + 1], rows[k:k + 1]), "sml-rows"
        if got_hooks != hooks:
            return "entry/exit hook rows %r, the table's states need %r" % (got_hooks, hooks), "sml-hooks"
        if evs_with_args is not None:
            evs = [e for e, _a in evs_with_args]
            got = py_sml_run(items, evs, bits)
            want = camel_quiet_interp(table, evs, bits)
            if got != want:
                k = next((j for j, (a, b) in enumerate(zip(got, want)) if a != b), 0)
                return "reading the emitted table (stated sml semantics), step %d does %r, the table interpreter %r" % (k, got[k], want[k]), "sml-reading"
            if ctx.km is not None:
                m1 = smlib.km_steps(ctx.km.call("sml_run", table, evs, smlib.bits_arg(bits)))
                m2 = smlib.km_steps(ctx.km.call("camel_interp_quiet", table, evs, smlib.bits_arg(bits)))
                if m2 != want:
                    ctx.tie_broken("Spec camel_steps(table_interp_quiet) vs the Python reading of the property", {"table": table, "events": evs, "bits": bits})
                if m1 != m2:
                    ctx.tie_broken("extracted SmlTT.sml_run differs from the interpreter although C09_sem is proved", {"table": table, "events": evs, "bits": bits})
                if m1 != got:
                    ctx.tie_broken("correspondence Python reading of the real table text vs SmlTT.sml_run", {"table": table, "events": evs, "bits": bits})
            ctx.count("sml_reading_cases")
        smlib.decl_correspondence(ctx, "cpp", files, table, spec)
        r = check_decls(table, spec, files)
        if r:
            return r, "cpp-declarations"
        if compile_it:
            for unit in ("%sStateMachineImpl_SML.cpp" % NAME, "Test.%sStateMachine.cpp" % NAME):
                rc, out = gxx(d, unit, dll)
                ctx.count("g++_units")
                if rc:
                    errs = [l for l in out.split("\n") if "error" in l][:3]
                    return "g++ -fsyntax-only %s: %s" % (unit, " | ".join(errs)), "cpp-typecheck"
            if evs_with_args is not None and spec.get("usertags", {}).get("StateMachineThread") == "0":
                r = exec_compiled_case(d, table, spec, ns, dll, evs_with_args, bits)
                ctx.count("compiled_and_executed")
                if r:
                    return r, "cpp-executed-behaviour"
    return None, None


def gen_case(rng, i):
    table = smlib.random_table(rng, collide=(i % 4 == 0))
    tags = {}
    for k in ("StateMachineThread", "Verbose"):
        c = rng.choice(["0", "1", None])
        if c is not None:
            tags[k] = c
    spec = smlib.random_iface_spec(rng, table, "cpp", tags, extra_events=rng.choice([0, 0, 1]))
    ns = rng.choice(["NS", "My::Deep::NS", "kv"])
    dll = rng.choice(["", "", "MY_EXPORT"])
    members = {nm: mem for nm, mem in spec["structs"]}
    evnames = smlib.names(table)[1] + [nm for nm in members if nm not in smlib.names(table)[1]]
    evs = []
    for _ in range(rng.randint(0, 12)):
        e = rng.choice(evnames)
        evs.append([e, [rng.randint(0, 1) if m[1] == "bool" else rng.randint(0, 99) for m in members.get(e, [])]])
    bits = [rng.random() < 0.5 for _ in range(40)]
    return table, spec, ns, dll, evs, bits


KNOWN_PROBES = [
    # a guard named Gnone: its functor instance `gnone` hides the always-true guard used by unguarded rows
    ([["S", "E", "T", "OnA", "Gnone"], ["S", "F", "T", "OnA", "None"]], "cpp-guard-named-Gnone"),
]


def run(ctx):
    for p in sorted(glob.glob(os.path.join(VERIF, "corpus", "C09", "*.json"))):
        data = unjson(json.load(open(p)))
        ctx.case(("corpus", p))
        ctx.count("corpus")
        if not replay(ctx, data):
            ctx.violation("corpus case %s fails" % os.path.basename(p), dict(data, finding_key=data.get("finding_key", "corpus:" + os.path.basename(p))))
    for table, key in KNOWN_PROBES:
        # the always-true guard must not be a user guard: with guard Gnone the unguarded row's [gnone] is the user's functor
        with scratch() as d:
            kj.generate("cpp", d, table=table, iface=smlib.build_iface({"structs": [], "usertags": {}}), name=NAME)
            impl = open(os.path.join(d, "%sStateMachineImpl_SML.cpp" % NAME)).read()
        ctx.case(("known-probe", key))
        if re.search(r"^\s*Gnone +gnone;", impl, re.M) and re.search(r"event<F>\s*\[gnone\]", impl):
            ctx.violation("an unguarded row's [gnone] resolves to the functor instance of the user guard Gnone",
                          {"table": table, "finding_key": key, "iface": {"structs": [], "usertags": {}}, "ns": "NS", "dll": "", "known_probe": True})
    # an action/guard whose lowerCamelCase form is a C++ keyword: its functor instance cannot be declared
    kw_table = [["S", "E", "T", "Do", "None"]]
    fail, _k = one_case(ctx, kw_table, {"structs": [], "usertags": {}}, "NS", "", True)
    ctx.case(("known-probe", "cpp-lowercamel-keyword"))
    if fail:
        ctx.violation(fail, {"table": kw_table, "iface": {"structs": [], "usertags": {}}, "ns": "NS", "dll": "", "finding_key": "cpp-lowercamel-keyword"})
    ev_table = [["S", "Event", "T", "OnA", "None"]]
    fail, _k = one_case(ctx, ev_table, {"structs": [], "usertags": {}}, "NS", "", True)
    ctx.case(("known-probe", "cpp-event-named-Event"))
    if fail:
        ctx.violation(fail, {"table": ev_table, "iface": {"structs": [], "usertags": {}}, "ns": "NS", "dll": "", "finding_key": "cpp-event-named-Event"})
    smlib.ttmodel_batch(ctx, ctx.budget(400, 5000))   # the table model this property's model is built on
    n = ctx.budget(250, 1500)
    every = 5 if ctx.quick and not ctx.broken else 3
    for i in range(n):
        table, spec, ns, dll, evs, bits = gen_case(ctx.rng, i)
        compile_it = (i % every == 0)
        if compile_it and i % (2 * every) == 0:
            spec["usertags"]["StateMachineThread"] = "0"      # every second compiled case is also executed (non-threaded)
        fail, key = one_case(ctx, table, spec, ns, dll, compile_it, evs, bits)
        tags = smlib.shape_tags(table)
        ctx.case((json.dumps(table), json.dumps(spec, sort_keys=True), ns, dll),
                 nontrivial=bool(tags & {"target_only_state", "row_without_target", "empty_string_target"}) or any(smlib.is_none(r[4]) or smlib.is_none(r[3]) for r in table))
        for tg in tags:
            ctx.count(tg)
        ctx.count("compiled" if compile_it else "not_compiled")
        if i < 2:
            ctx.sample({"table": table, "iface": spec, "ns": ns, "dll": dll})
        if fail:
            keep = lambda t: [ev for ev in evs if ev[0] in smlib.names(t)[1] + [nm for nm, _m in spec["structs"]]]  # noqa
            small = smlib.shrink_rows(table, lambda t: one_case(ctx, t, spec, ns, dll, key in ("cpp-typecheck", "cpp-executed-behaviour"), keep(t), bits)[0] is not None)
            ctx.violation(fail, {"table": small, "iface": spec, "ns": ns, "dll": dll, "finding_key": key, "original_table": table,
                                 "events": keep(small), "bits": bits})


def replay(ctx, data):
    if data.get("no_failing_input_found"):
        print(json.dumps(data.get("no_longer_checks"), indent=1)[:3000])
        return False
    if data.get("known_probe"):
        return False
    fail, _key = one_case(ctx, data["table"], data["iface"], data.get("ns", "NS"), data.get("dll", ""), True, data.get("events"), data.get("bits", []))
    if fail:
        print("replay:", fail)
    return fail is None
