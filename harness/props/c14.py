"""C14 -- the connection layer (IConnection::OnDataReceived) reassembles messages exactly under arbitrary fragmentation."""
import glob
import itertools
import json
import os
import subprocess

from .. import conn, kj
from ..check import COQ, VERIF, run_cmd, unjson

LEVEL = "proof"

MANIFEST = {
    "technique": "Coq refinement proof (invariant over the chunk list, induction on the recursion of OnDataReceived) + differential "
                 "correspondence of the extracted model against the compiled IConnection.cpp under ASan/UBSan",
    "text": "Theorems C14_reassembly (for ALL preambles, ALL well-formed streams F0 M1 F1 .. Mn Fn, ALL chunk lists whose concatenation is "
            "the stream: the OnMessageReceived calls are exactly M1..Mn in order, the run ends normally with an empty fragment buffer), "
            "C14_reassembly_prefix (the same after every prefix of the stream), C14_chunking_unobservable (= Spec stream_parse of the "
            "concatenated bytes), C14_raw (raw receiver: every non-empty chunk unmodified, in order), C14_safe / C14_never_fails (the repaired code on "
            "EVERY input -- arbitrary bytes, arbitrary chunking: never an out-of-bounds read of the data, never a failed assert, always "
            "terminates within fuel 2*count+2; invariant of the reachable states). The __arm__ configuration (fixed 512 byte buffer, uint16 "
            "count, exceed flag; Model/ConnArm.v) is a second model: C14_reassembly_arm (all streams whose messages are <= the largest message "
            "size, chunks <= FRAGMENT_BUF_SIZE - largest + 1, for every announced LargestMessageSize), C14_safe_arm (the repaired __arm__ code "
            "on every input), C14_reassembly_arm_chunk_bound_refuted (the chunk bound is forced: K-C14-3). The theorems are about Model/Conn.v, "
            "a function-by-function model of the non-__arm__ branch of IConnection.cpp with explicit uint32 wrap-around, explicit "
            "out-of-bounds / assert / non-termination outcomes, and the header layout regenerated from MsgHeader.h (Gen/CxxConn.v).",
    "note": "Trusted: Coq 8.16.1 kernel; no axioms; translator/cxxconn.py (header layout, parameter widths, preamble byte order, function "
            "inventory); extraction (ExtrOcamlBasic + ExtrOcamlNativeString) + ocaml/cmds_conn.ml; harness/cxx/conn_probe.cpp. "
            "Modelled, not verified: g++ 14 / x86-64 little-endian semantics of the C++ (struct access through a cast pointer, "
            "std::vector, integer conversions); the model is tied to the code by differential execution on the same inputs "
            "(exhaustive small scope + random well-formed + malformed streams, states compared after every run). 'Without memory "
            "errors' is not a Coq statement beyond the model's explicit out-of-bounds outcome for reads of the data array: it is "
            "observed with ASan/UBSan on every execution of the probe.",
}
RULE = ("(a) exhaustive: every single-message stream with a payload of <= 2 (quick) / <= 3 (thorough) bytes over {p0, p1, 0, x}, for a "
        "preamble with distinct and one with equal bytes, under EVERY cut set: model outcome (status, buffer, required, deliveries) vs the "
        "real code; (b) exhaustive on the real code against the message list itself: every stream of two messages with payloads <= 1 "
        "(quick; <= 2 and at most 18 stream bytes thorough) bytes over that alphabet, with and without fillers, under every cut set (enumerated inside the probe); "
        "(c) random well-formed streams (0..6 messages, payload 0..40 or up to 70000 bytes, payload bytes biased to the preamble bytes, "
        "fillers free of p0, random preambles incl. equal bytes and zero bytes) under random chunkings incl. empty chunks: model vs code "
        "and code vs message list vs Spec stream_parse; (d) malformed streams (garbage, lone p0, lying/truncated headers): model vs code; "
        "(e) raw receiver: chunks vs deliveries; (f) the same probe built with -D__arm__: random LargestMessageSize (0..65556), well-formed "
        "streams inside the domain of C14_reassembly_arm (deliveries = messages), well-formed streams of any size and malformed streams "
        "under any chunking: model vs code on status, count, exceed flag, required, deliveries and the WHOLE fixed buffer; no sanitizer report. A case = one (preamble, chunk list); distinct = distinct (preamble, chunk list); "
        "non-trivial = at least one message delivered or at least one byte left pending / skipped")
ASSUMPTIONS = [
    "C14_reassembly: every message has header + payload < 2^32 bytes (OnMessageReceived takes a uint32 count; the repaired code discards "
    "a header with PayloadSize > 0xFFFFFFFF - SizeOfHeader, fixed findings K-C14-1/2); C14_safe needs no assumption on the bytes",
    "every chunk: length + 8 <= 2^32 (count is a uint32 and uint32 totalFragmentedByteCount = count + pending bytes must not wrap)",
    "fillers between messages do not contain the preamble's first byte (as in the property statement)",
    "a message receiver is installed before the first byte arrives and the preamble does not change in between",
    "C14_reassembly_arm (__arm__ build): every message <= min(LargestMessageSize(), FRAGMENT_BUF_SIZE) bytes and every chunk <= "
    "FRAGMENT_BUF_SIZE - that + 1 bytes (K-C14-3 otherwise); the __arm__ branch needs printf and DEBUG_CODE from the build "
    "(harness/stubs/arm_prelude.h), on x86 -D__arm__ only selects the branch; the fixed buffer is zeroed by the probe (the class leaves it uninitialised)",
]
TRUSTED = [
    "Coq 8.16.1 kernel (coqc, full .vo build; vm_compute; coqchk in the thorough tier)",
    "axioms: none (Print Assumptions: Closed under the global context for every theorem of Props/C14.v)",
    "translator/cxxconn.py -> Gen/CxxConn.v (strict patterns; digests of the five source files re-checked on every run)",
    "extraction: ExtrOcamlBasic + ExtrOcamlNativeString, ocaml/cmds_conn.ml (a sample is re-evaluated by vm_compute on every run)",
    "harness/cxx/conn_probe.cpp (recording receiver, cut-set enumeration), g++ 14 -fsanitize=address,undefined",
    "modelled, not verified: C++ semantics of IConnection.cpp on x86-64 little-endian; tie = differential execution on every run",
]
ALLOWED_AXIOMS = []

# fingerprint of the C++ text the model was written against (translator/cxxconn.py: conn_fingerprint); a different value is no
# alarm, it multiplies the correspondence budget
MODELLED_FINGERPRINT = "5cf5b87a5e23c33e2c8e3edc774a0dfcfcd80922d4b453f1daf5f31218970107"
MODELLED_FUNCTIONS = ["ResetFragmentation", "FindPreamble", "PutIntoFragmentBuffer", "HandleFragmentedData", "HandleUnfragmentedData",
                      "OnDataReceived"]
OVERSIZE = {"preamble": b"\xaa\x55", "chunks": [bytes.fromhex("aa550100f8ffffff")], "oversize": True,
            "finding_key": "oversize-header:unfragmented"}     # fixed finding K-C14-1: must stay clean


def gen_facts():
    """(fingerprint, function names) as regenerated by the translator into Gen/CxxConn.v."""
    import re
    text = open(os.path.join(COQ, "theories", "Gen", "CxxConn.v")).read()

    def bs(m):
        return bytes(int(x) for x in m.split(";") if x).decode()
    fp = re.search(r"conn_fingerprint : string := \(bs \[([0-9;]*)\]\)", text)
    fns = re.search(r"conn_functions : list string := \[(.*?)\n  \]\.", text, re.S)
    names = [bs(x) for x in re.findall(r"\(bs \[([0-9;]*)\]\)", fns.group(1))] if fns else []
    return (bs(fp.group(1)) if fp else None), names


def alphabet(p):
    return sorted({p[0], p[1], 0, 0x78})


def small_messages(p, maxpayload):
    for n in range(maxpayload + 1):
        for pl in itertools.product(alphabet(p), repeat=n):
            yield conn.message(p, 1, bytes(pl))


MAX_REPORTS = 5


def enough(ctx):
    """A broken implementation fails thousands of cases: a handful of replay files is enough."""
    return len(ctx.violations) >= MAX_REPORTS


def observe(ctx, probe, p, chunks, expected, what, extra=None):
    """Run the real code on (p, chunks); the property holds iff the deliveries are exactly `expected` and nothing is left pending."""
    if enough(ctx):
        return None
    r = conn.parse_ok(probe.ask("M %s %s" % (p.hex(), " ".join(conn.hx(c) for c in chunks)))[0])
    if r[0] == "crash":
        rep = {"preamble": p, "chunks": chunks, "expected": expected, "detail": "probe died: " + r[4][:600], "finding_key": "memory-error"}
        rep.update(extra or {})
        ctx.violation("%s: sanitizer report / crash of the real code" % what, rep)
        return None
    ok = r[3] == expected and r[1] == b"" and r[2] == 0
    if not ok:
        rep = {"preamble": p, "chunks": chunks, "expected": expected, "observed": r[3], "pending": r[1],
               "finding_key": "reassembly:%s" % what}
        rep.update(extra or {})
        ctx.violation("%s: deliveries differ from the messages of the stream" % what, rep)
    return r


def correspond(ctx, probe, p, chunks, what):
    """Model vs real code on one chunk list (any input). Returns the model outcome."""
    m = conn.model_outcome(ctx.km.call("conn_feed", p, chunks))
    r = conn.parse_ok(probe.ask("M %s %s" % (p.hex(), " ".join(conn.hx(c) for c in chunks)))[0])
    if r[0] == "crash" and m[0] in ("oob", "fuel"):
        # the model predicts exactly this: a header whose PayloadSize wraps the uint32 message size (K-C14-1 / K-C14-2)
        ctx.count("crash_predicted_by_model_%s" % m[0])
        return m, r
    if m != r[:4] and len(ctx.broken) < MAX_REPORTS:
        ctx.tie_broken("correspondence IConnection::OnDataReceived vs Conn.feed (%s)" % what,
                       {"preamble": p.hex(), "chunks": [c.hex() for c in chunks], "model": repr(m), "code": repr(r)[:800]})
    return m, r


def vm_recheck(ctx, cases):
    """Re-evaluate a sample of model calls inside Coq (vm_compute): bounds the trust in extraction + OCaml glue."""
    def coq_bytes(b):
        return "[" + ";".join("ascii_of_N %d" % x for x in b) + "]"
    lines = ["From Coq Require Import String Ascii List NArith.", "From KV Require Import Lib.Str Lib.ByteSeq Model.Conn.",
             "Import ListNotations.", "Open Scope N_scope."]
    for i, (p, chunks, out) in enumerate(cases):
        status, buf, req, ds = out
        if status != "ok":
            continue
        lines.append("Example recheck_%d : feed (ascii_of_N %d) (ascii_of_N %d) init [%s] = Done (mkSt %s %d) [%s].\nProof. vm_compute. reflexivity. Qed."
                     % (i, p[0], p[1], ";".join(coq_bytes(c) for c in chunks), coq_bytes(buf), req, ";".join(coq_bytes(d) for d in ds)))
    with kj.scratch() as d:
        path = os.path.join(d, "Recheck.v")
        with open(path, "w") as f:
            f.write("\n".join(lines) + "\n")
        rc, out = run_cmd(["coqc", "-Q", os.path.join(COQ, "theories"), "KV", path], cwd=d, timeout=600)
    if rc:
        ctx.tie_broken("extracted model disagrees with vm_compute of Model/Conn.v on a sampled case", out[-1500:])
    ctx.count("vm_compute_rechecked", len(cases))


def oversize_replay(exe):
    """K-C14-1 on the real code, in a process of its own: True iff the real code crashes / never returns."""
    try:
        p = subprocess.run([exe], input=b"M aa55 aa550100f8ffffff\n", stdout=subprocess.PIPE, stderr=subprocess.PIPE,
                           env=conn.ENV, timeout=300)
    except subprocess.TimeoutExpired:
        return True, "timeout"
    out = p.stdout.decode()
    if p.returncode != 0 or not out.startswith("ok"):
        err = p.stderr.decode("utf-8", "replace")
        kind = "stack-overflow" if "stack-overflow" in err else "exit=%s" % p.returncode
        return True, kind
    return False, out.strip()


def run(ctx):
    with kj.scratch() as d:
        exe, out = conn.compile_probe(d)
        if exe is None:
            ctx.tie_broken("the probe around IConnection.cpp does not compile", out[-2000:])
            return
        probe = conn.Probe(exe)
        try:
            _run(ctx, probe, exe)
        finally:
            probe.close()
        if not enough(ctx):
            run_arm(ctx, d)


# ---------------------------------------------------------------- the __arm__ configuration

K3 = None


def k3_case():
    """K-C14-3: 100 byte message, 50 bytes pending, next chunk 500 bytes (50 + 500 > FRAGMENT_BUF_SIZE)."""
    p = b"\xaa\x55"
    m100, m28 = conn.message(p, 1, b"\x07" * 92), conn.message(p, 1, b"\x07" * 20)
    s = m100 + m28 * 16 + m28[:2]
    return {"arm": True, "largest": 512, "preamble": p, "chunks": [s[:50], s[50:]], "expected": [m100] + [m28] * 16,
            "finding_key": "arm:chunk-exceeds-buffer"}


def arm_exec(ctx, probe, p, largest, chunks):
    """(model outcome or None, real outcome) for one vector of the __arm__ build."""
    probe.ask("L %d" % largest)
    r = conn.parse_arm(probe.ask("M %s %s" % (p.hex(), " ".join(conn.hx(c) for c in chunks)))[0])
    m = conn.model_arm(ctx.km.call("conn_feed_arm", p, str(largest).encode(), chunks)) if ctx.km is not None else None
    return m, r


def arm_replay(probe, data):
    probe.ask("L %d" % data.get("largest", 512))
    r = conn.parse_arm(probe.ask("M %s %s" % (data["preamble"].hex(), " ".join(conn.hx(c) for c in data["chunks"])))[0])
    if r[0] == "crash":
        return False
    exp = data.get("expected")
    return True if exp is None else (r[5] == exp)


def run_arm(ctx, d):
    rng = ctx.rng
    exe, out = conn.compile_probe_arm(d)
    if exe is None:
        ctx.tie_broken("the probe does not compile against the __arm__ branch (-D__arm__ -include harness/stubs/arm_prelude.h)", out[-2000:])
        return
    probe = conn.Probe(exe)
    try:
        cap = int(ctx.km.call("conn_arm_cap")) if ctx.km is not None else 512
        for path in sorted(glob.glob(os.path.join(VERIF, "corpus", "C14", "arm-*.json"))):
            data = unjson(json.load(open(path)))
            ctx.case(("corpus", path))
            if not arm_replay(probe, data):
                ctx.violation("corpus case %s fails" % os.path.basename(path), data)
        n = ctx.budget(2500, 40000)
        for i in range(n):
            if enough(ctx):
                break
            p = conn.random_preamble(rng)
            largest = rng.choice([512, 512, 256, 256, 64, 40, 16, 8, 5, 0, 513, 1000, 65535, 65536 + 20])
            eff = min(largest % 65536, cap)
            k = rng.random()
            if k < 0.4 and eff >= 8:
                # the domain of C14_reassembly_arm: messages <= largest, chunks <= cap - largest + 1
                items, tail = conn.arm_stream(rng, p, eff, fitting=True)
                s = conn.stream_of(items, tail)
                chunks = conn.chunking_within(rng, s, cap - eff + 1)
                kind, msgs = "arm_domain", [m for _f, m in items]
            elif k < 0.65:
                items, tail = conn.arm_stream(rng, p, eff, fitting=False)
                s = conn.stream_of(items, tail)
                chunks = conn.random_chunking(rng, s) if rng.random() < 0.5 else conn.coarse_chunking(rng, s, maxcuts=5)
                kind, msgs = "arm_wellformed_any_size", [m for _f, m in items]
            else:
                s = conn.malformed_stream(rng, p, maxlen=rng.choice([60, 700, 1500]))
                chunks = conn.random_chunking(rng, s) if rng.random() < 0.6 else conn.coarse_chunking(rng, s, maxcuts=4)
                kind, msgs = "arm_malformed", None
            m, r = arm_exec(ctx, probe, p, largest, chunks)
            ctx.case(("arm", p, largest, tuple(chunks)), nontrivial=bool(s))
            ctx.count(kind)
            if r[0] == "crash":
                ctx.violation("__arm__ build: sanitizer report / crash of the real code (%s)" % kind,
                              {"arm": True, "largest": largest, "preamble": p, "chunks": chunks, "expected": None,
                               "detail": r[6][:600], "finding_key": "arm:memory-error"})
                continue
            if m is not None:
                if m[0] != "ok" and len(ctx.broken) < MAX_REPORTS:
                    ctx.tie_broken("extracted __arm__ model ends with %r although C14_safe_arm is proved" % m[0],
                                   {"preamble": p.hex(), "largest": largest, "chunks": [c.hex() for c in chunks]})
                elif m != r[:6] and len(ctx.broken) < MAX_REPORTS:
                    ctx.tie_broken("correspondence IConnection (__arm__) vs ConnArm.feed_arm (%s)" % kind,
                                   {"preamble": p.hex(), "largest": largest, "chunks": [c.hex() for c in chunks],
                                    "model": repr((m[0], m[2:5], [len(x) for x in m[5]])), "code": repr((r[0], r[2:5], [len(x) for x in r[5]])),
                                    "array_equal": m[1] == r[1]})
                if m[3]:
                    ctx.count("arm_exceed_flag_set_at_end")
            if kind == "arm_domain":
                if ctx.km is not None and i % 20 == 0 and ctx.km.call("conn_arm_fits", str(largest).encode(), msgs, chunks) != b"1":
                    ctx.tie_broken("generator produced a stream outside the domain of C14_reassembly_arm", {"largest": largest})
                if r[5] != msgs or r[2] != 0 or r[3] or r[4] != 0:
                    ctx.violation("__arm__ build: deliveries differ from the messages of a stream within the bounds of C14_reassembly_arm",
                                  {"arm": True, "largest": largest, "preamble": p, "chunks": chunks, "expected": msgs,
                                   "observed_lengths": [len(x) for x in r[5]], "finding_key": "arm:reassembly"})
            if i < 1:
                ctx.sample({"arm": True, "largest": largest, "preamble": p.hex(), "chunks": [c.hex()[:40] for c in chunks][:6], "delivered": len(r[5])})
        # K-C14-3: the chunk bound is forced
        k3 = k3_case()
        ctx.case(("arm-k3",))
        if not arm_replay(probe, k3):
            ctx.count("arm_chunk_bound_case_loses_a_message")
            ctx.violation("__arm__ build: a chunk that exceeds the fragment buffer together with the pending bytes loses the pending message", k3)
        else:
            ctx.count("arm_chunk_bound_case_delivered")
    finally:
        probe.close()


def _run(ctx, probe, exe):
    rng = ctx.rng
    # 1 corpus
    for path in sorted(glob.glob(os.path.join(VERIF, "corpus", "C14", "*.json"))):
        if os.path.basename(path).startswith("arm-"):
            continue          # replayed by run_arm against the __arm__ build
        data = unjson(json.load(open(path)))
        ctx.case(("corpus", path))
        if not _replay(probe, exe, data):
            ctx.violation("corpus case %s fails" % os.path.basename(path), data)
    # translator facts
    fp, names = gen_facts()
    mult = 1
    if names != MODELLED_FUNCTIONS:
        ctx.tie_broken("the functions of IConnection.cpp are not the ones Model/Conn.v models", {"found": names})
    if fp != MODELLED_FINGERPRINT:
        mult = 10
        ctx.count("source_fingerprint_changed")
    if ctx.km is None:
        return _search(ctx, probe, exe)
    # 2a exhaustive single-message streams under every cut set: model vs code
    maxp = 3 if not ctx.quick or mult > 1 else 2
    for p in (b"\xaa\x55", b"\x7e\x7e"):
        for m in small_messages(p, maxp):
            if enough(ctx) or len(ctx.broken) >= MAX_REPORTS:
                break
            for stream in (m, b"\x01" + m + b"\x00" if p[0] != 1 else m):
                n = 1 << (len(stream) - 1)
                a = [conn.model_outcome(v) for v in ctx.km.call("conn_feed_cuts", p, stream)]
                b = [conn.parse_ok(l) for l in probe.ask("A %s %s" % (p.hex(), stream.hex()), nlines=n)]
                ctx.case(("cuts1", p, stream), n=n)
                ctx.count("exhaustive_single_message_cutsets", n)
                if a != [x[:4] for x in b]:
                    bad = next(i for i in range(min(len(a), len(b))) if a[i] != b[i][:4]) if len(a) == len(b) else -1
                    ctx.tie_broken("correspondence OnDataReceived vs Conn.feed (exhaustive cut sets)",
                                   {"preamble": p.hex(), "stream": stream.hex(), "mask": bad})
                    break
                if any(x[3] != [m] or x[1] != b"" for x in a) and not enough(ctx):
                    ctx.violation("single message not reassembled under some cut set",
                                  {"preamble": p, "chunks": [stream], "expected": [m], "all_cuts": True, "finding_key": "reassembly:cuts1"})
    # 2b random well-formed and malformed streams: model vs code, and the property itself on the well-formed ones
    n = ctx.budget(3000 * mult, 60000)
    recheck = []
    for i in range(n):
        if enough(ctx):
            break
        p = conn.random_preamble(rng)
        kind = rng.random()
        if kind < 0.55:
            big = rng.random() < 0.02
            items, tail = conn.wellformed_stream(rng, p, maxpayload=70000 if big else 40)
            s = conn.stream_of(items, tail)
            # (the list model is quadratic in the pending bytes: long messages get few cuts)
            chunks = conn.coarse_chunking(rng, s) if big else conn.random_chunking(rng, s)
            msgs = [m for _f, m in items]
            m, r = correspond(ctx, probe, p, chunks, "well-formed stream")
            if r[0] == "crash" or r[3] != msgs or r[1] != b"" or r[2] != 0:
                observe(ctx, probe, p, chunks, msgs, "random well-formed stream")
            if i % 50 == 0:
                # the hypotheses of C14_reassembly hold of what the generator produced; the spec parser agrees
                if ctx.km.call("conn_wf", p, [[f, mm] for f, mm in items], tail, chunks) != b"1":
                    ctx.tie_broken("generator produced a stream outside the theorem's domain", {"preamble": p.hex(), "stream": s.hex()})
                if ctx.km.call("conn_stream_parse", p, s) != msgs:
                    ctx.tie_broken("Spec.stream_parse differs from the message list on a well-formed stream", {"preamble": p.hex(), "stream": s.hex()})
            ctx.case((p, tuple(chunks)), nontrivial=bool(msgs) or bool(s))
            ctx.count("wellformed_msgs_%d" % min(len(msgs), 4))
            ctx.count("chunks_%s" % ("1" if len(chunks) <= 1 else "2-5" if len(chunks) <= 5 else "6-50" if len(chunks) <= 50 else ">50"))
            if p[0] == p[1]:
                ctx.count("preamble_equal_bytes")
            if len(recheck) < 6 and len(s) < 80 and msgs:
                recheck.append((p, chunks, m))
            if i < 2:
                ctx.sample({"preamble": p.hex(), "chunks": [c.hex() for c in chunks], "delivered": [x.hex() for x in r[3]]})
        elif kind < 0.9:
            s = conn.malformed_stream(rng, p)
            chunks = conn.random_chunking(rng, s)
            m, r = correspond(ctx, probe, p, chunks, "malformed stream")
            if m[0] != "ok" and len(ctx.broken) < MAX_REPORTS:
                ctx.tie_broken("extracted model ends with %r on arbitrary bytes although C14_safe is proved" % m[0],
                               {"preamble": p.hex(), "chunks": [c.hex() for c in chunks]})
            if conn.has_oversize_header(p, s):
                ctx.count("malformed_with_oversize_header")
                # which of the two new branches: the 8 header bytes inside one chunk (unfragmented path possible) or split (fragmented path)
                i = next(k for k in range(len(s)) if conn.has_oversize_header(p, s[k:k + 8]))
                pos = 0
                for c in chunks:
                    if pos <= i < pos + len(c):
                        ctx.count("oversize_header_inside_one_chunk" if i + 8 <= pos + len(c) else "oversize_header_split_over_chunks")
                    pos += len(c)
            if r[0] == "crash" and not enough(ctx):
                predicted = m[0] in ("oob", "fuel")
                ctx.violation("sanitizer report / crash of the real code on a malformed stream",
                              {"preamble": p, "chunks": chunks, "expected": None, "detail": r[4][:600], "model_status": m[0],
                               "finding_key": "oversize-header:garbage" if predicted else "memory-error"})
            ctx.case((p, tuple(chunks)), nontrivial=bool(m[3]) or bool(m[1]))
            ctx.count("malformed_%s" % ("delivers" if m[3] else "pending" if m[1] else "skipped"))
            if len(recheck) < 10 and i % 7 == 0:
                recheck.append((p, chunks, m))
        else:
            s = conn.biased_bytes(rng, p, rng.randint(0, 30))
            chunks = conn.random_chunking(rng, s)
            a = ctx.km.call("conn_feed_raw", chunks)
            b = probe.ask("R " + " ".join(conn.hx(c) for c in chunks))[0]
            t = b.split() if not isinstance(b, tuple) else ["crash"]
            got = [conn.unhx(x) for x in t[2:]] if t[0] == "raw" else None
            if got != a:
                ctx.tie_broken("correspondence OnDataReceived (raw receiver) vs Conn.feed_raw", {"chunks": [c.hex() for c in chunks]})
            if got != [c for c in chunks if c] and not enough(ctx):
                ctx.violation("raw receiver did not see every non-empty chunk unmodified",
                              {"raw": True, "chunks": chunks, "observed": got, "finding_key": "raw"})
            ctx.case(("raw", tuple(chunks)), nontrivial=bool(s))
            ctx.count("raw")
    vm_recheck(ctx, recheck)
    _search(ctx, probe, exe)


def _search(ctx, probe, exe):
    """The property itself on the real code, oracle = the list of messages the stream was built from (no model of the code)."""
    rng = ctx.rng
    # exhaustive two-message streams under every cut set, enumerated inside the probe
    thorough = not ctx.quick or bool(ctx.broken)
    maxp, maxlen = (2, 18) if thorough else (1, 18)
    lines, keys = [], []
    for p in (b"\xaa\x55", b"\x7e\x7e"):
        ms = list(small_messages(p, maxp))
        for a in ms:
            for b in ms:
                variants = [a + b]
                if thorough or len(a) + len(b) == 16:
                    variants.append(a + bytes([1 if p[0] != 1 else 2]) + b + b"\x00")
                for s in variants:
                    if len(s) > maxlen:
                        continue
                    lines.append("X %s %s 2 %s %s" % (p.hex(), s.hex(), a.hex(), b.hex()))
                    keys.append((p, s, [a, b]))
    try:
        res = probe.batch(lines)
    except RuntimeError as e:
        ctx.violation("sanitizer report / crash of the real code in the exhaustive two-message enumeration",
                      {"detail": str(e)[:1500], "finding_key": "memory-error", "exhaustive2": True, "maxpayload": maxp})
        res = []
    for (p, s, msgs), l in zip(keys, res):
        t = l.split()
        ncases, nfail = int(t[1]), int(t[2])
        ctx.case(("cuts2", p, s), n=ncases)
        ctx.count("exhaustive_two_message_cutsets", ncases)
        if nfail and not enough(ctx):
            chunks = conn.cut(s, int(t[3]))
            ctx.violation("two-message stream not reassembled under cut mask %s" % t[3],
                          {"preamble": p, "chunks": chunks, "expected": msgs, "finding_key": "reassembly:cuts2"})
    # random long streams against the message list
    n = ctx.budget(300, 6000)
    for i in range(n):
        if enough(ctx):
            break
        p = conn.random_preamble(rng)
        items, tail = conn.wellformed_stream(rng, p, nmsgs=rng.randint(1, 40), maxpayload=rng.choice([8, 64, 600]))
        s = conn.stream_of(items, tail)
        chunks = conn.random_chunking(rng, s)
        observe(ctx, probe, p, chunks, [m for _f, m in items], "long well-formed stream")
        ctx.case((p, tuple(chunks)))
        ctx.count("long_streams")
    # fixed K-C14-1: header announcing 2^32 - 8 payload bytes, in a process of its own (it used to overflow the stack)
    crashed, how = oversize_replay(exe)
    ctx.case(("oversize",))
    ctx.count("oversize_header_%s" % ("crashes:" + how if crashed else "survives"))
    if crashed:
        ctx.violation("8 header bytes announcing a payload of 2^32-8 bytes: OnDataReceived recurses until the stack overflows (%s)" % how,
                      dict(OVERSIZE))


def _replay(probe, exe, data):
    if data.get("oversize"):
        crashed, _ = oversize_replay(exe)
        return not crashed
    if data.get("exhaustive2"):
        return False
    if data.get("raw"):
        b = probe.ask("R " + " ".join(conn.hx(c) for c in data["chunks"]))[0]
        t = b.split() if not isinstance(b, tuple) else ["crash"]
        return t[0] == "raw" and [conn.unhx(x) for x in t[2:]] == [c for c in data["chunks"] if c]
    p, chunks, expected = data["preamble"], data["chunks"], data.get("expected")
    if data.get("all_cuts"):
        s = b"".join(chunks)
        res = probe.batch(["X %s %s %d %s" % (p.hex(), s.hex(), len(expected), " ".join(conn.hx(m) for m in expected))])
        return res[0].split()[2] == "0"
    r = conn.parse_ok(probe.ask("M %s %s" % (p.hex(), " ".join(conn.hx(c) for c in chunks)))[0])
    if r[0] == "crash":
        return False
    if expected is None:
        return True
    return r[3] == expected and r[1] == b"" and r[2] == 0


def replay(ctx, data):
    if data.get("no_failing_input_found"):
        print(json.dumps(data.get("no_longer_checks"), indent=1)[:3000])
        return False
    if data.get("arm"):
        with kj.scratch() as d:
            exe, out = conn.compile_probe_arm(d)
            if exe is None:
                print(out[-2000:])
                return False
            probe = conn.Probe(exe)
            try:
                return arm_replay(probe, data)
            finally:
                probe.close()
    with kj.scratch() as d:
        exe, out = conn.compile_probe(d)
        if exe is None:
            print(out[-2000:])
            return False
        probe = conn.Probe(exe)
        try:
            return _replay(probe, exe, data)
        finally:
            probe.close()
