"""C17 -- Template engine: user tags, IF/ELSEIF/ELSE and FOR follow their documented rules."""
import glob
import json
import os
import random

from .. import engine_e2e as e2e
from .. import engine_fl, kj
from ..check import VERIF, unjson
from ..kmodel import KModel

LEVEL = "proof"

MANIFEST = {
    "technique": "Coq proof (engine = reference expander on an explicit template grammar) + translator-regenerated pipeline + "
                 "function-level and end-to-end differential correspondence",
    "text": "Theorems, all full: C17_usertag (per-line user-tag replacement = assigned value / inline default / verbatim, every line of the "
            "syntax), C17_if (IF/ELSEIF branch emitted iff its tag is assigned, ELSE iff none was; scanner state machine, any number of "
            "branches), C17_for (the FOR loop proper: for every body and every list / count >= 1, FIRST / LAST lines anywhere and any number "
            "of them, innerexpand_for_loop = ref_for: two-loop invariant, str.replace acting segment-wise, the count's detour through "
            "'_0_,_1_,...'), C17_for_phase (PairExpander around the loop), C17_engine_is_ref (whole pipeline of smgen.Generate as extracted "
            "by the translator = reference expander, every template of in_grammar17 and every assignment of wf_assign17), "
            "C17_noninterference. Model tied to cgen.py/smgen.py by Gen/Tags.v + Gen/Pipeline.v (stage and phase order), function-level "
            "correspondence of every modelled function and end-to-end runs through Generate.StateMachine*.",
    "note": "Model of the repaired code (three fix: commits in the implementation). The grammar excludes the engine's substring quirks by "
            "boolean classification conditions that are evaluated on every generated case (a line is what the engine's substring tests "
            "take it for; FOR-header resolution through for_header_subst is such a condition, not proved for all tag names). CPython "
            "str/re semantics are modelled, not verified.",
}
RULE = ("(a) function level: every modelled cgen function against its extracted twin on random strings over < > = , space a b A _ { } \\n \\t "
        "mixed with whole tags and keywords; (b) end to end: template ASTs from the C17 grammar (plain lines with 0-4 literal/tag segments, "
        "IF blocks with 0-3 ELSEIF and optional ELSE, FOR blocks over literal lists, counts, user tags with/without default, FIRST/LAST lines), "
        "a quarter deliberately outside the grammar (keyword substrings, '<' '>' in text), rendered into a temporary template directory and "
        "run through the real Generate.StateMachine / _PYTHON / _CSHARP with a random transition table and a random subset of the tags "
        "assigned values '', None, numbers, strings; output compared with the extracted model (all cases) and with the Spec oracle ref17 "
        "(cases inside in_grammar17/wf_assign17); (c) pairs of runs differing in one tag value (non-interference, item-wise); "
        "(d) the shipped templates' StateMachineThread / Verbose tags. non-trivial = inside the grammar and at least one tag assigned or "
        "defaulted, or a block present; distinct = distinct (template, assignment, generator)")
ASSUMPTIONS = [
    "templates of in_grammar17: tag names, defaults without '<' '>', names without '='; literal text without \"<<<\" that does not begin with '<'; every line is classified by the "
    "engine's substring tests as what the syntax says (no line with a tag also contains IF / ELSE / FOR_BEGIN / FOR_END / a block keyword); "
    "no nested IF, no FOR inside IF bodies in the syntax; no run of blank lines (C16's clause); no first-filter tag (<<<NAMESPACE>>> ...)",
    "assignments of wf_assign17: values without '<' '>'; FOR headers resolve to a list with a comma or a count >= 1; substituted lines "
    "do not contain FOR_BEGIN / FOR_END next to a remaining tag",
    "template file names without TEMPLATE/template spellings; fresh output directory; ASCII",
]
TRUSTED = [
    "Coq 8.16.1 kernel (coqc; coqchk in the thorough tier); vm_compute, no native_compute",
    "axioms: none",
    "translator/tags.py + translator/pipeline.py (tag constants, expander stage order, Generate phase order)",
    "extraction (ExtrOcamlBasic + ExtrOcamlNativeString) and the OCaml driver",
    "modelled, not verified: CPython str methods and the `re` module on the single pattern <<<([^<>]*)>>> ; str() of numbers is taken from Python",
    "not modelled: first-filter replacement values, EXTENDS/EXCLUDE, TTT table printers, preservation (no USER tags in probe templates), file-name replacement",
]

TABLE = [["SA", "E1", "SB", "Act1", "None"], ["SB", "E2", "SA", "None", "G1"]]


def table_for(seed):
    rng = random.Random(seed)
    return kj.random_table(rng) if seed else TABLE


def one_case(ctx, km, t, a, kind, table_seed, want_spec=True):
    """-> dict(real, model, spec, in_domain, lines)"""
    rng = random.Random(table_seed)
    table = table_for(table_seed)
    lines = e2e.render(t)
    mlines = [x.decode("utf-8", "surrogateescape") for x in km.call("s.render", t)]
    iface = e2e.make_iface(rng, table, kind, a)
    files = {"probe.txt": lines}
    real = e2e.run_real(kind, files, table, iface)
    model = e2e.run_model(km, files, table, iface, a)
    in_dom = km.call("d.in_grammar17", t) == b"1" and km.call("d.wf_assign17", t, e2e.mdict(a)) == b"1"
    spec = None
    if want_spec:
        s = km.call("s.ref17", e2e.mdict(a), t)
        spec = s[0].decode("utf-8", "surrogateescape") if s else None
    return {"real": real, "model": model, "spec": spec, "in_domain": in_dom, "render_agrees": lines == mlines, "lines": lines}


def real_text(r):
    if isinstance(r, tuple):
        return r[:2]
    return r.get("probe.txt")


def e2e_cases(ctx, n):
    km = ctx.km
    for i in range(n):
        quirk = ctx.rng.random() < 0.25
        t = e2e.template17(ctx.rng, quirk)
        a = e2e.assignment17(ctx.rng, t, quirk)
        kind = ctx.rng.choice(e2e.KINDS)
        seed = ctx.rng.randint(1, 1 << 30)
        r = one_case(ctx, km, t, a, kind, seed)
        ctx.count("e2e_" + kind)
        if not r["render_agrees"]:
            ctx.tie_broken("Spec render vs harness render", {"template": t})
        rt, mt = real_text(r["real"]), real_text(r["model"])
        if isinstance(rt, tuple) and isinstance(mt, tuple):
            ctx.count("e2e_both_raise")
        elif rt != mt:
            ctx.tie_broken("correspondence end-to-end Generate.StateMachine* vs EngineSM.generate",
                           {"template": t, "assignment": a, "kind": kind, "table_seed": seed, "real": rt, "model": mt})
        nontrivial = False
        if r["in_domain"]:
            ctx.count("inside_grammar")
            nontrivial = any(it[0] != "P" for it in t) or bool(a)
            for it in t:
                ctx.count("item_" + it[0])
            if rt != r["spec"]:
                ctx.violation("output differs from the reference expander on a template of the grammar",
                              {"template": t, "assignment": a, "kind": kind, "table_seed": seed, "real": rt, "expected": r["spec"],
                               "finding_key": "grammar-case"})
        else:
            ctx.count("outside_grammar" + ("_quirk" if quirk else "_plain"))
            if r["spec"] is not None and rt != r["spec"]:
                ctx.count("outside_grammar_deviates_from_reference")
        ctx.case((json.dumps(t), json.dumps(a, sort_keys=True, default=repr), kind), nontrivial=nontrivial)
        if r["in_domain"] and nontrivial:
            ctx.sample({"template_lines": r["lines"], "assignment": a, "kind": kind, "output": rt})


def noninterference_cases(ctx, n):
    """pairs of real runs that differ in the value of one assigned tag x: items that do not reference x (in a line, a branch
    tag is irrelevant -- the same tags are assigned -- or a FOR header) produce identical output lines"""
    km = ctx.km
    done = 0
    tries = 0
    while done < n and tries < 20 * n:
        tries += 1
        t = e2e.template17(ctx.rng, False)
        a = e2e.assignment17(ctx.rng, t, False)
        if not a:
            continue
        x = ctx.rng.choice(sorted(a))
        hdr_names = {it[1][1] for it in t if it[0] == "F" and it[1][0] == "HT"}
        a2 = dict(a)
        a2[x] = ctx.rng.choice([v for v in (e2e.LISTS + e2e.COUNTS if x in hdr_names else e2e.VALUES) if v != a[x]])
        if km.call("d.in_grammar17", t) != b"1" or km.call("d.wf_assign17", t, e2e.mdict(a)) != b"1" \
                or km.call("d.wf_assign17", t, e2e.mdict(a2)) != b"1":
            continue
        kind = ctx.rng.choice(e2e.KINDS)
        seed = ctx.rng.randint(1, 1 << 30)
        table = table_for(seed)
        outs = []
        for asg in (a, a2):
            iface = e2e.make_iface(random.Random(seed), table, kind, asg)
            outs.append(real_text(e2e.run_real(kind, {"probe.txt": e2e.render(t)}, table, iface)))
        done += 1
        ctx.count("noninterference_pairs")
        if any(isinstance(o, tuple) or o is None for o in outs):
            ctx.violation("generation failed on a template of the grammar", {"template": t, "assignment": a, "assignment2": a2, "kind": kind,
                                                                           "table_seed": seed, "finding_key": "grammar-case", "pair": True})
            continue
        # segment both outputs item by item with the line counts of the reference expander
        pos = [0, 0]
        olines = [kj.splitlines_keep(o.encode()) for o in outs]
        ok = True
        for it in t:
            cnt = []
            for asg in (a, a2):
                r = km.call("s.ref17", e2e.mdict(asg), [it])
                cnt.append(len(kj.splitlines_keep(r[0])) if r else 0)
            seg = [olines[k][pos[k]:pos[k] + cnt[k]] for k in (0, 1)]
            pos = [pos[0] + cnt[0], pos[1] + cnt[1]]
            refs = x in e2e.names_of([it]) and item_mentions(it, x)
            if seg[0] != seg[1] and not refs:
                ok = False
            if it[0] in ("P", "C") and seg[0] != seg[1] and len(seg[0]) != len(seg[1]):
                ok = False      # same tags assigned -> same branches -> same number of lines
        ctx.case(("ni", json.dumps(t), json.dumps(a, sort_keys=True, default=repr), x), nontrivial=(outs[0] != outs[1]))
        if outs[0] != outs[1]:
            ctx.count("noninterference_pairs_with_a_difference")
        if not ok:
            ctx.violation("changing the value of one user tag changed output of an item that does not reference it",
                          {"template": t, "assignment": a, "assignment2": a2, "x": x, "kind": kind, "table_seed": seed,
                           "finding_key": "noninterference", "pair": True})


def item_mentions(it, x):
    def line(l):
        return any(g[0] == "T" and g[1] == x for g in l)
    if it[0] == "P":
        return line(it[1])
    if it[0] == "C":
        return any(line(l) for _t, ls in [it[1]] + it[2] for l in ls) or any(line(l) for ls in it[3] for l in ls)
    return (it[1][0] == "HT" and it[1][1] == x) or any(line(l) for l in it[2])


SHIPPED = {"py": ("statemachine_templates_py", [("TEMPLATEStateMachine.py", "StateMachineThread")]),
           "cs": ("statemachine_templates_cs_winlinmac", [("TEMPLATEStateMachine.cs", "StateMachineThread"), ("TEMPLATEInternals.cs", "StateMachineThread"),
                                                          ("Test.TEMPLATEStateMachine.cs", "Verbose")]),
           "cpp": ("statemachine_templates_embedded_arm", [("TEMPLATEStateMachine.h", "StateMachineThread"), ("ITEMPLATEController.h", "Verbose")])}


def shipped_cases(ctx):
    """the shipped templates' own user tags: the tagged line carries the assigned value / the default 1, and two runs that differ in
    one tag differ in exactly the lines generated from template lines that reference it"""
    for kind, (tdir, uses) in SHIPPED.items():
        for vals in ({}, {"StateMachineThread": 0}, {"Verbose": 0}, {"StateMachineThread": "", "Verbose": None}, {"StateMachineThread": 7, "Verbose": "yes"}):
            trees = {}
            for tagset in (vals, dict(vals, StateMachineThread="CHANGED")):
                rng = random.Random(5)
                iface = kj.events_interface(rng, kj.CDPLAYER, lang=kind, usertags=tagset)
                with kj.scratch() as d:
                    kj.generate(kind, d, table=kj.CDPLAYER, iface=iface, name="CD")
                    trees[json.dumps(tagset, sort_keys=True, default=repr)] = kj.read_tree(d)
            ta, tb = list(trees.values())
            ok = True
            for fname, tagname in uses:
                tl = [l for l in open(os.path.join(kj.REPO, "kojen", tdir, fname)).read().split("\n") if "<<<" + tagname + "=" in l]
                out = ta[fname.replace("TEMPLATE", "CD")].decode().split("\n")
                for l in tl:
                    v = vals.get(tagname, 1) if tagname in vals else "1"
                    want = l.replace("<<<%s=1>>>" % tagname, "" if v is None else str(v)).replace("\t", "    ")
                    if want not in out:
                        ok = False
                        ctx.violation("shipped template: the line with <<<%s=1>>> does not carry the assigned value / default" % tagname,
                                      {"kind": kind, "tags": vals, "file": fname, "want": want, "finding_key": "shipped-usertag", "shipped": True})
            for rel in ta:
                la, lb = ta[rel].split(b"\n"), tb.get(rel, b"").split(b"\n")
                diff = [i for i in range(max(len(la), len(lb))) if (la[i:i + 1] != lb[i:i + 1])]
                for i in diff:
                    if i >= len(lb) or b"CHANGED" not in lb[i]:
                        ok = False
                        ctx.violation("shipped template: changing StateMachineThread changed a line that does not carry it",
                                      {"kind": kind, "tags": vals, "file": rel, "line": i, "finding_key": "shipped-noninterference", "shipped": True})
                        break
            ctx.case(("shipped", kind, json.dumps(vals, sort_keys=True, default=repr)), nontrivial=ok)
            ctx.count("shipped_" + kind)


# directed probes of the shapes the grammar excludes: [name, template, assignment]
P = lambda *segs: ["P", list(segs)]  # noqa
L = lambda s: ["L", s]  # noqa
T = lambda *a: ["T"] + list(a)  # noqa
PROBES = [
    ("substring-keyword-IF", [P(L("one")), P(L("NOTIFY("), T("A"), L(")")), P(L("two"))], {"A": "1"}),
    ("substring-keyword-ELSE", [["C", ["A", [[L("x ELSE y "), T("A")]]], [], [[[L("other")]]]]], {"A": "1"}),
    ("for-count-0", [["F", ["HL", "0"], [[L("x"), T("EACH")]]]], {}),
    ("for-default-shared", [["F", ["HT", "Items", "a,b"], [[T("EACH")]]], ["F", ["HT", "Items", "p,q"], [[T("EACH")]]]], {}),
    ("value-with-keyword", [P(T("A"), L(" "), T("G"))], {"A": "FOR_END"}),
    ("angle-bracket-text", [P(L("vector<"), T("A"), L(">"))], {"A": "int"}),
    ("angle-bracket-text-2", [P(L("a <<"), T("A"))], {"A": "int"}),
]
# shapes repaired by the fix: commits (kept as regression probes; they must agree with the reference now)
FIXED_PROBES = [
    ("mixed-assigned-unassigned", [P(T("A"), L(" x "), T("G"))], {"A": "va"}),
    ("default-beside-other-tag", [P(T("A"), L(" x "), T("B", "d"))], {}),
    ("default-beside-assigned-tag", [P(T("A"), L(" x "), T("B", "d"))], {"A": "va"}),
    ("key-substring-of-text", [P(L("BANANA "), T("G"))], {"A": "1"}),
    ("for-literal-list", [P(L("a")), ["F", ["HL", "x,y"], [[T("FIRST")], [L("_"), T("EACH"), L("_"), T("NUM"), T("ALPH"), T("each")], [T("LAST")]]], P(L("z"))], {}),
    ("for-literal-count", [["F", ["HL", "3"], [[L("_"), T("EACH"), L("_"), T("NUM")]]]], {}),
    ("for-count-as-number", [["F", ["HT", "N", "2"], [[L("_"), T("EACH")]]]], {"N": 3}),
    ("for-body-user-tag", [["F", ["HT", "Items", "x,y"], [[T("A"), L("_"), T("EACH")]]]], {"A": 1}),
]


def probe_cases(ctx):
    km = ctx.km
    for name, t, a in PROBES + FIXED_PROBES:
        r = one_case(ctx, km, t, a, "py", 0)
        rt = real_text(r["real"])
        ctx.case(("probe", name), nontrivial=True)
        ctx.count("probe")
        if rt != real_text(r["model"]) and not (isinstance(rt, tuple) and isinstance(real_text(r["model"]), tuple)):
            ctx.tie_broken("correspondence end-to-end on probe " + name, {"real": rt, "model": real_text(r["model"])})
        if rt != r["spec"]:
            ctx.violation("probe %s: output differs from the reference expander" % name,
                          {"probe": name, "template": t, "assignment": a, "kind": "py", "table_seed": 0, "real": rt, "expected": r["spec"],
                           "finding_key": name})
        elif (name, t, a) in PROBES:
            ctx.count("excluded_shape_agrees_with_reference:" + name)


def run(ctx):
    for p in sorted(glob.glob(os.path.join(VERIF, "corpus", "C17", "*.json"))):
        data = unjson(json.load(open(p)))
        ctx.case(("corpus", p))
        if not replay(ctx, data):
            ctx.violation("corpus case %s fails" % os.path.basename(p), data)
    if ctx.km is None:
        ctx.km = KModel() if os.path.exists(os.path.join(VERIF, "build", "kmodel")) else None
        if ctx.km is None:
            return
    try:
        engine_fl.run(ctx, ctx.budget(300, 5000))
    finally:
        engine_fl.close()
    probe_cases(ctx)
    e2e_cases(ctx, ctx.budget(250, 4000))
    noninterference_cases(ctx, ctx.budget(40, 600))
    shipped_cases(ctx)


def replay(ctx, data):
    if data.get("no_failing_input_found"):
        print(json.dumps(data.get("no_longer_checks"), indent=1)[:3000])
        return False
    if data.get("shipped"):
        return False
    km = ctx.km or KModel()
    try:
        t, kind, seed = data["template"], data.get("kind", "py"), data.get("table_seed", 0)
        if data.get("pair"):
            outs = []
            for asg in (data["assignment"], data["assignment2"]):
                r = one_case(ctx, km, t, asg, kind, seed)
                outs.append(real_text(r["real"]) == r["spec"])
            return all(outs)
        r = one_case(ctx, km, t, data["assignment"], kind, seed)
        return real_text(r["real"]) == r["spec"]
    finally:
        if ctx.km is None:
            km.close()
