"""C02 -- Model evolution: surviving tags keep their code, the rest follows the new model."""
import glob
import json
import os
import random

from .. import kj, presv, synth
from ..check import VERIF, unjson
from ..kj import blocks, read_tree, scratch, splice, splitlines_keep, tabnorm, tag_pairs, write_tree
from . import c01

from ..manifest_data import PRES_NOTE  # noqa: E402

LEVEL = "proof"

MANIFEST = {
    "technique": 'Coq proof (exact characterisation of emplace/collect) + differential correspondence',
    "text": 'Theorems C02_evolution / C02_tree_evolution / C02_chain (chains of models of any length) / C02_chain_step_shape / C02_old_model_irrelevant: regenerated file = fresh file of the new model with the old block of the same cleaned name under each tag; nothing else depends on the old model.',
    "note": PRES_NOTE,
}
RULE = ("cases = (generator kind, model m, mutated model m' (row/state/event/guard/action added, removed, renamed, reordered; other "
        "interface; other diagram / namespace option), user text under a random subset of m's tag pairs); the real generator regenerates "
        "m' over the directory of m; compared with the Coq model and with the oracle 'fresh tree of m' generated into an empty directory "
        "+ blocks of the old tree (harvested by the spec's own reader) under the tags of the same file and name'; plus synthetic code "
        "models; non-trivial = some block survives or is lost")
ASSUMPTIONS = c01.ASSUMPTIONS
TRUSTED = c01.TRUSTED


def one_case(ctx, kind, inp, inp2, user_seed, check_model=True):
    rng = random.Random(user_seed)
    if kind in ("py", "cs", "cpp") and (inp.get("reuse_iface") or (user_seed % 10 < 3 and "iface_table" not in inp2)):
        # the caller's Interface object (that of the old model) is handed to the generation of the old AND of the new model
        inp = dict(inp, reuse_iface="c02-%d" % user_seed)
        inp2 = dict(inp2, iface_table=inp["table"], reuse_iface=inp["reuse_iface"])
        presv.IFACES.pop(inp["reuse_iface"], None)
        ctx.count("reused_interface_object")
        if user_seed % 10 == 2 or inp.get("reuse_gen"):
            # ... and the generator object itself, constructed when the output directory did not exist yet
            inp = dict(inp, reuse_gen=inp["reuse_iface"])
            inp2 = dict(inp2, reuse_gen=inp["reuse_iface"])
            for k in [k for k in presv.GENS if k[0] == inp["reuse_gen"]]:
                presv.GENS.pop(k)
            ctx.count("reused_generator_object")
            evs = [r[1] for r in inp["table"]]
            if evs:
                ty = {"py": "int", "cs": "int", "cpp": "int32_t"}[kind]
                inp2 = dict(inp2, iface_extra=[evs[user_seed % len(evs)], "extraMember", ty])
    inp2_fresh = {k: v for k, v in inp2.items() if k not in ("reuse_iface", "reuse_gen")}
    with scratch() as d:
        out = os.path.join(d, "out")
        ref = os.path.join(d, "ref")
        try:
            presv.run_kind(kind, out, inp)
            presv.run_kind(kind, ref, inp2_fresh)
        except Exception as e:  # noqa -- generator rejects one of the models
            ctx.count("generator_rejected_input:%s" % type(e).__name__)
            return "trivial"
        t0 = read_tree(out)
        fresh2 = read_tree(ref)
        user = presv.user_blocks(rng, t0, density=rng.choice([0.5, 1.0]))
        t1 = splice(t0, user)
        write_tree(out, t1)
        names = None
        old = None
        fault_k = None
        if user_seed % 10 in (3, 4) and not inp.get("no_fault"):
            # an obstacle while the new files are written (disk full, read-only directory, ...): either the generation raises -- then
            # nothing is claimed about the directory here (C05 speaks about it) -- or it returns normally, and then the directory is
            # what the property says
            fault_k = rng.randrange(0, 5 * max(1, len(t0)))
        if fault_k is not None:
            from .. import faults
            # half of the obstacles hit the creation of a file (the j-th open), the others any operation
            spec = ({"kind": "open", "nth": fault_k % max(1, len(t0)), "mode": "exn", "scope": "createoutput"} if user_seed % 10 == 3
                    else {"op": fault_k, "mode": "exn", "scope": "createoutput"})
            un = faults.install({}, spec)
            try:
                with presv.Capture() as cap:
                    ret = presv.run_kind(kind, out, inp2)
            except OSError:
                ctx.count("fault_raised")
                return "trivial"
            finally:
                un()
            ctx.count("fault_survived_or_not_reached")
            check_model = False
        else:
            with presv.Capture() as cap:
                ret = presv.run_kind(kind, out, inp2)
        now = read_tree(out)
        if check_model and ctx.km:
            old = presv.old_spec(out, [])  # placeholder, real old taken below
        # model correspondence needs the old content as it was BEFORE the run
        if check_model and ctx.km:
            with scratch() as d2:
                write_tree(d2, t1)
                oldspec = presv.old_spec(d2, list(cap.fresh.keys()))
            written, returned = presv.model_regen(ctx.km, out, oldspec, cap.fresh)
            mt = presv.apply_model(t1, written)
            if mt != now or sorted(returned) != sorted(ret):
                bad = sorted(k for k in set(mt) | set(now) if mt.get(k) != now.get(k))
                ctx.tie_broken("correspondence: real regeneration (changed model) vs Model.Preserve.regen",
                               {"kind": kind, "input": inp, "input2": inp2, "user_seed": user_seed, "files": bad[:5]})
        # oracle
        oldb = blocks(t1)
        dup = {k for k, v in oldb.items() if len(v) > 1}
        exp = {}
        for rel, data in fresh2.items():
            lines = splitlines_keep(data)
            o = []
            pairs = {op: nm for (op, _c, nm) in tag_pairs(lines)}
            skip = False
            for i, l in enumerate(lines):
                o.append(l)
                if i in pairs and (rel, pairs[i]) in oldb:
                    if (rel, pairs[i]) in dup:
                        skip = True
                    o.extend(oldb[(rel, pairs[i])][-1])
            if not skip:
                exp[rel] = tabnorm(b"".join(o))
        bad = sorted(k for k in exp if now.get(k) != exp[k])
        untouched = sorted(k for k in t1 if k not in fresh2 and now.get(k) != t1[k])
        extra = sorted(k for k in now if k not in t1 and k not in fresh2 and not k.endswith(".LostCode.txt"))
        if bad or untouched or extra:
            return {"kind": kind, "input": inp, "input2": inp2, "user_seed": user_seed, "files": bad[:5], "modified_not_generated": untouched[:5],
                    "unexpected_files": extra[:5], "finding_key": "%s:%s:%s" % (kind, inp2.get("name"), os.path.basename((bad + untouched + extra)[0]))}
        return None if user else "trivial"


def run(ctx):
    for p in sorted(glob.glob(os.path.join(VERIF, "corpus", "C02", "*.json"))):
        data = unjson(json.load(open(p)))
        ctx.case(("corpus", p))
        if not replay(ctx, data):
            ctx.violation("corpus case %s fails" % os.path.basename(p), data)
    ctx.synth_filter = lambda f: "C03" not in f["what"]      # LostCode content/location is C03's clause
    n = ctx.budget(100, 3000)
    for i in range(n):
        fail, nt = synth.run_case(ctx, ctx.rng, "abs")
        ctx.case(("synth", i, ctx.rng.random()), nontrivial=nt)
        ctx.count("synthetic")
        if fail and not fail.get("crash") and "C03" not in fail["what"]:
            ctx.violation(fail["what"], fail)
    per_kind = ctx.budget(5, 100)
    for kind in presv.KINDS:
        for i in range(per_kind):
            _kw, inp = presv.random_input(ctx.rng, kind)
            inp["lang"] = kind
            inp2 = inp
            for _ in range(ctx.rng.randint(1, 3)):
                inp2 = presv.mutate_input(ctx.rng, kind, inp2)
            user_seed = ctx.rng.randint(0, 1 << 30)
            if i == 1 and kind in ("py", "cs", "cpp"):
                user_seed = user_seed - user_seed % 10 + 2      # one case per state-machine back end keeps interface AND generator object
            res = one_case(ctx, kind, inp, inp2, user_seed)
            ctx.case((kind, json.dumps(inp, sort_keys=True), json.dumps(inp2, sort_keys=True), user_seed), nontrivial=(res != "trivial"))
            ctx.count("e2e_" + kind)
            if i == 0:
                ctx.sample({"kind": kind, "input": inp, "input2": inp2, "user_seed": user_seed})
            if res and res != "trivial":
                ctx.violation("regenerated tree differs from fresh(new model) + old blocks under equal (file, tag)", res)


def replay(ctx, data):
    if data.get("no_failing_input_found"):
        print(json.dumps(data.get("no_longer_checks"), indent=1)[:3000])
        return False
    if data.get("synthetic"):
        fail, _ = synth.execute(ctx, data["fresh"], data["olds"], data.get("spelling", "abs"))
        return fail is None
    res = one_case(ctx, data["kind"], data["input"], data["input2"], data["user_seed"], check_model=False)
    return not (res and res != "trivial")
