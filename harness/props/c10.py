"""C10 -- Generated C# state machine implements exactly the transition table (token structure; no C# compiler exists here)."""
import glob
import itertools
import json
import os
import re

from .. import engine_e2e as e2e
from .. import kj, smlib
from ..check import VERIF, unjson
from ..kj import scratch
from translator import csmini

LEVEL = "proof"

MANIFEST = {
    "technique": "Coq proof (handler token expansion from the template shape, brace-parser lemma, helper methods as source-derived statement IR with a semantics, whole-machine run vs the table interpreter) + execution of the REAL generated C# text by a statement interpreter",
    "text": ("Theorems C10_threaded_safe / C10_sem_threaded (THREADED configuration, the default of the StateMachineThread user tag: Trigger<e> enqueues, the dispatch thread "
             "dequeues and dispatches; both executed from the IR that translator/cstmpl.py parses out of the SM_THREAD_1 branches, one statement per atomic step, as an LTS under an "
             "arbitrary schedule: under EVERY schedule what has been handled is the interpreter's run on a prefix of the Trigger order, and every schedule that lets the producer "
             "finish and then gives the dispatch thread 2n+1 turns -- every fair one -- handles all n events: exactly the interpreter's callbacks and states). "
             "Theorems C10_sem / C10_init (for every well-formed table, event sequence and guard oracle: constructing the machine -- constructor, Reset(), Enter<StateT>() "
             "executed from the IR that translator/cstmpl.py parses out of the templates -- runs the first state's entry hook exactly once, and every Trigger<e>, dispatched to "
             "the current state object's class, makes exactly the interpreter's callbacks and leaves estate at its state; a self transition is exit then entry), C10_handlers "
             "(per handler, Exit<S>()/Enter<T>() executed from their IR), C10_handlers_listed_only, C10_state_classes, C10_context_decls. Tie: handler token shape, helper-method "
             "IR and the Trigger<Event> shape regenerated into Gen/CsTmpl.v on every run; the real <Name>Internals.cs is tokenised and compared with CsSM.cs_handler; "
             "the real Context/Internals/StateMachine files are PARSED AND EXECUTED (translator/csmini.py: classes, fields, virtual dispatch, generics, new/is/as, "
             "if/return, assignments, calls; non-threaded preprocessor branch) under a recording context for random event sequences and guard bits and compared with a "
             "Python reading of the property; the SM_THREAD_1 branch of the same real files is executed too, under explicit cooperative schedules (csmini.Sched: "
             "ConcurrentQueue/Queue/BlockingCollection, Thread, AutoResetEvent/ManualResetEvent(Slim), SemaphoreSlim, Monitor/lock as scheduled primitives with a yield point "
             "before every operation; two random schedules per case and, every 40th case, all 2^7 decision prefixes on <= 3 events), oracle: callbacks = interpreter on the "
             "Trigger order and nothing left queued when nothing can happen any more; every threaded run is replayed operation by operation on the extracted LTS "
             "(CsThreads.trun); extracted run_cs = extracted table_interp_quiet; declaration triples vs Decls.decls_file. "
             "ENGINE BRIDGE (C10_handlers_engine, C10_handler_reads, C10_block_is_shipped): for every table with well-formed rows the file the engine model's pipeline (C16) writes from the transition block of the SHIPPED TEMPLATEInternals.cs (Model/CsRender.cs_block16: source-derived lines read into the template syntax, checked to render back) is one class text per cs_classes, one Trigger<e> override per cs_handlers, and the PER_GUARDTRANSITION lines of that override read one by one (without indentation) as the C# statements of the tokens cs_handler t s e; that text is found verbatim in the real <Name>Internals.cs on every case. WHOLE FILE (C10_file_engine): the shipped TEMPLATEInternals.cs as a whole lies in the C16 grammar (user-tag line, <<<TTT_BOOST_SML>>> line, per-state / per-event blocks, the transition block); for every table, interface and assignment of user tags admitted for it (cs_file_wf, evaluated per case) the pipeline's output is ref16 of the file, and the real <Name>Internals.cs is compared with it AS A WHOLE on every case."),
    "note": ("No C# compiler exists here: 'executed' means executed by the harness's own interpreter of the C# subset the generated files use (it refuses anything outside "
             "the subset); member types and C# name lookup are not checked by anything. The threaded LTS has one producer and runs a dequeued event's handler atomically (producers touch only the queue and the signal); the generated machine has no "
             "stop/Dispose, the dispatch thread is a background thread: termination is not part of the model. Primitives outside the scheduled set make the interpreter refuse. "
             "the class/handler nesting (PER_STATETRANSITION / PER_EVENTTRANSITION) is modelled in closed form, its template shape is checked by the translator."),
}
RULE = ("random well-formed tables (as C08) incl. colliding signature concatenations; C# primitive member types with (trailing) defaults; StateMachineThread 0/1/absent; "
        "random event sequences (0..12 events, incl. events the table never mentions) with arguments and random guard bits executed on the real generated text; "
        "every listed (state,event) handler additionally executed in isolation under six guard vectors. non-trivial = some handler has more than one row or a row "
        "without guard/target; distinct = (table, interface)")
ASSUMPTIONS = ["wf_table T (identifier domain as C08)", "defaults only on a trailing run of an event's members; member types are C# primitive types",
               "threaded configuration: one producer thread; fairness = the dispatch thread gets 2n+1 turns after the producer's n Triggers",
               "identifiers are not C# keywords / names fixed by the template (IDispatchable, <Name>State ...)"]
TRUSTED = ["Coq 8.16.1 kernel (coqc; coqchk in the thorough tier)", "axioms: none",
           "translator/cstmpl.py + translator/csmini.py (regex classification of the PER_GUARDTRANSITION lines and of the class/handler nesting; parser of the helper methods into the statement IR; fail closed)",
           "extraction: ExtrOcamlBasic + ExtrOcamlNativeString; ocaml/cmds_sm.ml", "harness C# tokenizer and the csmini interpreter (its reading of new/is/as/virtual calls/generics IS the assumed C# semantics)",
           "modelled, not verified: C# semantics of the statement subset; no C# compiler is available"]
ALLOWED_AXIOMS = []

NAME = "X"
TOK = [
    (r"if \(context\.(\w+)\(\)\)", "if"), (r"\{", "{"), (r"\}", "}"), (r"sm\.Exit<(\w+)>\(\);", "exit"), (r"context\.(\w+)\(data\);", "action"),
    (r"sm\.Enter<(\w+)>\(\);", "enter"), (r"sm\.estate = E%sState\.(\w+);" % NAME, "setstate"), (r"return;", "return"),
]


def match_brace(text, i):
    """index just after the brace matching text[i] == '{'"""
    depth = 0
    for j in range(i, len(text)):
        if text[j] == "{":
            depth += 1
        elif text[j] == "}":
            depth -= 1
            if depth == 0:
                return j + 1
    return -1


def tokenize(body):
    toks = []
    for line in body.split("\n"):
        t = line.strip()
        if not t or t.startswith("//"):
            continue
        for rx, kind in TOK:
            m = re.fullmatch(rx, t)
            if m:
                toks.append([kind, m.group(1) if m.groups() else ""])
                break
        else:
            return None, "unknown statement %r" % t
    return toks, None


def parse_internals(text):
    """[[class, [[event, tokens], ...], entry hook state, exit hook state], ...] or (None, why)."""
    res = []
    for m in re.finditer(r"internal class (\w+) : %sState\s*\{" % NAME, text):
        end = match_brace(text, m.end() - 1)
        if end < 0:
            return None, "unbalanced braces in class " + m.group(1)
        body = text[m.end():end - 1]
        handlers = []
        for h in re.finditer(r"internal override void Trigger(\w+)\(I%sContext context, %sStateMachine sm, (\w+) data\)\s*\{" % (NAME, NAME), body):
            if h.group(1) != h.group(2):
                return None, "handler Trigger%s takes %s" % (h.group(1), h.group(2))
            hend = match_brace(body, h.end() - 1)
            if hend < 0:
                return None, "unbalanced braces in handler"
            toks, why = tokenize(body[h.end():hend - 1])
            if toks is None:
                return None, why
            handlers.append([h.group(1), toks])
        en = re.findall(r"internal override void OnEntry\(I%sContext context\)\s*\{\s*context\.On(\w+)Entry\(\);\s*\}" % NAME, body)
        ex = re.findall(r"internal override void OnExit\(I%sContext context\)\s*\{\s*context\.On(\w+)Exit\(\);\s*\}" % NAME, body)
        res.append([m.group(1), handlers, en, ex])
    return res, None


def run_tokens(toks, s, e, bits):
    """Independent reading of the emitted statements: returns (callbacks, state object, estate, guard calls) or None if braces do not match."""
    pos, n = 0, 0
    obj = enum = s
    cbs = []
    depth_skip = None
    depth = 0
    while pos < len(toks):
        k, v = toks[pos]
        if k == "if":
            if pos + 1 >= len(toks) or toks[pos + 1][0] != "{":
                return None
            ok = bits[n] if n < len(bits) else False
            n += 1
            cbs.append(("guard", v, e))
            if not ok:   # skip the block
                d, pos = 0, pos + 1
                while pos < len(toks):
                    if toks[pos][0] == "{":
                        d += 1
                    elif toks[pos][0] == "}":
                        d -= 1
                        if d == 0:
                            break
                    pos += 1
                if pos >= len(toks):
                    return None
        elif k == "{":
            depth += 1
        elif k == "}":
            depth -= 1
            if depth < 0:
                return None
        elif k == "exit":
            cbs.append(("exit", obj, e))
        elif k == "action":
            cbs.append(("action", v, e))
        elif k == "enter":
            obj = v
            cbs.append(("entry", v, e))
        elif k == "setstate":
            enum = v
        elif k == "return":
            return cbs, obj, enum, n
        pos += 1
    return cbs, obj, enum, n


def quiet_step(table, s, e, bits):
    """The property read directly (C#: no no-transition hook)."""
    cbs, n, cur = [], 0, s
    for r in table:
        if r[0] != s or r[1] != e:
            continue
        if not smlib.is_none(r[4]):
            cbs.append(("guard", r[4], e))
            ok = bits[n] if n < len(bits) else False
            n += 1
            if not ok:
                continue
        if not smlib.is_none(r[2]):
            cbs.append(("exit", s, e))
        if not smlib.is_none(r[3]):
            cbs.append(("action", r[3], e))
        if not smlib.is_none(r[2]):
            cbs.append(("entry", r[2], e))
            cur = r[2]
        break
    return cbs, cur, n


def sig_of(spec, ev):
    for nm, mem in spec["structs"]:
        if nm == ev:
            return ", ".join("%s %s" % (ty, m) for m, ty, _d in mem)
    return ""


def check_decls(table, spec, files):
    st, ev, _ac, gu = smlib.names(table)
    events = ev + [nm for nm, _m in spec["structs"] if nm not in ev]
    sigs = []
    for r in table:
        if not smlib.is_none(r[3]) and (r[3], r[1]) not in sigs:
            sigs.append((r[3], r[1]))
    ctx_cs, sm_cs, internals = files["%sContext.cs" % NAME], files["%sStateMachine.cs" % NAME], files["%sInternals.cs" % NAME]
    iface = re.search(r"public interface I%sContext\s*\{(.*?)\n    \};" % NAME, ctx_cs, re.S)
    if not iface:
        return "context interface not found"
    ib = iface.group(1)
    checks = [
        ("context: guards", re.findall(r"^\s*bool (\w+)\(\);", ib, re.M), gu),
        ("context: action signatures", re.findall(r"^\s*void (\w+)\((\w+) data\);", ib, re.M), sigs),
        ("context: entry hooks", re.findall(r"^\s*void On(\w+)Entry\(\);", ib, re.M), st),
        ("context: exit hooks", re.findall(r"^\s*void On(\w+)Exit\(\);", ib, re.M), st),
        ("context: event classes", re.findall(r"public partial class (\w+) : IDispatchable \{\n", ctx_cs), events),
        ("internals: state enum", re.findall(r"^\s+(\w+),\s*$", (re.search(r"internal enum E%sState : ushort\s*\{(.*?)\};" % NAME, internals, re.S) or [None, ""])[1], re.M), st),
        ("internals: base handlers", re.findall(r"internal virtual void Trigger(\w+)\(I%sContext context, %sStateMachine sm, (\w+) data\)\{\}" % (NAME, NAME), internals), [(e, e) for e in events]),
        ("internals: dispatch", re.findall(r"sm\.state\.Trigger(\w+)\(controller, sm, this\);", internals), events),
        ("statemachine: Is<State>", re.findall(r"public bool Is(\w+)\(\)", sm_cs), st),
        ("statemachine: Trigger<Event>", re.findall(r"public void Trigger(\w+)\((.*)\)", sm_cs), [(e, sig_of(spec, e)) for e in events]),
    ]
    for what, found, expected in checks:
        found = sorted(tuple(x) if isinstance(x, (tuple, list)) else x for x in found)
        expected = sorted(tuple(x) if isinstance(x, (tuple, list)) else x for x in expected)
        if found != expected:
            return "%s: declared %r, referenced %r" % (what, found, expected)
    for nm, mem in spec["structs"]:
        body = re.search(r"public partial class %s : IDispatchable \{(.*?)\n    \};" % nm, ctx_cs, re.S)
        decl = re.findall(r"^\s+public ([\w:]+) (\w+)(?: = ([^;]+))?;\s*$", body.group(1) if body else "", re.M)
        want = [(ty, m, d or "") for m, ty, d in mem]
        if decl != want:
            return "event %s: members declared %r, interface says %r" % (nm, decl, want)
    m = re.search(r"Enter<(\w+)>\(\);\s*estate = E%sState\.(\w+);" % NAME, internals)
    if not m or m.group(1) != table[0][0] or m.group(2) != table[0][0]:
        return "Reset() does not enter the first row's start state"
    return None


def exec_real(files, table, spec, evs_with_args, bits):
    """Execute the REAL generated text (context, internals, state machine; non-threaded branch of the preprocessor) with the
    statement interpreter of translator/csmini.py: construct the machine with a recording context, call Trigger<e>(args) per
    event, read every Is<State>().  Returns ([(callbacks, states whose Is..() is true)], None) or (None, why)."""
    st, _ev, _ac, gu = smlib.names(table)
    texts = []
    for f in ("%sContext.cs", "%sInternals.cs", "%sStateMachine.cs"):
        texts.append(re.sub(r"(?m)^\s*#define SM_THREAD_\w+\s*$", "", files[f % NAME]))
    try:
        classes = csmini.parse_program(texts, {"SM_THREAD_0"})
    except csmini.CsError as e:
        return None, "the generated C# is outside the interpreted subset: %s" % e
    trace, count = [], [0]

    def cb(name, args):
        trace.append((name, [(a.cls, dict(a.fields)) if isinstance(a, csmini.Obj) else a for a in args]))
        if name in gu:
            i = count[0]
            count[0] += 1
            return bits[i] if i < len(bits) else False
        return None
    it = csmini.Interp(classes)
    smc = "%sStateMachine" % NAME
    steps = []
    try:
        sm = it.new(smc, [csmini.External(cb)])

        def snapshot():
            iss = [s for s in st if it.invoke(it.find_method(smc, "Is" + s), sm, None, [])]
            steps.append((list(trace), iss))
            del trace[:]
        snapshot()
        for ev, args in evs_with_args:
            m = it.find_method(smc, "Trigger" + ev)
            if m is None:
                return None, "no Trigger%s in the generated state machine" % ev
            it.invoke(m, sm, None, list(args))
            snapshot()
    except csmini.CsError as e:
        return None, "executing the generated C# raised: %s (after %d steps; callbacks so far %r)" % (e, len(steps), [n for n, _a in trace])
    return steps, None


def exec_threaded(files, table, spec, evs_with_args, bits, decisions, idle_limit=14):
    """Execute the THREADED configuration (SM_THREAD_1 branch) of the real generated text under an explicit cooperative schedule:
    the constructor starts the dispatch thread, one producer thread calls Trigger<e>(args) in order; at every yield point
    (Enqueue / TryDequeue / Sleep / WaitOne / Set / Start ...) `decisions` (then round robin) picks the thread that runs.
    The run ends when the producer is done and nothing can run, or nothing observable happened for `idle_limit` steps.
    Returns ({"trace": callbacks in order, "is": true Is<State>(), "schedule": [(thread, yield point)], "queued": left in queues}, None) or (None, why)."""
    st, _ev, _ac, gu = smlib.names(table)
    texts = []
    for f in ("%sContext.cs", "%sInternals.cs", "%sStateMachine.cs"):
        texts.append(re.sub(r"(?m)^\s*#define SM_THREAD_\w+\s*$", "", files[f % NAME]))
    try:
        classes = csmini.parse_program(texts, {"SM_THREAD_1"})
    except csmini.CsError as e:
        return None, "the generated C# (threaded configuration) is outside the interpreted subset: %s" % e
    trace, count = [], [0]

    def cb(name, args):
        trace.append(name)
        if name in gu:
            i = count[0]
            count[0] += 1
            return bits[i] if i < len(bits) else False
        return None
    rr = [0]

    def choose(names, step):
        if step < len(decisions):
            return names[decisions[step] % len(names)]
        rr[0] += 1
        return names[rr[0] % len(names)]
    sched = csmini.Sched(choose)
    it = csmini.Interp(classes, max_steps=400000, sched=sched)
    smc = "%sStateMachine" % NAME
    done = [False]
    try:
        sm = it.new(smc, [csmini.External(cb)])

        def producer():
            for ev, args in evs_with_args:
                m = it.find_method(smc, "Trigger" + ev)
                if m is None:
                    raise csmini.CsError("no Trigger%s in the generated state machine" % ev)
                it.invoke(m, sm, None, list(args))
            done[0] = True
        sched.spawn("producer", producer)
        idle, seen = 0, (0, 0)
        while True:
            who = sched.step()
            if who is None:
                break
            queued = sum(len(v.items) for v in sm.fields.values() if isinstance(v, csmini.Builtin))
            now = (len(trace), queued)
            idle = 0 if (now != seen or not done[0]) else idle + 1
            seen = now
            if done[0] and idle >= idle_limit:
                break
        queued = sum(len(v.items) for v in sm.fields.values() if isinstance(v, csmini.Builtin))
        iss = [s for s in st if it.invoke(it.find_method(smc, "Is" + s), sm, None, [])]
        return {"trace": list(trace), "is": iss, "schedule": list(sched.log), "queued": queued, "producer_done": done[0]}, None
    except csmini.CsError as e:
        return None, "executing the threaded configuration raised: %s (schedule so far %r)" % (e, sched.log[-12:])
    finally:
        sched.shutdown()


def threaded_case(ctx, files, table, spec, evs_with_args, bits, decisions):
    """Every triggered event is handled exactly once, in Trigger order, by the handler of the state the machine is in at that
    moment: the callbacks are those of the interpreter on the Trigger order. Returns (failure or None, schedule)."""
    evs = [e for e, _a in evs_with_args]
    want = quiet_interp(table, evs, bits)
    exp = []
    for cbs, _st in want:
        for kind, nm, _e in cbs:
            exp.append({"guard": nm, "action": nm, "exit": "On%sExit" % nm, "entry": "On%sEntry" % nm}[kind])
    r, why = exec_threaded(files, table, spec, evs_with_args, bits, decisions)
    if r is None:
        return why, None
    if ctx.km is not None:
        # schedule replay: the same sequence of atomic operations run by the extracted LTS (Model/CsThreads.v) must leave the
        # same callbacks and the same number of queued events
        ops = [w for _t, w in r["schedule"]]
        known = {"ConcurrentQueue.Enqueue": "1", "ConcurrentQueue.TryDequeue": "0", "Thread.Sleep": "0", "start": None, "Thread.Start": None}
        if all(w in known for w in ops):
            msched = [known[w] for w in ops if known[w] is not None]
            m = ctx.km.call("cs_threaded", table, evs, smlib.bits_arg(bits), msched)
            mtrace = [{"guard": nm, "action": nm, "exit": "On%sExit" % nm, "entry": "On%sEntry" % nm}[k]
                      for cbs, _s in smlib.km_steps(m[0]) for k, nm, _e in cbs]
            if mtrace != r["trace"] or int(m[1]) != r["queued"]:
                ctx.tie_broken("schedule replay: real threaded run vs CsThreads.trun on the same operation sequence",
                               {"table": table, "events": evs, "bits": bits, "schedule": r["schedule"], "real": r["trace"], "model": mtrace,
                                "queued_real": r["queued"], "queued_model": int(m[1])})
            ctx.count("threaded_schedule_replays")
        else:
            ctx.count("threaded_runs_with_operations_outside_the_LTS")
    sched = [t for t, _w in r["schedule"]]
    if not r["producer_done"]:
        return "the producer could not finish its Trigger calls (blocked) under the schedule", r["schedule"]
    if r["trace"] != exp:
        k = next((i for i, (a, b) in enumerate(zip(r["trace"], exp)) if a != b), min(len(r["trace"]), len(exp)))
        return ("threaded configuration: after %d Trigger calls and the dispatch thread running until nothing more happens, the callbacks are %r "
                "(%d events still queued); the table on the Trigger order says %r (first difference at %d)" % (
                    len(evs), r["trace"], r["queued"], exp, k)), r["schedule"]
    if r["is"] != [want[-1][1]]:
        return "threaded configuration: Is<State>() true for %r at the end, the table says %r" % (r["is"], want[-1][1]), r["schedule"]
    return None, r["schedule"]


def quiet_interp(table, evs, bits):
    return [([c for c in cbs if c[0] != "notrans"], s) for cbs, s in smlib.py_table_interp(table, evs, bits)]


def exec_case(ctx, files, table, spec, evs_with_args, bits):
    """The property on the executed real text; returns a failure description or None."""
    evs = [e for e, _a in evs_with_args]
    want = quiet_interp(table, evs, bits)
    if ctx.km is not None:
        r = ctx.km.call("run_cs", table, evs, smlib.bits_arg(bits))
        q = smlib.km_steps(ctx.km.call("table_interp_quiet", table, evs, smlib.bits_arg(bits)))
        if q != want:
            ctx.tie_broken("Spec table_interp_quiet vs the Python reading of the property", {"table": table, "events": evs, "bits": bits})
        if r[0] != b"ok" or smlib.km_steps(r[1]) != q:
            ctx.tie_broken("extracted CsSM.run_cs differs from extracted table_interp_quiet although C10_sem is proved", {"table": table, "events": evs, "bits": bits})
    steps, why = exec_real(files, table, spec, evs_with_args, bits)
    if steps is None:
        return why
    members = {nm: [m[0] for m in mem] for nm, mem in spec["structs"]}
    for i, ((tr, iss), (cbs, st)) in enumerate(zip(steps, want)):
        exp = []
        for kind, nm, e in cbs:
            exp.append({"guard": nm, "action": nm, "exit": "On%sExit" % nm, "entry": "On%sEntry" % nm}[kind])
        got = [n for n, _a in tr]
        where = "construction" if i == 0 else "Trigger%s (event %d)" % (evs[i - 1], i)
        if got != exp:
            return "%s: the generated C# calls %r, the table says %r" % (where, got, exp)
        if iss != [st]:
            return "%s: Is<State>() true for %r, the table says %r" % (where, iss, st)
        if i > 0:
            ev, args = evs_with_args[i - 1]
            payload = dict(zip(members.get(ev, []), args))
            for (n, a), (kind, _nm, _e) in zip(tr, cbs):
                if kind == "action" and (len(a) != 1 or a[0][0] != ev or {k: v for k, v in a[0][1].items() if k in payload} != payload):
                    return "%s: action %s received %r, triggered %s%r" % (where, n, a, ev, payload)
    return None


LAST_SCHEDULE = [None]


def one_case(ctx, table, spec, rng_bits, evs_with_args=None, decisions=None):
    with scratch() as d:
        kj.generate("cs", d, table=table, iface=smlib.build_iface(spec), name=NAME)
        files = {}
        for f in os.listdir(d):
            with open(os.path.join(d, f)) as fh:
                files[f] = fh.read()
    classes, why = parse_internals(files["%sInternals.cs" % NAME])
    if classes is None:
        ctx.tie_broken("C# tokenizer: " + why, {"table": table})
        return None, None
    if ctx.km is not None:
        dec = lambda v: [dec(x) for x in v] if isinstance(v, list) else v.decode()  # noqa
        model = dec(ctx.km.call("gen_cs", table))
        real = [[c, h] for c, h, _en, _ex in classes]
        if model != real:
            ctx.tie_broken("correspondence real state classes / handlers vs CsSM.cs_classes/cs_handlers/cs_handler", {"table": table, "real": real, "model": model})
        for c, hs in model:
            for e, toks in hs:
                if ctx.km.call("cs_parses", toks) != b"1":
                    ctx.tie_broken("CsSM.parse_braces rejects a handler although C10_handlers is proved", {"table": table, "state": c, "event": e})
        # the text: the state classes of the real <Name>Internals.cs are the reference expansion (ref16 = the engine, C16) of the
        # shipped transition block in the Coq template syntax (Model/CsRender.cs_block16), whose handler lines read as cs_handler
        ref = ctx.km.call("cs.block_ref", [list(r) for r in table], [], [], []).decode("utf-8", "surrogateescape")
        ctx.count("state_classes_text_compared")
        if ref == "" or ref not in files["%sInternals.cs" % NAME]:
            ctx.tie_broken("the state classes of the generated Internals.cs differ from ref16 of the shipped block (Model/CsRender.cs_block16)",
                           {"table": table, "ref16": ref[:1500]})
        # the WHOLE file: what the real pipeline writes from the shipped TEMPLATEInternals.cs is ref16 of the file read into the Coq
        # template syntax (C10_file_engine), for this table, this interface and this assignment of user tags
        iface = smlib.build_iface(spec)
        structs, protos, msgs = e2e.iface_parts(iface)
        ut = [[k, "" if v is None else str(v)] for k, v in spec.get("usertags", {}).items()]
        rws = [list(r) for r in table]
        if ctx.km.call("cs.file_wf", rws, structs, protos, msgs, ut) == b"1":
            ctx.count("whole_file_inside_domain")
            whole = ctx.km.call("cs.file_ref", rws, structs, protos, msgs, ut).decode("utf-8", "surrogateescape")
            if whole != files["%sInternals.cs" % NAME]:
                k = next((i for i, (x, y) in enumerate(zip(whole, files["%sInternals.cs" % NAME])) if x != y), min(len(whole), len(files["%sInternals.cs" % NAME])))
                ctx.tie_broken("the generated Internals.cs differs from ref16 of the whole shipped file (Model/CsRender.cs_file16)",
                               {"table": table, "usertags": ut, "at": k, "real": files["%sInternals.cs" % NAME][max(0, k - 80):k + 120], "ref16": whole[max(0, k - 80):k + 120]})
        else:
            ctx.count("whole_file_outside_domain")
    st = smlib.names(table)[0]
    got_classes = [c for c, _h, _en, _ex in classes]
    if sorted(got_classes) != sorted(st):
        return "state classes %r, states of the table %r" % (got_classes, st), "cs-state-classes"
    for c, hs, en, ex in classes:
        if en != [c] or ex != [c]:
            return "class %s: OnEntry/OnExit call the hooks of %r/%r" % (c, en, ex), "cs-hooks"
        listed = []
        for r in table:
            if r[0] == c and r[1] not in listed:
                listed.append(r[1])
        if [e for e, _t in hs] != listed:
            return "class %s overrides Trigger for %r, the table lists %r" % (c, [e for e, _t in hs], listed), "cs-handlers-listed"
        for e, toks in hs:
            for bits in rng_bits:
                got = run_tokens(toks, c, e, bits)
                want = quiet_step(table, c, e, bits)
                if got is None:
                    return "handler %s.Trigger%s: braces do not match" % (c, e), "cs-braces"
                if (got[0], got[1], got[3]) != want or got[1] != got[2]:
                    return "handler %s.Trigger%s under guards %r does %r -> object %s / estate %s, the table says %r -> %s" % (
                        c, e, bits[:want[2]], got[0], got[1], got[2], want[0], want[1]), "cs-behaviour"
                if ctx.km is not None:
                    sq = ctx.km.call("step_quiet", table, c, e, smlib.bits_arg(bits))
                    if ([(k.decode(), n.decode(), ev.decode()) for k, n, ev in sq[0]], sq[1].decode(), int(sq[2])) != want:
                        ctx.tie_broken("Spec step_rows_quiet vs the Python reading of the property", {"table": table, "state": c, "event": e, "bits": bits})
    smlib.decl_correspondence(ctx, "cs", files, table, spec)
    r = check_decls(table, spec, files)
    if r:
        return r, "cs-declarations"
    if evs_with_args is not None:
        r = exec_case(ctx, files, table, spec, evs_with_args, rng_bits[0] + rng_bits[1])
        if r:
            return r, "cs-executed-behaviour"
        for dec in (decisions or []):
            r, schedule = threaded_case(ctx, files, table, spec, evs_with_args, rng_bits[0] + rng_bits[1], dec)
            ctx.count("threaded_schedules")
            if r:
                LAST_SCHEDULE[0] = {"decisions": list(dec), "schedule": schedule}
                return r, "cs-threaded-behaviour"
    return None, None


def gen_case(rng, i):
    table = smlib.random_table(rng, collide=(i % 4 == 0))
    tags = {}
    c = rng.choice(["0", "1", None])
    if c is not None:
        tags["StateMachineThread"] = c
    spec = smlib.random_iface_spec(rng, table, "cs", tags, extra_events=rng.choice([0, 0, 1]))
    bits = [[rng.random() < 0.5 for _ in range(8)] for _ in range(4)] + [[False] * 8, [True] * 8]
    evnames = smlib.names(table)[1] + [nm for nm, _m in spec["structs"] if nm not in smlib.names(table)[1]]
    evs = []
    for _ in range(rng.randint(0, 12)):
        e = rng.choice(evnames)
        nargs = next((len(mem) for nm, mem in spec["structs"] if nm == e), 0)
        evs.append([e, [rng.randint(0, 99) for _ in range(nargs)]])
    return table, spec, bits, evs


def run(ctx):
    for p in sorted(glob.glob(os.path.join(VERIF, "corpus", "C10", "*.json"))):
        data = unjson(json.load(open(p)))
        ctx.case(("corpus", p))
        ctx.count("corpus")
        if not replay(ctx, data):
            ctx.violation("corpus case %s fails" % os.path.basename(p), dict(data, finding_key=data.get("finding_key", "corpus:" + os.path.basename(p))))
    smlib.ttmodel_batch(ctx, ctx.budget(400, 5000))   # the table model this property's model is built on
    n = ctx.budget(1200, 20000)
    for i in range(n):
        table, spec, bits, evs = gen_case(ctx.rng, i)
        # schedules of the threaded configuration: two random ones per case; every 40th case all 2^7 decision prefixes on <= 3 events
        decs = [[ctx.rng.randrange(3) for _ in range(ctx.rng.randint(0, 40))] for _ in range(2)]
        if i % 40 == 0:
            evs = evs[:3]
            decs = [list(d) for d in itertools.product([0, 1], repeat=7)]
            ctx.count("exhaustive_schedule_cases")
        fail, key = one_case(ctx, table, spec, bits, evs, decs)
        tags = smlib.shape_tags(table)
        ctx.case((json.dumps(table), json.dumps(spec, sort_keys=True)), nontrivial=bool(tags & {"multi_row_group", "row_without_target", "target_only_state"}))
        for tg in tags:
            ctx.count(tg)
        if i < 2:
            ctx.sample({"table": table, "iface": spec})
        if fail:
            bad = LAST_SCHEDULE[0]
            decs1 = [bad["decisions"]] if (key == "cs-threaded-behaviour" and bad) else decs
            small = smlib.shrink_rows(table, lambda t: one_case(ctx, t, spec, bits, [ev for ev in evs if ev[0] in smlib.names(t)[1] + [nm for nm, _m in spec["structs"]]], decs1)[0] is not None)
            evs = [ev for ev in evs if ev[0] in smlib.names(small)[1] + [nm for nm, _m in spec["structs"]]]
            if key in ("cs-threaded-behaviour", "cs-executed-behaviour"):     # shorten the event sequence too
                changed = True
                while changed and len(evs) > 1:
                    changed = False
                    for j in range(len(evs)):
                        cand = evs[:j] + evs[j + 1:]
                        try:
                            if one_case(ctx, small, spec, bits, cand, decs1)[1] == key:
                                evs, changed = cand, True
                                break
                        except Exception:  # noqa
                            pass
            fail2, _k = one_case(ctx, small, spec, bits, evs, decs1)
            rec = {"table": small, "iface": spec, "bits": bits, "events": evs, "finding_key": key, "original_table": table}
            if key == "cs-threaded-behaviour" and LAST_SCHEDULE[0]:
                rec["decisions"] = LAST_SCHEDULE[0]["decisions"]
                rec["schedule"] = LAST_SCHEDULE[0]["schedule"]
            ctx.violation(fail2 or fail, rec)


def replay(ctx, data):
    if data.get("no_failing_input_found"):
        print(json.dumps(data.get("no_longer_checks"), indent=1)[:3000])
        return False
    bits = data.get("bits") or [[False] * 8, [True] * 8, [True, False] * 4, [False, True] * 4]
    decs = [data["decisions"]] if data.get("decisions") is not None else [[], [0] * 12, [1] * 12, [0, 0, 0, 0, 1, 1], [1, 0] * 8]
    fail, _key = one_case(ctx, data["table"], data["iface"], bits, data.get("events", []), decs)
    if fail:
        print("replay:", fail)
    return fail is None
