"""C13 -- protocol round trip: a message sent through the generated transmitter over a loop-back connection reaches exactly the
matching handler of the generated receiver."""
import glob
import json
import os
import random
import subprocess

from .. import conn, kj
from ..check import VERIF, unjson
from . import c14

LEVEL = "proof"

MANIFEST = {
    "technique": "Coq proof (switch dispatch, retry loop by induction on the attempts, composition with the C14 reassembly theorem) + "
                 "compiled loop-back probes against the real generated receiver/transmitter under ASan/UBSan",
    "text": "Theorems C13_round_trip (ALL interfaces, ALL message sequences with sizeof < 2^16, ALL chunkings of the accepted bytes: the "
            "receiver is handed exactly these messages, in order), C13_delivery (type id of the i-th message => exactly one call, to the "
            "i-th handler, with the message bytes), C13_unknown_id (only the not-handled hook), C13_retry (ALL int8 retries, ALL "
            "connection behaviours: true iff one of the first retries+1 attempts is accepted, stops right after the first accept), "
            "C13_round_trip_refuted (sizeof >= 2^16 is truncated by SendData's uint16 length), C13_transmittable_bound (for every interface of "
            "the C12 domain sizeof(<Msg>) = 8 + recursive sum of the member sizes, and SendData gets the whole message iff that is < 2^16), "
            "C13_domain_exceeds_bound_refuted (an interface of the C12 domain with a 65544 byte message). Model/Proto.v models the expanded "
            "TEMPLATEReceiver.cpp / TEMPLATETransmitter.cpp, whose shape translator/prototmpl.py re-recognises on every run.",
    "note": "Trusted: Coq 8.16.1 kernel; no axioms; translator/prototmpl.py and translator/cxxconn.py (strict pattern matching); extraction + "
            "ocaml/cmds_conn.ml; the generated probe source in harness/props/c13.py. ENGINE BRIDGE (C13_receiver_engine, C13_transmitter_engine, C13_delivery_engine): the PER_MSG expansion "
            "is no longer only tied by running: the shipped TEMPLATEReceiver.cpp / TEMPLATETransmitter.cpp are whole files of the C16 template grammar "
            "(<<<MSGID>>> from the interface's ids, text after an end tag), and for every interface with distinct message names admitted for the file "
            "(rx_wf / tx_wf, evaluated per case) the engine model's pipeline writes the reference expansion, whose switch block is exactly one "
            "`case <id>: On<Msg>Received(...)` per message in interface order (id 0 is printed) and whose transmitter has one Transmit<Msg> with the "
            "retry loop and one TestSendAll call per message; C13_delivery is restated over those case lines. The real <Name>Receiver.cpp / "
            "<Name>Transmitter.cpp are compared with the reference AS WHOLE FILES for every compiled interface and for 60 (600 thorough) more random "
            "interfaces. EngineSM.inner_msgs is a hand transcription of the MSGID part of innerexpand_secondfiltering_PROTO. Modelled, not verified: g++ semantics of switch / reinterpret_cast / integer conversions; struct layout "
            "(C12's subject: sizeof is read from the compiled probe). The connection layer is the model of C14.",
}
RULE = ("random interfaces (1..5 messages with arbitrary distinct uint16 ids incl. 0, 65535 and the preamble value, nested packed structs, all "
        "primitive types, random preamble incl. equal bytes) are generated with Generate.Protocol(copy_other=True) and compiled with a "
        "loop-back probe; per interface sessions of 1..8 transmissions (message index, random field bytes biased to the preamble bytes, "
        "connection rejecting the first k attempts with k below/at/above the retry limit, explicit retries incl. negative, 0, 127) "
        "interleaved with raw messages of undefined type ids, delivered under a random chunking; real handler log vs Python oracle "
        "(handler index, identical bytes, exactly once, order; ok <-> k <= retries; SendData calls) and vs the extracted model. "
        "The bound sizeof < 2^16 is evaluated on every generated interface (sizeof from the compiled probe = the C12 model's size; counted: "
        "below 2^15 / near / over the bound), and on the nested-struct interface IBig of the C12 domain that exceeds it. "
        "A case = one session; distinct = distinct (interface, session); non-trivial = at least one handler or hook call expected")
ASSUMPTIONS = [
    "sizeof(message) < 2^16 (SendData takes const uint16& number_of_bytes): without it C13_round_trip_refuted / known finding K-C13-1",
    "message type ids are distinct and fit uint16 (duplicate case labels do not compile; an id >= 2^16 does not fit the header field)",
    "the derived receiver's Preamble() returns the interface preamble the factories put into the header (the template leaves Preamble() to the user)",
    "the hypotheses of C14 for the receiving connection (chunk length + 8 <= 2^32)",
    "the transmitter's connection pointer is not null (the constructor takes a reference)",
]
TRUSTED = c14.TRUSTED[:2] + [
    "translator/prototmpl.py -> Gen/ProtoTmpl.v, translator/cxxconn.py -> Gen/CxxConn.v (digests re-checked on every run)",
    "extraction: ExtrOcamlBasic + ExtrOcamlNativeString, ocaml/cmds_conn.ml",
    "the probe generated by harness/props/c13.py, g++ 14 -fsanitize=address,undefined",
    "modelled, not verified: kojen's template expansion of the PER_MSG blocks; C++ semantics; struct layout (sizeof read from the probe)",
]
ALLOWED_AXIOMS = []

PRIMS = kj.PRIMS_CPP


def random_interface(rng, tag):
    """(kojen Interface, preamble, [(msgname, id)])"""
    from kojen import kojentypes
    pre = rng.choice([0xDEAD, 0x55AA, 0x7E7E, 0x0000, 0x00FF, 0xFF00, rng.randrange(65536)])
    iface = kojentypes.Interface('IP' + tag, pre)
    structs = []
    for i in range(rng.randint(0, 3)):
        st = kojentypes.Struct('sS%d' % i)
        for j in range(rng.randint(1, 3)):
            if structs and rng.random() < 0.35:
                st.AddStruct('s%d' % j, rng.choice(structs))
            else:
                st.AddType('m%d' % j, rng.choice(PRIMS))
        structs.append(st)
        iface.AddStruct(st)
    nm = rng.randint(1, 5)
    pool = [0, 1, 2, 65535, pre, 255, 256, 257, 4242] + [rng.randrange(65536) for _ in range(4)]
    ids = []
    while len(ids) < nm:
        x = rng.choice(pool)
        if x not in ids:
            ids.append(x)
    msgs = []
    for i, mid in enumerate(ids):
        m = kojentypes.Message('Msg%d' % i, mid)
        for j in range(rng.randint(0, 4)):
            if structs and rng.random() < 0.4:
                m.AddStruct('s%d' % j, rng.choice(structs))
            else:
                ty = rng.choice(PRIMS)
                if rng.random() < 0.4:
                    m.AddType('m%d' % j, ty, str(rng.randint(0, 1) if ty == "bool" else rng.randint(0, 100)))
                else:
                    m.AddType('m%d' % j, ty)
        iface.AddMessage(m)
        msgs.append(('Msg%d' % i, mid))
    return iface, pre, msgs


def big_interface():
    from kojen import kojentypes
    iface = kojentypes.Interface('IBig', 0x55AA)
    blk = kojentypes.Struct('sBlock')
    for i in range(64):
        blk.AddType('q%d' % i, 'uint64')
    iface.AddStruct(blk)
    big = kojentypes.Struct('sBig')
    for i in range(16):
        big.AddStruct('b%d' % i, blk)
    iface.AddStruct(big)
    m = kojentypes.Message('Msg0', 1)
    for i in range(8):
        m.AddStruct('g%d' % i, big)
    iface.AddMessage(m)
    m2 = kojentypes.Message('Msg1', 2)
    m2.AddType('x', 'uint16', '7')
    iface.AddMessage(m2)
    return iface, 0x55AA, [('Msg0', 1), ('Msg1', 2)]


def probe_source(name, ns, pre, msgs):
    handlers = "\n".join(
        '    void On%sReceived(const %s* d) override { log.push_back("H %d " + hex((const uint8*)d, sizeof(%s))); }' % (m, m, i, m)
        for i, (m, _id) in enumerate(msgs))
    tcases = "\n".join(
        '            case %d: { static %s m; m = Create%s(); size_t n = std::min(pl.size(), sizeof(%s) - sizeof(sMsgHeader));\n'
        '                       if (n) memcpy(((uint8*)&m) + sizeof(sMsgHeader), pl.data(), n);\n'
        '                       ok = dflt ? s->tx.Transmit%s(m) : s->tx.Transmit%s(m, (int8)retries);\n'
        '                       sent = hex((const uint8*)&m, sizeof(%s)); break; }' % (i, m, m, m, m, m, m)
        for i, (m, _id) in enumerate(msgs))
    sizes = " ".join('<< " " << sizeof(%s)' % m for m, _ in msgs)
    return r'''
// generated by harness/props/c13.py: loop-back probe around the REAL generated %(name)sReceiver / %(name)sTransmitter
#include "%(name)s.h"
#include "%(name)sReceiver.h"
#include "%(name)sTransmitter.h"
#include <algorithm>
#include <cstdio>
#include <cstring>
#include <iostream>
#include <memory>
#include <sstream>
#include <string>
#include <vector>
using namespace %(ns)s;
typedef std::vector<uint8> Bytes;
static std::string hex(const uint8* p, size_t n) { static const char* d = "0123456789abcdef"; std::string s; if (!n) return "-";
    for (size_t i = 0; i < n; i++) { s += d[p[i] >> 4]; s += d[p[i] & 15]; } return s; }
static Bytes unhex(const std::string& s) { Bytes b; if (s == "-") return b;
    for (size_t i = 0; i + 1 < s.size(); i += 2) b.push_back((uint8)std::stoul(s.substr(i, 2), nullptr, 16)); return b; }
struct Rec : public %(name)sReceiver, public %(name)sNotHandledReceiver {
    std::vector<std::string> log;
    uint16 Preamble() const override { return %(pre)d; }
%(handlers)s
    void OnNotHandledMessageReceived(const uint8* b, const uint32& n) override { log.push_back("N " + hex(b, n)); }
};
struct Loop : public XKoJen::IConnection {
    long reject = 0, calls = 0; Bytes wire;
    bool SendData(const uint8* d, const uint16& n) override { calls++; if (reject > 0) { reject--; return false; } wire.insert(wire.end(), d, d + n); return true; }
    void Feed(const uint8* p, size_t n) { uint8* c = new uint8[n ? n : 1]; if (n) memcpy(c, p, n); OnDataReceived(c, (uint32)n); delete[] c; }
    size_t Pending() const { return m_fragment_buffer.size(); }
};
struct Session { Rec rec; Loop loop; %(name)sTransmitter tx; Session(bool unh) : tx(loop) { loop.SetMsgReceiver(rec); if (unh) rec.SetUnhandledReceiver(rec); } };
int main() {
    std::unique_ptr<Session> s(new Session(true));
    std::string line;
    while (std::getline(std::cin, line)) {
        std::istringstream is(line); std::string cmd; is >> cmd;
        if (cmd == "I") { std::cout << "I" %(sizes)s << "\n"; }
        else if (cmd == "N") { int u; is >> u; s.reset(new Session(u != 0)); std::cout << "N\n"; }
        else if (cmd == "W") { std::string h; is >> h; Bytes b = unhex(h); s->loop.wire.insert(s->loop.wire.end(), b.begin(), b.end()); std::cout << "W\n"; }
        else if (cmd == "T") {
            int idx; long k; std::string r, h; is >> idx >> k >> r >> h; Bytes pl = unhex(h);
            bool dflt = (r == "d"); int retries = dflt ? 0 : std::stoi(r); bool ok = false; std::string sent = "-";
            s->loop.reject = k; s->loop.calls = 0; size_t before = s->loop.wire.size();
            switch (idx) {
%(tcases)s
            default: break; }
            s->loop.reject = 0;
            std::cout << "T " << (ok ? 1 : 0) << " " << s->loop.calls << " " << (s->loop.wire.size() - before) << " " << sent << "\n";
        }
        else if (cmd == "D") {
            size_t pos = 0, n; Bytes w = s->loop.wire; s->loop.wire.clear();
            while (is >> n) { n = std::min(n, w.size() - pos); s->loop.Feed(w.data() + pos, n); pos += n; }
            if (pos < w.size()) s->loop.Feed(w.data() + pos, w.size() - pos);
            std::cout << "D " << s->loop.Pending() << " " << s->rec.log.size();
            for (auto& e : s->rec.log) std::cout << " ; " << e;
            std::cout << "\n"; s->rec.log.clear();
        }
        else std::cout << "?\n";
        std::cout.flush();
    }
    return 0;
}
''' % {"name": name, "ns": ns, "pre": pre, "handlers": handlers, "tcases": tcases, "sizes": sizes}


def build(ctx, iface, pre, msgs, d, name="P", sanitize=True):
    """Generate the protocol with the real kojen, compile the probe against the generated tree. Returns exe or None."""
    out = os.path.join(d, "gen")
    kj.generate("proto", out, iface=iface, ns="NS", name=name, copy_other=True)
    src = os.path.join(out, "probe.cpp")
    with open(src, "w") as f:
        f.write(probe_source(name, "NS", pre, msgs))
    cmd = ["g++", "-std=c++17", "-O1", "-g", "-w"] + (conn.SAN if sanitize else []) + ["-I" + out, "-I" + os.path.join(out, "allplatforms"), src] + \
          [os.path.join(out, f) for f in (name + ".cpp", name + "Receiver.cpp", name + "Transmitter.cpp")] + \
          [os.path.join(out, "allplatforms", "IConnection.cpp"), "-lpthread", "-o", os.path.join(d, "probe")]
    p = subprocess.run(cmd, stdout=subprocess.PIPE, stderr=subprocess.STDOUT, timeout=900)
    if p.returncode:
        return None, p.stdout.decode("utf-8", "replace")[-2500:]
    return os.path.join(d, "probe"), ""


def parse_log(line):
    t = line.split(" ; ")
    head = t[0].split()
    calls = []
    for e in t[1:]:
        f = e.split()
        calls.append(("H", int(f[1]), conn.unhx(f[2])) if f[0] == "H" else ("N", None, conn.unhx(f[1])))
    return int(head[1]), calls


def session(ctx, probe, rng, pre, msgs, sizes, script=None):
    """One loop-back session on the real generated code; returns a failure dict or None. `script` replays a stored session."""
    p = bytes([pre & 0xFF, pre >> 8])
    ids = [i for _m, i in msgs]
    if script is None:
        unh = rng.random() < 0.8
        steps = []
        for _ in range(rng.randint(1, 8)):
            if rng.random() < 0.75:
                idx = rng.randrange(len(msgs))
                retries = rng.choice(["d", "d", "d", "0", "1", "5", "-1", "-128", "127", str(rng.randint(0, 12))])
                lim = 5 if retries == "d" else int(retries)
                k = rng.choice([0, 0, 0, 1, max(lim, 0), max(lim, 0) + 1, max(lim - 1, 0), lim + 2 if lim >= 0 else 0, rng.randint(0, 8)])
                payload = conn.biased_bytes(rng, p, sizes[idx] - 8)
                steps.append(("T", idx, k, retries, payload))
            else:
                uid = rng.choice([x for x in [0, 3, 77, 65535, 4096, pre, rng.randrange(65536)] if x not in ids] or [None])
                if uid is None:
                    continue
                steps.append(("W", conn.message(p, uid, conn.biased_bytes(rng, p, rng.choice([0, 1, 5, 20])))))
        cuts = None
        script = {"unhandled": unh, "steps": steps, "cuts": cuts, "chunk_seed": rng.randrange(1 << 30)}
    probe.ask("N %d" % (1 if script["unhandled"] else 0))
    expected, wire, model_tx = [], b"", []
    for st in script["steps"]:
        if st[0] == "W":
            probe.ask("W " + conn.hx(st[1]))
            wire += st[1]
            if script["unhandled"]:
                expected.append(("N", None, st[1]))
        else:
            _t, idx, k, retries, payload = st
            r = probe.ask("T %d %d %s %s" % (idx, k, retries, conn.hx(payload)))[0]
            if isinstance(r, tuple):
                return {"detail": "probe died in Transmit: " + r[1][:500], "script": script, "finding_key": "memory-error"}
            f = r.split()
            ok, calls, sent_n, sent = f[1] == "1", int(f[2]), int(f[3]), conn.unhx(f[4])
            lim = 5 if retries == "d" else int(retries)
            want_ok = lim >= 0 and k <= lim
            want_calls = (k + 1) if want_ok else max(0, lim + 1)
            if (ok, calls) != (want_ok, want_calls):
                return {"detail": "Transmit returned ok=%s after %d SendData calls; connection rejects the first %d, retries=%s: expected ok=%s, %d calls"
                        % (ok, calls, k, retries, want_ok, want_calls), "script": script, "finding_key": "retry"}
            model_tx.append((lim, k, ok, calls))
            want_msg = conn.header(p, ids[idx], sizes[idx] - 8) + payload
            if sent != want_msg:
                return {"detail": "factory-built message differs from header(preamble,id,size)+fields: %s vs %s" % (sent.hex()[:80], want_msg.hex()[:80]),
                        "script": script, "finding_key": "factory-bytes"}
            if ok:
                if sent_n != len(sent):
                    return {"detail": "SendData was given %d bytes of a %d byte message" % (sent_n, len(sent)), "script": script,
                            "finding_key": "sizeof>=65536" if len(sent) >= 65536 else "sent-length"}
                wire += sent
                expected.append(("H", idx, sent))
            elif sent_n != 0:
                return {"detail": "bytes reached the wire although no attempt was accepted", "script": script, "finding_key": "retry"}
    crng = random.Random(script["chunk_seed"])
    chunks = conn.random_chunking(crng, wire, allow_empty=False)
    r = probe.ask("D " + " ".join(str(len(c)) for c in chunks))[0]
    if isinstance(r, tuple):
        return {"detail": "probe died while delivering: " + r[1][:500], "script": script, "finding_key": "memory-error"}
    pending, calls = parse_log(r)
    if calls != expected or pending != 0:
        return {"detail": "handler calls differ: got %s expected %s (pending %d)" % (
            [(a, b, c.hex()[:40]) for a, b, c in calls], [(a, b, c.hex()[:40]) for a, b, c in expected], pending),
            "script": script, "finding_key": "dispatch"}
    # model vs real code
    if ctx.km is not None:
        ifc = [[str(i).encode(), str(s).encode()] for (_m, i), s in zip(msgs, sizes)]
        mv = ctx.km.call("proto_round_trip", p, ifc, b"1" if script["unhandled"] else b"0", chunks)
        mcalls = None if mv == b"fail" else [("H", int(c[1]), c[2]) if c[0] == b"H" else ("N", None, c[1]) for c in mv]
        if mcalls != calls and len(ctx.broken) < 5:
            ctx.tie_broken("correspondence generated receiver/loop-back vs Proto.round_trip", {"script": repr(script)[:1500], "model": repr(mcalls)[:600]})
        for lim, k, ok, ncalls in model_tx:
            mt = ctx.km.call("proto_transmit", str(lim).encode(), str(k).encode())
            if (mt == b"fuel" or (mt[0] == b"1", int(mt[1])) != (ok, ncalls)) and len(ctx.broken) < 5:
                ctx.tie_broken("correspondence generated Transmit<Msg> vs Proto.transmit", {"retries": lim, "k": k, "real": [ok, ncalls], "model": repr(mt)})
    ctx.count("sessions_msgs_%d" % min(len(expected), 5))
    return None if expected else "trivial"


def bound_eval(ctx, iface, msgs, sizes, key):
    """The bound of C13_round_trip (sizeof < 2^16 = C13_transmittable) evaluated on a generated interface, with sizeof taken
    from the compiled artefact AND from the C12 model (Spec layout: 8 + recursive sum of the member sizes)."""
    spec, wf = {}, None
    if ctx.km is not None:
        from .. import layoutgen as lg
        try:
            term = lg.abstract_iface(iface)
            wf = ctx.km.call("c12_wf", term) == b"1"
            spec = {e[0].decode(): int(e[1]) for e in ctx.km.call("c12_spec_layout", term)}
        except lg.Unsupported:
            ctx.count("bound_eval_interface_outside_c12_term_language")
    over = []
    for (mname, _id), sz in zip(msgs, sizes):
        if wf and spec.get(mname) != sz and len(ctx.broken) < 5:
            ctx.tie_broken("sizeof(%s) of the compiled probe differs from the C12 model (8 + sum of member sizes)" % mname,
                           {"iface": key, "probe": sz, "model": spec.get(mname)})
        ctx.count("msgs_bound_evaluated")
        if sz >= 65536:
            over.append(mname)
            ctx.count("msgs_over_2^16%s" % ("_in_C12_domain" if wf else ""))
        elif sz >= 32768:
            ctx.count("msgs_near_bound_2^15..2^16")
        else:
            ctx.count("msgs_below_2^15")
    return wf, over


def engine_text_check(ctx, iface, sizes, seed):
    """The real <Name>Receiver.cpp / <Name>Transmitter.cpp AS WHOLE FILES are what the engine model writes from the shipped templates read
    into the Coq template syntax (C13_receiver_engine / C13_transmitter_engine): one case per message with its id (0 included), one
    Transmit<Msg> per message, in interface order.  Generated once more under the class name of dict0 (X)."""
    from .. import engine_e2e as e2e
    structs, protos, names = e2e.iface_parts(iface)
    sz = dict(zip(names, sizes)) if len(names) == len(sizes) else {}
    i3 = [[n, str(int(iface[n].MessageTypeID)), str(sz.get(n, 8))] for n in names]
    with kj.scratch() as d2:
        kj.generate("proto", d2, iface=iface, ns="NS", name="X")
        real = {}
        for fn in ("XReceiver.cpp", "XTransmitter.cpp"):
            with open(os.path.join(d2, fn)) as fh:
                real[fn] = fh.read()
    for fn, wfc, refc in (("XReceiver.cpp", "p13.rx_wf", "p13.rx_ref"), ("XTransmitter.cpp", "p13.tx_wf", "p13.tx_ref")):
        if ctx.km.call(wfc, structs, protos, i3, []) != b"1":
            ctx.count("engine_text_outside_domain_" + fn)
            continue
        ref = ctx.km.call(refc, structs, protos, i3, []).decode("utf-8", "surrogateescape")
        ctx.count("engine_text_compared_" + fn)
        if ref != real[fn]:
            k = next((j for j, (x, y) in enumerate(zip(ref, real[fn])) if x != y), min(len(ref), len(real[fn])))
            ctx.tie_broken("the generated %s differs from ref16 of the whole shipped template (Model/ProtoRender)" % fn,
                           {"iface_seed": seed, "at": k, "real": real[fn][max(0, k - 100):k + 150], "ref16": ref[max(0, k - 100):k + 150]})


def run_interface(ctx, seed, nsessions, replay_script=None):
    rng = random.Random(seed)
    iface, pre, msgs = random_interface(rng, str(seed % 1000))
    with kj.scratch() as d:
        exe, out = build(ctx, iface, pre, msgs, d)
        if exe is None:
            return [{"detail": "generated protocol / probe does not compile: " + out[-1200:], "iface_seed": seed, "finding_key": "compile"}]
        probe = conn.Probe(exe)
        try:
            sizes = [int(x) for x in probe.ask("I")[0].split()[1:]]
            if ctx.km is not None:
                ifc = [[str(i).encode(), str(s).encode()] for (_m, i), s in zip(msgs, sizes)]
                if ctx.km.call("proto_iface_ok", ifc) != b"1":
                    ctx.tie_broken("generator produced an interface outside the theorem's domain", {"iface_seed": seed})
            bound_eval(ctx, iface, msgs, sizes, seed)
            if ctx.km is not None:
                engine_text_check(ctx, iface, sizes, seed)
            fails = []
            if replay_script is not None:
                r = session(ctx, probe, rng, pre, msgs, sizes, script=replay_script)
                return [r] if r and r != "trivial" else []
            for i in range(nsessions):
                r = session(ctx, probe, rng, pre, msgs, sizes)
                ctx.case(("session", seed, i), nontrivial=(r != "trivial"))
                if r and r != "trivial":
                    r["iface_seed"] = seed
                    fails.append(r)
                    if len(fails) >= 2:      # a broken generator fails most sessions: two replay files per interface are enough
                        break
            ctx.count("interfaces")
            ctx.count("interface_msgs_%d" % len(msgs))
            if pre & 0xFF == pre >> 8:
                ctx.count("preamble_equal_bytes")
            ctx.sample({"iface_seed": seed, "preamble": pre, "messages": msgs, "sizeof": sizes}, limit=3)
            return fails
        finally:
            probe.close()


def big_case(ctx):
    """K-C13-1: a generated message of 65544 bytes through the generated transmitter."""
    iface, pre, msgs = big_interface()
    with kj.scratch() as d:
        exe, out = build(ctx, iface, pre, msgs, d, name="B", sanitize=False)
        if exe is None:
            ctx.count("big_message_probe_does_not_compile")
            return None
        probe = conn.Probe(exe)
        try:
            sizes = [int(x) for x in probe.ask("I")[0].split()[1:]]
            wf, over = bound_eval(ctx, iface, msgs, sizes, "IBig")
            if wf and over:
                ctx.count("interface_of_the_C12_domain_over_the_bound:IBig(%s=%d bytes)" % (over[0], sizes[0]))
            script = {"unhandled": True, "steps": [("T", 0, 0, "d", bytes(sizes[0] - 8)), ("T", 1, 0, "d", b"\x09\x00")], "cuts": None, "chunk_seed": 1}
            r = session(ctx, probe, random.Random(0), pre, msgs, sizes, script=script)
            return r if r and r != "trivial" else None
        finally:
            probe.close()


def run(ctx):
    for path in sorted(glob.glob(os.path.join(VERIF, "corpus", "C13", "*.json"))):
        data = unjson(json.load(open(path)))
        ctx.case(("corpus", path))
        if not replay(ctx, data):
            ctx.violation("corpus case %s fails" % os.path.basename(path), data)
    n_if = ctx.budget(5, 60)
    n_sess = 150 if ctx.quick else 400
    for _ in range(n_if):
        if len(ctx.violations) >= 6:
            break
        seed = ctx.rng.randrange(1 << 30)
        for f in run_interface(ctx, seed, n_sess):
            f["script"] = script_json(f.get("script"))
            ctx.violation(f["detail"][:300], f)
    # the engine bridge on many more interfaces (text only, nothing is compiled): ids 0 / 65535 / preamble value included
    if ctx.km is not None:
        for j in range(ctx.budget(60, 600)):
            rj = random.Random(ctx.rng.randrange(1 << 30))
            iface_j, _pre, msgs_j = random_interface(rj, "T%d" % j)
            engine_text_check(ctx, iface_j, [8] * len(msgs_j), j)
            if any(mid == 0 for _n, mid in msgs_j):
                ctx.count("engine_text_interface_with_id_0")
    r = big_case(ctx)
    ctx.case(("big",))
    if r:
        r["script"] = script_json(r.get("script"))
        r["big"] = True
        ctx.count("big_message_truncated")
        ctx.violation(r["detail"][:300], r)
    else:
        ctx.count("big_message_ok_or_not_built")


def script_json(s):
    if not s:
        return s
    return {"unhandled": s["unhandled"], "chunk_seed": s["chunk_seed"], "cuts": None,
            "steps": [list(st) for st in s["steps"]]}


def replay(ctx, data):
    if data.get("no_failing_input_found"):
        print(json.dumps(data.get("no_longer_checks"), indent=1)[:3000])
        return False
    if data.get("big"):
        return big_case(ctx) is None
    script = data.get("script")
    if script:
        script = dict(script)
        script["steps"] = [tuple(st) for st in script["steps"]]
    fails = run_interface(ctx, data["iface_seed"], 0, replay_script=script) if script else run_interface(ctx, data["iface_seed"], 50)
    return not fails
