"""C05 -- Interrupted generation never destroys an existing file (per-file atomicity)."""
import glob
import json
import os
import random
import shutil
import subprocess

from .. import kj, presv
from ..check import VERIF, unjson
from ..kj import read_tree, scratch, splice, tabnorm, write_tree
from ..manifest_data import PRES_NOTE
from . import c01

LEVEL = "proof"
MANIFEST = {
    "technique": "Coq proof (induction over the operation list of the output stage, two crash semantics) + closure inventory of fs mutations + fault injection at every operation of real runs",
    "text": "Theorems C05_atomic_killed / C05_atomic_exception (for every job list, every initial file system and every interruption point k, each "
            "non-temporary path holds its old or its complete new content), C05_complete_run, C05_fs_mutations_closed (every fs-mutating call "
            "reachable from the entry points is an operation of the model; AST scan regenerated on every run). The operation list of the model is "
            "compared with the traced operations of real runs and the model's predicted tree after an interruption at k with the real tree.",
    "note": PRES_NOTE + " Assumed of the platform: os.replace (rename) is atomic; open(...,'w') truncates at once; a killed process loses its "
            "user-space buffers, a raised error unwinds through the with block and the except clause. Real SIGKILL timing is exercised only at "
            "the granularity of the model's operations (os._exit injected before operation k). Files named '<x>.kojen-tmp' are generator-owned "
            "scratch and excluded (is_tmp).",
}
RULE = ("cases = (generator kind incl. framework-file copying, random model, directory with prior user code); the real run is traced "
        "(every makedirs/open-for-write/write/close/replace/remove/copy); for a sample of operation indices k (quick) or every k (thorough) "
        "and both modes (raised OSError / os._exit) the generation is re-run in a fresh subprocess on a fresh copy of the directory with the "
        "fault injected before operation k; afterwards every pre-existing file must equal its old bytes or the bytes of the uninterrupted "
        "run; the model's predicted tree is compared too; non-trivial = the directory held files before the run; distinct = (case, k, mode)")
ASSUMPTIONS = ["targets of one run are distinct paths and none ends in '.kojen-tmp' (jobs_okb, evaluated on every captured code model)"]
TRUSTED = c01.TRUSTED + ["translator/inventory.py (AST scan of fs-mutating calls, name-based reachability)",
                         "harness/faults.py (the interception layer decides what an 'operation' is on the implementation side)"]
PY = "/venv/bin/python"


def other_fs_tmp():
    """a fresh directory on a file system other than the scratch area's (None when there is none)"""
    import tempfile
    try:
        if os.path.isdir("/dev/shm") and os.stat("/dev/shm").st_dev != os.stat(tempfile.gettempdir()).st_dev:
            return tempfile.mkdtemp(prefix="kjv-otherfs-", dir="/dev/shm")
    except OSError:
        pass
    return None


def runner(kind, inp, out, fault=None, count=False, hashseed=0, kill_after=None):
    with scratch() as cd:
        cfg = {"kind": kind, "inp": inp, "outdir": out, "cwd": cd, "walk_seed": None, "clock": None, "fault": fault, "count_ops": count}
        cf = os.path.join(cd, "cfg.json")
        json.dump(cfg, open(cf, "w"))
        env = dict(os.environ)
        env.update({"PYTHONHASHSEED": str(hashseed), "PYTHONPATH": VERIF})
        other = other_fs_tmp()
        if other:
            env["TMPDIR"] = other     # the process's temporary directory lies on another file system than the output directory
        try:
            if kill_after is None:
                p = subprocess.run([PY, "-W", "ignore", "-m", "harness.c06_runner", cf], cwd=VERIF, env=env, stdout=subprocess.PIPE, stderr=subprocess.PIPE, timeout=300)
            else:
                # a real SIGKILL at a moment the harness does not choose at operation granularity
                import time
                pp = subprocess.Popen([PY, "-W", "ignore", "-m", "harness.c06_runner", cf], cwd=VERIF, env=env, stdout=subprocess.DEVNULL, stderr=subprocess.DEVNULL)
                t_end = time.time() + kill_after
                while time.time() < t_end and pp.poll() is None:
                    time.sleep(0.002)
                killed = pp.poll() is None
                pp.kill()
                pp.wait()
                return {"killed": killed}, -9
        finally:
            if other:
                shutil.rmtree(other, ignore_errors=True)
    for line in p.stdout.decode("utf-8", "replace").split("\n"):
        if line.startswith("RESULT "):
            return json.loads(line[7:]), p.returncode
    return None, p.returncode


def traced_run(ctx, kind, inp, out):
    """In-process run with the interception layer: (trace of createoutput ops, code model after preservation, n ops)."""
    from .. import faults
    counter = {}
    faults.TRACE.clear()
    un = faults.install(counter, None)
    try:
        with presv.Capture() as cap:
            presv.run_kind(kind, out, inp)
    finally:
        un()
    return list(faults.TRACE), cap.after, counter["n"], counter["co"]


def one_case(ctx, kind, inp, user_seed, points, check_model=True):
    rng = random.Random(user_seed)
    with scratch() as d:
        out = os.path.join(d, "out")
        # the directory holds the output of an EARLIER model in half of the state-machine cases (so the run also writes LostCode files),
        # LostCode files parked there by earlier regenerations, and some files are read-only (checked out from a version control system)
        inp_old = presv.mutate_input(rng, kind, inp) if kind in ("py", "cs", "cpp") and user_seed % 2 == 1 else inp
        if inp_old is not inp:
            inp_old["name"] = inp["name"]
        try:
            presv.run_kind(kind, out, inp_old)
        except Exception:  # noqa
            ctx.count("generator_rejected_input")
            return "trivial"
        t0 = read_tree(out)
        t1 = splice(t0, presv.user_blocks(rng, t0, density=0.8))
        t1["notes/handwritten.txt"] = b"not generated, must survive\n"
        tagged = sorted(k for k in t0 if b"USER_" in t0[k] and not k.startswith("allplatforms/"))
        for k in tagged[:3]:
            t1[k + ".LostCode.txt"] = b"// parked here by an earlier regeneration\nint precious_%d = 1;\n" % len(k)
        write_tree(out, t1)
        for i, k in enumerate(sorted(t1)):
            if (user_seed + i) % 3 == 0:
                os.chmod(os.path.join(out, k), 0o444)
        # reference: uninterrupted run on a copy, traced
        ref = os.path.join(d, "ref")
        shutil.copytree(out, ref)
        trace, after, nops, nco = traced_run(ctx, kind, inp, ref)
        tref = read_tree(ref)
        if check_model and ctx.km:
            m = [[n, [l.encode("utf-8", "surrogateescape") for l in ls]] for n, ls in after.items()]
            ok = ctx.km.call("jobs_ok", ref, m) == b"1"
            ctx.count("jobs_ok_true" if ok else "jobs_ok_false")
            mops = [[a.decode(), b.decode("utf-8", "surrogateescape"), c.decode("utf-8", "surrogateescape")] for a, b, c in ctx.km.call("createoutput_ops", ref, m)]
            if mops != [[k, a, b] for k, a, b in trace]:
                i = next((j for j in range(min(len(mops), len(trace))) if mops[j] != list(trace[j])), min(len(mops), len(trace)))
                ctx.tie_broken("correspondence: traced operations of createoutput vs Model.Output.createoutput_ops",
                               {"kind": kind, "input": inp, "first_difference_at": i, "impl": trace[i:i + 3], "model": mops[i:i + 3],
                                "lengths": [len(trace), len(mops)]})
                check_model = False
        ks = list(range(nops + 1)) if points is None else sorted(set(min(nops, max(0, int(x * nops))) for x in points) | {0, 1, 2, nops - 1, nops})

        def fault_run(job):
            k, mode = job
            work = os.path.join(d, "w_%d_%s" % (k, mode))
            shutil.copytree(out, work)
            try:
                runner(kind, inp, work, {"op": k, "mode": mode, "scope": "all"})
                now = read_tree(work)
            finally:
                shutil.rmtree(work, ignore_errors=True)
            for p, old in t1.items():
                if now.get(p) != old and now.get(p) != tref.get(p):
                    return {"kind": kind, "input": inp, "user_seed": user_seed, "op": k, "mode": mode, "file": p, "points": [k / max(1, nops)],
                            "detail": "pre-existing file %s is neither its old content nor the complete new content after a run interrupted "
                                      "at operation %d (%s): %d bytes (old %d, new %d)" % (p, k, mode, len(now.get(p, b"")), len(old), len(tref.get(p, b""))),
                            "finding_key": "c05:%s" % kind}
            return None

        from concurrent.futures import ThreadPoolExecutor
        jobs = [(k, mode) for k in ks for mode in ("exn", "kill")]
        with ThreadPoolExecutor(max_workers=8) as ex:
            results = list(ex.map(fault_run, jobs))
        for (k, mode), r in zip(jobs, results):
            ctx.case((kind, json.dumps(inp, sort_keys=True), user_seed, k, mode))
            ctx.count("fault_%s" % mode)
        for r in results:
            if r:
                return r
        # real SIGKILL at random moments of the run (thorough tier / search mode): the moments fall between and INSIDE the operations
        if ctx.broken or not ctx.quick:
            import time
            t_a = time.time()
            w0 = os.path.join(d, "wk_time")
            shutil.copytree(out, w0)
            runner(kind, inp, w0, None)
            dur = time.time() - t_a
            shutil.rmtree(w0, ignore_errors=True)

            def kill_run(j):
                work = os.path.join(d, "wk_%d" % j)
                shutil.copytree(out, work)
                delay = dur * random.Random(user_seed * 1000 + j).uniform(0.35, 1.0)
                try:
                    res, _rc = runner(kind, inp, work, None, kill_after=delay)
                    now = read_tree(work)
                finally:
                    shutil.rmtree(work, ignore_errors=True)
                for p, old in t1.items():
                    if now.get(p) != old and now.get(p) != tref.get(p):
                        return {"kind": kind, "input": inp, "user_seed": user_seed, "sigkill_after_seconds": delay, "file": p,
                                "detail": "pre-existing file %s is neither its old content nor the complete new content after SIGKILL %.3f s into the run "
                                          "(%d bytes, old %d, new %d)" % (p, delay, len(now.get(p, b"")), len(old), len(tref.get(p, b""))),
                                "finding_key": "c05:%s" % kind}, res
                return None, res
            with ThreadPoolExecutor(max_workers=4) as ex:
                kres = list(ex.map(kill_run, range(16)))
            for j, (r, res) in enumerate(kres):
                ctx.case((kind, json.dumps(inp, sort_keys=True), user_seed, "sigkill", j))
                ctx.count("sigkill_runs")
                if res and res.get("killed"):
                    ctx.count("sigkill_hit_a_running_process")
            for r, _res in kres:
                if r:
                    return r
        # two faults in one run (an error that is survived, then a second fault): only in the thorough tier / search mode
        if (ctx.broken or not ctx.quick) and trace:
            opens = [i for i, (k, _a, _b) in enumerate(trace) if k == "open"][:8]

            def double_run(job):
                i, delta, mode2 = job
                work = os.path.join(d, "w2_%d_%d_%s" % (i, delta, mode2))
                shutil.copytree(out, work)
                try:
                    runner(kind, inp, work, [{"op": i, "mode": "exn", "scope": "createoutput"},
                                             {"op": i + delta, "mode": mode2, "scope": "createoutput"}])
                    now = read_tree(work)
                finally:
                    shutil.rmtree(work, ignore_errors=True)
                for p, old in t1.items():
                    if now.get(p) != old and now.get(p) != tref.get(p):
                        return {"kind": kind, "input": inp, "user_seed": user_seed, "double_fault": [i, delta, mode2], "file": p,
                                "detail": "pre-existing file %s is neither old nor complete new after an injected error at createoutput op %d "
                                          "followed by a second fault (%s) %d operations later" % (p, i, mode2, delta),
                                "finding_key": "c05:%s" % kind}
                return None

            djobs = [(i, delta, m2) for i in opens for delta in (1, 2, 3) for m2 in ("kill", "exn")]
            with ThreadPoolExecutor(max_workers=8) as ex:
                dres = list(ex.map(double_run, djobs))
            for j in djobs:
                ctx.case((kind, json.dumps(inp, sort_keys=True), user_seed, "double", j))
                ctx.count("double_fault")
            for r in dres:
                if r:
                    return r
        # model prediction for interruptions inside createoutput
        if check_model and ctx.km and nco:
            fs0 = [[os.path.join(ref, p), c] for p, c in sorted(t1.items())]
            for k in sorted(set([0, 1, nco // 3, nco // 2, nco - 2, nco - 1, nco])):
                if k < 0:
                    continue
                for mode in ("exn", "kill"):
                    work = os.path.join(d, "w")
                    shutil.rmtree(work, ignore_errors=True)
                    shutil.copytree(out, work)
                    runner(kind, inp, work, {"op": k, "mode": mode, "scope": "createoutput"})
                    now = {p: c for p, c in read_tree(work).items() if not p.endswith(".kojen-tmp") and not p.startswith("allplatforms/")}
                    pred = ctx.km.call("crash", mode, str(k), work, [[n, [l.encode("utf-8", "surrogateescape") for l in ls]] for n, ls in after.items()],
                                       [[os.path.join(work, p), c] for p, c in sorted(t1.items())])
                    predd = {}
                    for p, c in reversed(pred):
                        predd[os.path.relpath(p.decode(), work)] = c
                    predd = {p: c for p, c in predd.items() if not p.endswith(".kojen-tmp") and not p.startswith("allplatforms/")}
                    ctx.count("crash_prediction")
                    if predd != now:
                        bad = sorted(x for x in set(predd) | set(now) if predd.get(x) != now.get(x))
                        ctx.tie_broken("correspondence: tree after an interruption at createoutput op k vs Model.Output.crash_%s" % mode,
                                       {"kind": kind, "input": inp, "k": k, "files": bad[:5]})
                        return None
    return None


def run(ctx):
    for p in sorted(glob.glob(os.path.join(VERIF, "corpus", "C05", "*.json"))):
        data = unjson(json.load(open(p)))
        ctx.case(("corpus", p))
        if not replay(ctx, data):
            ctx.violation("corpus case %s fails" % os.path.basename(p), data)
    kinds = [("py", False), ("cs", False), ("cpp", True), ("proto", True), ("uml", False)]
    per_kind = 1 if ctx.quick else (2 if ctx.broken else 3)
    for kind, _copy in kinds:
        for i in range(per_kind):
            _kw, inp = presv.random_input(ctx.rng, kind)
            inp["lang"] = kind
            if kind in ("cpp", "proto"):
                inp["copy_other"] = True
            user_seed = ctx.rng.randint(0, 1 << 30)
            # quick: a sample of interruption points (first/last ops always included); thorough: every operation of the first
            # case of each kind, 60 random points for the others; a broken proof/tie turns quick into the 60-point search
            if ctx.quick and not ctx.broken:
                points = [ctx.rng.random() for _ in range(6)]
            elif ctx.quick or i > 0:
                points = [ctx.rng.random() for _ in range(60)]
            else:
                points = None
            res = one_case(ctx, kind, inp, user_seed, points)
            if i == 0:
                ctx.sample({"kind": kind, "input": inp, "interruption_points": "all" if points is None else points})
            if res and res != "trivial":
                ctx.violation(res["detail"], res)


def replay(ctx, data):
    if data.get("no_failing_input_found"):
        print(json.dumps(data.get("no_longer_checks"), indent=1)[:3000])
        return False
    res = one_case(ctx, data["kind"], data["input"], data["user_seed"], data.get("points"), check_model=False)
    return not (res and res != "trivial")
