"""C06 -- Generation is deterministic: same inputs give byte-identical trees everywhere."""
import glob
import json
import os
import random
import subprocess
import sys

from .. import kj, presv
from ..check import VERIF, unjson
from ..kj import read_tree, scratch, splice, write_tree
from . import c01

LEVEL = "proof"
RULE = ("cases = (generator kind, random valid model, optional previous generation with user code and a model change so that LostCode "
        "files arise); each case is generated in fresh subprocesses under a reference configuration and under varied ones: PYTHONHASHSEED "
        "0..n, other working directory, output path relative / absolute / un-normalised / with trailing separator, other clock value and TZ, "
        "permuted directory listings (os.walk / os.listdir patched in the subprocess); trees compared byte for byte at resolved locations, "
        "reported lists compared as sets; non-trivial = at least two configurations compared on a non-empty tree")
ASSUMPTIONS = ["shipped templates (the property's domain); sys.platform / sys.version cannot be varied on one machine: covered only by the "
               "finite obligation that no shipped template uses <<<PLATFORM>>>"]
TRUSTED = c01.TRUSTED + ["translator/inventory.py (AST scan of environment reads and fs mutations; name-based reachability from the entry points)",
                         "translator/templates.py (shipped template lines -> Gen/Templates.v)", "translator/setorder.py (every hash-ordered set is sorted before iteration)"]

from ..manifest_data import PRES_NOTE  # noqa: E402

MANIFEST = {
    "technique": "Coq proof (closure inventory of environment reads, finite template obligations, permutation and path-spelling invariance of the output model) + differential runs across process configurations",
    "text": "Theorems C06_env_reads_closed (every environment read reachable from the entry points is one the model accounts for; regenerated from "
            "the source on every run), C06_datetime_platform_unused (finite, over the shipped templates), C06_listing_order_irrelevant (the written "
            "dictionary is invariant under permutation of the code model), C06_outdir_spelling_irrelevant (what is written under each relative name "
            "does not depend on the spelling of the output directory), C06_hash_order_irrelevant (sorted(<set>) is the same list for every iteration order) "
            "with the source-shape obligation that every set reaching the output is handed out through sorted() (translator/setorder.py, fail closed), "
            "C06_process_state_closed (the module-level / class-level mutable bindings, global declarations, decorators, mutable default arguments and "
            "class-object attributes of the generator's modules are exactly four harmless ones: nothing is carried from one generation to the next "
            "inside one interpreter by such means; regenerated from the source on every run).",
    "note": PRES_NOTE + " Partial: the engine itself (template expansion) is not modelled for this property; its determinism rests on the inventory "
            "closure (no unaccounted environment read) plus the differential runs.",
}

PY = "/venv/bin/python"


def run_config(kind, inp, base, spelling, hashseed, cwd_sub, walk_seed, clock, tz):
    """One generation in a fresh subprocess. base/out is the output directory; returns the reported list."""
    cwd = os.path.join(base, cwd_sub) if cwd_sub else base
    os.makedirs(cwd, exist_ok=True)
    out = os.path.join(base, "out")
    rel = os.path.relpath(out, cwd)
    spell = {"abs": out, "rel": rel, "trail": rel + "/", "dot": "./" + rel, "unnorm": os.path.join(os.path.dirname(rel) or ".", "x", "..", os.path.basename(rel))}[spelling]
    if spelling == "unnorm":
        os.makedirs(os.path.join(cwd, os.path.dirname(rel) or ".", "x"), exist_ok=True)
    cfg = {"kind": kind, "inp": inp, "outdir": spell, "cwd": cwd, "walk_seed": walk_seed, "clock": clock}
    cf = os.path.join(base, "cfg.json")
    json.dump(cfg, open(cf, "w"))
    env = dict(os.environ)
    env.update({"PYTHONHASHSEED": str(hashseed), "PYTHONPATH": VERIF, "TZ": tz})
    p = subprocess.run([PY, "-W", "ignore", "-m", "harness.c06_runner", cf], cwd=VERIF, env=env, stdout=subprocess.PIPE, stderr=subprocess.PIPE, timeout=300)
    os.remove(cf)
    for line in p.stdout.decode("utf-8", "replace").split("\n"):
        if line.startswith("RESULT "):
            r = json.loads(line[7:])
            return r["returned"], r["error"]
    return None, "runner failed: " + p.stderr.decode("utf-8", "replace")[-500:]


CONFIGS = [
    # spelling, hashseed, cwd_sub, walk_seed, clock, tz
    ("abs", 0, "", None, None, "UTC"),
    ("abs", 1, "", None, None, "UTC"),
    ("abs", 2, "", None, 86400.0 * 400, "Asia/Tokyo"),
    ("rel", 3, "", 7, None, "UTC"),
    ("rel", 0, "w/sub", 11, 1.0e9, "America/New_York"),
    ("trail", 4, "w", None, None, "UTC"),
    ("dot", 5, "", 3, None, "UTC"),
    ("unnorm", 6, "w", 5, None, "UTC"),
]


def one_case(ctx, kind, inp, inp0, user_seed, configs):
    """inp0: optional earlier model (then the directory holds its output + user code, so LostCode files can arise)."""
    rng = random.Random(user_seed)
    trees, rets = [], []
    with scratch() as d:
        seedtree = None
        if inp0 is not None:
            s = os.path.join(d, "seed")
            try:
                presv.run_kind(kind, s, inp0)
            except Exception:  # noqa
                return "trivial"
            t0 = read_tree(s)
            seedtree = splice(t0, presv.user_blocks(rng, t0, density=1.0))
            # what else a long-lived output directory holds: framework files of an older kojen (other content), a generated file that a
            # tool re-saved in another encoding; and file timestamps that say nothing (fresh checkout, restored archive, clock skew)
            frame = sorted(k for k in seedtree if k.startswith("allplatforms/"))
            if frame and rng.random() < 0.6:
                k = rng.choice(frame)
                seedtree[k] = seedtree[k] + b"// older framework version\n"
            gen = sorted(k for k in seedtree if not k.startswith("allplatforms/") and b"USER_" in seedtree[k])
            if gen and (user_seed % 3 == 0 or rng.random() < 0.15):
                k = rng.choice(gen)
                seedtree[k] = seedtree[k].replace(b"\n", b"\n// gr\xfc\xdfe\n", 1)
        for i, c in enumerate(configs):
            base = os.path.join(d, "c%d" % i)
            os.makedirs(base)
            if seedtree is not None:
                write_tree(os.path.join(base, "out"), seedtree)
                if i > 0:
                    stamp = 1000000000 if i % 2 == 1 else 4000000000     # 2001 / 2096; configuration 0 keeps "now"
                    for root, _ds, fs in os.walk(os.path.join(base, "out")):
                        for f in fs:
                            os.utime(os.path.join(root, f), (stamp, stamp))
            if seedtree is not None and i == 1 and kind in ("py", "cs", "cpp", "proto"):
                # history: an earlier generation of the same model into this directory was killed half way (another process); what the
                # next complete run leaves must not depend on it
                from .c05 import runner as fault_runner
                fault_runner(kind, inp, os.path.join(base, "out"), {"op": 3 + user_seed % 9, "mode": "kill", "scope": "createoutput"})
                ctx.count("configurations_after_a_killed_run")
            ret, err = run_config(kind, inp, base, *c)
            if err:
                if i == 0:
                    ctx.count("generator_rejected_input")
                    return "trivial"
                return {"kind": kind, "input": inp, "input0": inp0, "user_seed": user_seed, "configs": [configs[0], c],
                        "detail": "generation failed under configuration %r only: %s" % (c, err), "finding_key": "c06:error:%s" % kind}
            trees.append(read_tree(os.path.join(base, "out")))
            rets.append(sorted(os.path.normpath(x) for x in (ret or [])))
            if i > 0:
                bad = sorted(k for k in set(trees[0]) | set(trees[i]) if trees[0].get(k) != trees[i].get(k))
                if bad or rets[i] != rets[0]:
                    return {"kind": kind, "input": inp, "input0": inp0, "user_seed": user_seed, "configs": [configs[0], c], "files": bad[:6],
                            "returned": [rets[0], rets[i]], "detail": "tree differs between two process configurations",
                            "finding_key": "c06:%s:%s:%s" % (kind, inp.get("name"), os.path.basename(bad[0]) if bad else "returned")}
    return None if trees and trees[0] else "trivial"


def run(ctx):
    for p in sorted(glob.glob(os.path.join(VERIF, "corpus", "C06", "*.json"))):
        data = unjson(json.load(open(p)))
        ctx.case(("corpus", p))
        if not replay(ctx, data):
            ctx.violation("corpus case %s fails" % os.path.basename(p), data)
    # function-level correspondence: Python's sorted() on strings vs Proofs.SortedSet.py_sorted (UTF-8 byte order = code-point order)
    if ctx.km:
        alphabet = ["A", "a", "B", "b", "::", "_", "0", "9", "Z", "z", "é", "ß", "中", "\U0001F600", "", "X::Y", "X:", "x"]
        for i in range(ctx.budget(300, 5000)):
            l = ["".join(ctx.rng.choice(alphabet) for _ in range(ctx.rng.randint(0, 5))) for _ in range(ctx.rng.randint(0, 8))]
            want = [x.encode("utf-8") for x in sorted(l)]
            got = ctx.km.call("py_sorted", [x.encode("utf-8") for x in l])
            ctx.case(("sorted", tuple(l)), nontrivial=len(set(l)) > 1)
            if got != want:
                ctx.tie_broken("correspondence: Python sorted() vs SortedSet.py_sorted", {"input": l, "impl": want, "model": got})
                break
        ctx.count("f_sorted", 1)
    per_kind = ctx.budget(2, 25)
    ncfg = 4 if ctx.quick and not ctx.broken else len(CONFIGS)
    for kind in presv.KINDS:
        for i in range(per_kind):
            _kw, inp = presv.random_input(ctx.rng, kind)
            inp["lang"] = kind
            inp0 = None
            if i % 2 == 1:
                if kind in ("py", "cs", "cpp", "proto") and i % 4 == 1:
                    inp["copy_other"] = True       # the framework files (allplatforms/) are part of the tree
                inp0 = presv.mutate_input(ctx.rng, kind, inp)
                inp0["name"] = inp["name"]
            user_seed = ctx.rng.randint(0, 1 << 30)
            if i == 1 and kind in ("py", "cpp", "cs"):
                user_seed -= user_seed % 3      # the first evolved case of each state-machine back end holds an undecodable generated file
            configs = [CONFIGS[0]] + ctx.rng.sample(CONFIGS[1:], ncfg - 1)
            res = one_case(ctx, kind, inp, inp0, user_seed, configs)
            ctx.case((kind, json.dumps(inp, sort_keys=True), json.dumps(inp0, sort_keys=True), user_seed), nontrivial=(res != "trivial"))
            ctx.count("e2e_%s_%s" % (kind, "evolved" if inp0 else "fresh"))
            if i == 0:
                ctx.sample({"kind": kind, "input": inp, "configs": configs})
            if res and res != "trivial":
                ctx.violation(res["detail"], res)
    terminal_states_case(ctx)
    uml_mutants(ctx)


def terminal_states_case(ctx):
    """directed: several states that are only ever targets (Done / Failed / Cancelled / Paused), under six hash seeds"""
    table = [["Run", "EvDone", "Done", "OnDone", "None"], ["Run", "EvFail", "Failed", "OnFail", "None"], ["Run", "EvCancel", "Cancelled", "None", "IsUser"],
             ["Idle", "EvGo", "Run", "OnGo", "None"], ["Run", "EvPause", "Paused", "None", "None"]]
    for kind in ("py", "cs", "cpp"):
        inp = {"table": table, "iface_seed": 7, "name": "Job", "lang": kind, "usertags": {}}
        configs = [CONFIGS[0]] + [("abs", h, "", None, None, "UTC") for h in (1, 2, 3, 5, 8)]
        res = one_case(ctx, kind, inp, None, 0, configs)
        ctx.case((kind, "terminal-states"), nontrivial=(res != "trivial"))
        ctx.count("directed_terminal_states_" + kind)
        if res and res != "trivial":
            ctx.violation(res["detail"], res)


def uml_mutants(ctx):
    """UML mutants (classes renamed to existing names, retyped members ...) under different hash seeds."""
    n = ctx.budget(4, 60)
    for i in range(n):
        kind = "uml_mut" if i % 3 else "uml_cs_mut"
        inp = {"name": ctx.rng.choice(kj.UML_DIAGRAMS), "ns": ctx.rng.choice(["", "1"]), "mut_seed": ctx.rng.randint(0, 1 << 30),
               "mut_n": ctx.rng.randint(1, 4), "lang": kind}
        configs = [CONFIGS[0], ("abs", 1 + i % 7, "", None, None, "UTC"), ("abs", 11 + i % 5, "", None, None, "UTC")]
        if i == 1:
            # directed: two types of one name in different packages used by one class, under six hash seeds
            inp = {"name": "TestClassDiagram", "ns": "1", "mut_seed": 0, "mut_n": 0, "probe": "same-name-types", "lang": kind}
            configs = [CONFIGS[0]] + [("abs", h, "", None, None, "UTC") for h in (1, 2, 3, 5, 8)]
        res = one_case(ctx, kind, inp, None, 0, configs)
        ctx.case((kind, json.dumps(inp, sort_keys=True)), nontrivial=(res != "trivial"))
        ctx.count("e2e_" + kind)
        if res and res != "trivial":
            ctx.violation(res["detail"], res)


def replay(ctx, data):
    if data.get("no_failing_input_found"):
        print(json.dumps(data.get("no_longer_checks"), indent=1)[:3000])
        return False
    res = one_case(ctx, data["kind"], data["input"], data.get("input0"), data["user_seed"], [tuple(c) for c in data["configs"]])
    return not (res and res != "trivial")
