"""C16 -- Template engine: per-element blocks expand once per element, in model order."""
import glob
import json
import os
import random
import re

from .. import engine_e2e as e2e
from .. import engine_fl, kj
from ..check import VERIF, unjson
from ..kmodel import KModel

LEVEL = "proof"

MANIFEST = {
    "technique": "Coq proof (per-element block of the engine = reference block of Spec/RefExpand16.v; first-appearance order of the table "
                 "model) + translator-regenerated stage order + end-to-end differential correspondence; Python reference as cross-check of the Spec",
    "text": "Theorems over Model/EngineSM.v: C16_block_is_ref / C16_sig_block_is_ref (for every element list and every block body of the grammar "
            "the engine's expansion function returns the reference block: body once per element in list order, name tags in their case variant, "
            "NUM/ALPH = index/letter), C16_block_stage (PairExpander.Expand of the kind's stage replaces exactly the block; stage present in the "
            "source-derived stage list: C16_stage_in_source), C16_model_first_appearance (states/events/actions/guards/signatures/transitions-per-state of the engine's "
            "table model = first-appearance lists of the table, no side condition), C16_replace_segmentwise, C16_outside_unchanged, C16_letter. The real output is "
            "compared with ref16 (extracted) on every generated template accepted by in_grammar16/wf16, and ref16 with an independent Python reference.",
    "note": "C16_engine_is_ref / C16_engine_is_ref_table: the whole pipeline (15 stages in source order, then user tags / FOR / write) on every "
            "template of in_grammar16 with any number of blocks of any kinds equals ref16. The nested per-state/per-event/per-transition blocks with "
            "alternative text are in the Coq template syntax (TransBlock/titem/eitem, reference ref_trans): C16_nested_block_is_ref "
            "(innerexpand_transitionsperstate = reference for every transition structure), C16_model_transitions (the dictionary of dictionaries "
            "of the table model = the declarative structure of the table, for every table), and the block is an item of C16_engine_is_ref(_table); "
            "the harness converts its transition sections into that syntax, so real = ref16 is checked on them inside in_grammar16. Restrictions of the "
            "nested grammar: no state tag inside a per-event block, at most one conditional tag on a line and no state/event tag on such a line, "
            "alternative text closed. Literal text may contain '<' '>' (lit_ok: no \"<<<\", not beginning with '<'; may end in '<' "
            "directly before a tag: C16_literals_closed, C16_no_tag_without_open, C16_literal_no_match_position, C16_angle_literals), so the "
            "transition blocks of the shipped TEMPLATEStateMachine.py / TEMPLATEInternals.cs are inside in_grammar16 (probed on the shipped "
            "lines on every run). The per-(template, table) conditions wf_elements16 follow from syntactic name conditions (C07_names_wf16 in Props/C07.v: non-empty alphanumeric element names, every block body line with a visible literal character). signature/member/documentation/attribute tags are not modelled. Values substituted must not contain '<' '>' (checked per case).",
}
RULE = ("probe templates: 1-5 sections out of {plain text with blank runs and TABs, PER_STATE/EVENT/ACTION/GUARD/STRUCT/MSG/PROTOMSG block with "
        "1-3 body lines using the name tag of the block in its three case variants plus NUM/ALPH, PER_ACTION_SIGNATURE block, nested "
        "PER_STATETRANSITION > PER_EVENTTRANSITION > PER_GUARDTRANSITION block with guard/action/target lines with and without alternative "
        "text}, blocks in any order, 1-2 files; random transition tables (1-4 states, events, 1-8 rows, None/none/'' entries) and event "
        "interfaces; run through the real Generate.StateMachine / _PYTHON / _CSHARP; compared with the extracted model (tie) and with the "
        "independent Python reference expander (oracle). non-trivial = at least one block with at least one element")
ASSUMPTIONS = [
    "block bodies: literal text without \"<<<\" that does not begin with '<' (may end in '<' before a tag), without block keywords, name tags of the block's own kind, NUM, ALPH; no whitespace-only "
    "line inside a block (the engine drops them); spaces-only indentation of alternative-text lines",
    "transition lines mention at most one conditional tag (guard / action / next state / state-if-next-state) each",
    "identifiers [A-Z][A-Za-z0-9]* that contain no tag keyword; every row has a start state and an event",
    "signature / member / documentation / attribute tags, TTT table tags, first-filter tags are outside the modelled domain",
]
TRUSTED = [
    "Coq 8.16.1 kernel; axioms: none",
    "translator/tags.py + translator/pipeline.py (tag constants, stage order)",
    "extraction and the OCaml driver",
    "the Python reference expander of this module (about 90 lines) as oracle",
    "modelled, not verified: CPython str/re",
]

# ---------------------------------------------------------------- independent reference expander
LETTERS = "abcdefghijklmnopqrstuvwxyzABCDEFGHIJKLMNOPQRSTUVWXYZ"


def present(x):
    return x != "" and x.lower() != "none"


def uniq(seq):
    out = []
    for x in seq:
        if x not in out:
            out.append(x)
    return out


def camel(s):
    return s[:1].lower() + s[1:]


def snake(s):
    s = re.sub(r"[-. ]", lambda m: "_" if m.group(0) == " " else "\0", s)
    s = re.sub("\0+", "_", s)
    out = ""
    for i, c in enumerate(s):
        if i and c.isupper() and s[i - 1].islower():
            out += "_"
        out += c
    return re.sub("_+", "_", out.lower().strip("_"))


def ref_model(table, structs, protos, msgs):
    m = {}
    m["STATE"] = uniq([x for r in table for x in (r[0], r[2]) if present(x)])
    m["EVENT"] = uniq([r[1] for r in table if present(r[1])] + list(structs))
    m["ACTION"] = uniq([r[3] for r in table if present(r[3])])
    m["GUARD"] = uniq([r[4] for r in table if present(r[4])])
    sigs, seen = [], set()
    for r in table:
        if present(r[3]) and (r[3], r[1]) not in seen:
            seen.add((r[3], r[1]))
            sigs.append((r[3], r[1]))
    m["SIG"] = sigs
    m["STRUCT"], m["PROTOMSG"], m["MSG"] = list(structs), list(protos), list(msgs)
    return m


VARIANTS = {"STATE": ("STATENAME", "stateName", "STATE_NAME"), "EVENT": ("EVENTNAME", "eventName", "EVENT_NAME"),
            "ACTION": ("ACTIONNAME", "actionName", "ACTION_NAME"), "GUARD": ("GUARDNAME", "guardName", "GUARD_NAME"),
            "NEXT": ("NEXTSTATENAME", "nextStateName", "NEXT_STATE_NAME"),
            "IFNEXT": ("STATENAMEIFNEXTSTATE", "stateNameIfNextState", "STATE_NAME_IF_NEXT_STATE"),
            "STRUCT": ("STRUCTNAME", "structName", None), "MSG": ("MSGNAME", "msgName", None), "PROTOMSG": ("PROTOMSGNAME", "protoMsgName", None)}
BLOCK = {"STATE": "PER_STATE", "EVENT": "PER_EVENT", "ACTION": "PER_ACTION", "GUARD": "PER_GUARD", "STRUCT": "PER_STRUCT", "MSG": "PER_MSG",
         "PROTOMSG": "PER_PROTOMSG"}


def put_name(line, fam, name):
    asis, cml, snk = VARIANTS[fam]
    line = line.replace("<<<%s>>>" % asis, name).replace("<<<%s>>>" % cml, camel(name))
    if snk:
        line = line.replace("<<<%s>>>" % snk, snake(name))
    return line


def put_counters(line, i):
    return line.replace("<<<NUM>>>", str(i)).replace("<<<ALPH>>>", LETTERS[i % 52])


TAG_RE = re.compile(r"<<<([A-Za-z_]+)(?:=([^<>]*))?>>>")


def ref_trans_line(line, state, event, tr):
    """one line of a per-transition block for transition tr = (next, action, guard)"""
    nxt, act, grd = tr
    vals = {"ACTION": act if present(act) else None, "GUARD": grd if present(grd) else None,
            "NEXT": nxt if present(nxt) else None, "IFNEXT": state if present(nxt) else None}
    line = put_name(put_name(line, "STATE", state), "EVENT", event)
    missing_alt = None
    dropped = False
    for fam, v in vals.items():
        for k, var in enumerate(VARIANTS[fam]):
            for mt in list(TAG_RE.finditer(line)):
                if mt.group(1) != var:
                    continue
                if v is None:
                    dropped = True
                    if mt.group(2) is not None:
                        missing_alt = mt.group(2)
                else:
                    text = [v, camel(v), snake(v)][k]
                    line = line.replace(mt.group(0), text)
    if dropped:
        if missing_alt:
            return [" " * (len(line) - len(line.lstrip())) + missing_alt + "\n"]
        return []
    return [line]


def ref_section(sec, m, table):
    kind = sec[0]
    if kind == "plain":
        return list(sec[1])
    if kind == "elem":
        fam, body = sec[1], [line_text(l) for l in sec[2]]
        out = []
        for i, name in enumerate(m[fam]):
            out += [put_counters(put_name(l, fam, name), i) for l in body]
        return out
    if kind == "sig":
        out = []
        for i, (a, e) in enumerate(m["SIG"]):
            out += [put_counters(put_name(put_name(line_text(l), "ACTION", a), "EVENT", e), i) for l in sec[1]]
        return out
    if kind == "trans":
        _k, s_pre, e_pre, g_body, e_post, s_post = sec
        out = []
        srcs = uniq([r[0] for r in table])
        for st in srcs + [x for x in m["STATE"] if x not in srcs]:   # target-only states follow, without transitions
            out += [put_name(l, "STATE", st) for l in s_pre]
            for ev in uniq([r[1] for r in table if r[0] == st]):
                out += [put_name(put_name(l, "STATE", st), "EVENT", ev) for l in e_pre]
                for r in table:
                    if r[0] == st and r[1] == ev:
                        for l in g_body:
                            out += ref_trans_line(l, st, ev, (r[2], r[3], r[4]))
                out += [put_name(put_name(l, "STATE", st), "EVENT", ev) for l in e_post]
            out += [put_name(l, "STATE", st) for l in s_post]
        return out
    raise ValueError(kind)


def collapse(lines):
    """runs of blank (spaces-only) lines collapse to the first of the run"""
    out, prev_blank = [], False
    for l in lines:
        blank = l.replace(" ", "") == "\n"
        if blank and prev_blank:
            continue
        out.append(l)
        prev_blank = blank
    return out


def render_section(sec):
    kind = sec[0]
    if kind == "plain":
        return list(sec[1])
    if kind == "elem":
        b = BLOCK[sec[1]]
        ib, ie = sec[3] if len(sec) > 3 else ("", "")
        return [ib + "<<<%s_BEGIN>>>\n" % b] + [line_text(l) for l in sec[2]] + [ie + "<<<%s_END>>>\n" % b]
    if kind == "sig":
        ib, ie = sec[2] if len(sec) > 2 else ("", "")
        return [ib + "<<<PER_ACTION_SIGNATURE_BEGIN>>>\n"] + [line_text(l) for l in sec[1]] + [ie + "<<<PER_ACTION_SIGNATURE_END>>>\n"]
    _k, s_pre, e_pre, g_body, e_post, s_post = sec
    return (["<<<PER_STATETRANSITION_BEGIN>>>\n"] + s_pre + ["<<<PER_EVENTTRANSITION_BEGIN>>>\n"] + e_pre + ["<<<PER_GUARDTRANSITION_BEGIN>>>\n"]
            + g_body + ["<<<PER_GUARDTRANSITION_END>>>\n"] + e_post + ["<<<PER_EVENTTRANSITION_END>>>\n"] + s_post + ["<<<PER_STATETRANSITION_END>>>\n"])


# ---------------------------------------------------------------- generator of probe templates
TEXT = ["int x = 0;", "// comment", "", "  ", "\tindented", "    return;", "#define A 1", "{", "}", "void f(a, b);", "x = y",
        "    /// <summary>", "if (a < b) x << 1;", "std::vector<int> v; // ->", "<b>", "a >>> b"]


def lit(rng):
    if rng.random() < 0.2:      # literal '<' '>' next to tags: "Exit<<<<STATENAME>>>>()", "-> None:", "a << b"
        return rng.choice([">", " -> ", "Exit<", ">()", " << ", "x<<", ">>", "List<", "> ", ">>>", " <b> ", "<", "<<<"])
    return rng.choice(["", " ", "  ", "void ", "(", ")", ";", "_", " = ", "// ", "E_", "on", ", ", "::", "{ ", " }"])


def body_line(rng, fam, counters=True):
    """a block body line as a segment list [["L", text] | ["T", tag name], ...]"""
    tags = [v for v in VARIANTS[fam] if v]
    if counters:
        tags += ["NUM", "ALPH"]
    segs = [["L", rng.choice(["    ", "", "  "])]]
    for _ in range(rng.randint(1, 3)):
        segs.append(["L", lit(rng)])
        segs.append(["T", rng.choice(tags)])
    segs.append(["L", lit(rng)])
    return segs


def line_text(l):
    """a body line (segment list, or already a string for the nested transition blocks) as template text"""
    return l if isinstance(l, str) else e2e.render_line(l)


def trans_line(rng):
    ind = rng.choice(["", "    ", "        "])
    fam = rng.choice(["GUARD", "ACTION", "NEXT", "IFNEXT"])
    var = rng.choice(VARIANTS[fam])
    r = rng.random()
    if r < 0.25:
        return ind + "fixed " + rng.choice(["<<<EVENTNAME>>>", "<<<STATENAME>>>", "text"]) + ";\n"
    if r < 0.65:
        return ind + lit(rng) + "<<<%s>>>" % var + lit(rng) + "\n"
    return ind + lit(rng) + "<<<%s=%s>>>" % (var, rng.choice(["pass", "else:", "/* none */", "nop()"])) + lit(rng) + "\n"


def section(rng):
    r = rng.random()
    if r < 0.3:
        return ("plain", [rng.choice(TEXT) + "\n" for _ in range(rng.randint(1, 4))])
    if r < 0.7:
        fam = rng.choice(["STATE", "EVENT", "ACTION", "GUARD", "STRUCT", "MSG", "PROTOMSG"])
        return ("elem", fam, [body_line(rng, fam) if rng.random() < 0.85 else [["L", "    literal;"]] for _ in range(rng.randint(1, 3))],
                (rng.choice(["", "    ", "\t", "  // "]), rng.choice(["", "        "])))
    if r < 0.8:
        return ("sig", [body_line(rng, rng.choice(["ACTION", "EVENT"])) for _ in range(rng.randint(1, 2))], (rng.choice(["", "    "]), rng.choice(["", "  "])))
    return ("trans", [line_text(body_line(rng, "STATE", False)) for _ in range(rng.randint(0, 1))],
            [line_text(body_line(rng, "EVENT", False)) for _ in range(rng.randint(0, 1))],
            [trans_line(rng) for _ in range(rng.randint(1, 4))],
            ["    end event;\n"] if rng.random() < 0.4 else [], ["end state <<<STATENAME>>>;\n"] if rng.random() < 0.4 else [])


def well_formed_table(table):
    return all(present(r[0]) and present(r[1]) for r in table)


def expected_text(sections, m, table):
    """reference text of the generated file"""
    # blank-run collapse happens on the template; plain sections are the only place with blank lines
    lines = []
    for s in sections:
        lines.append((s, render_section(s)))
    flat = collapse([l for _s, ls in lines for l in ls])
    # expand on the collapsed template: re-parse it by walking the sections again over the collapsed plain text
    out, k = [], 0
    for s, ls in lines:
        if s[0] == "plain":
            kept = []
            for l in ls:
                if k < len(flat) and flat[k] == l:
                    kept.append(l)
                    k += 1
            out += kept
        else:
            k += len(ls)
            out += ref_section(s, m, table)
    return "".join(out).replace("\t", "    ")


def wire16(secs):
    """sections -> template16 wire format, or None when a section is outside the Coq syntax (nested transition blocks)"""
    t = []
    for sec in secs:
        if sec[0] == "plain":
            t += [["X", l[:-1]] for l in sec[1]]
        elif sec[0] == "elem":
            ib, ie = sec[3] if len(sec) > 3 else ("", "")
            t.append(["B", sec[1], ib, ie, [segs_of(l) if isinstance(l, str) else merge_lits(l) for l in sec[2]]])
        elif sec[0] == "sig":
            ib, ie = sec[2] if len(sec) > 2 else ("", "")
            t.append(["S", ib, ie, [segs_of(l) if isinstance(l, str) else merge_lits(l) for l in sec[1]]])
        elif sec[0] == "trans":
            _k, s_pre, e_pre, g_body, e_post, s_post = sec
            ev = [["EL", segs_of(l)] for l in e_pre] + [["EG", "", "", [segs_of(l) for l in g_body]]] + [["EL", segs_of(l)] for l in e_post]
            t.append(["TB", "", "", [["TL", segs_of(l)] for l in s_pre] + [["TE", "", "", ev]] + [["TL", segs_of(l)] for l in s_post]])
        else:
            return None
    return t


def merge_lits(segs):
    """adjacent literal segments as one (the grammar's per-literal conditions are meant for maximal literals)"""
    out = []
    for g in segs:
        if g[0] == "L" and out and out[-1][0] == "L":
            out[-1] = ["L", out[-1][1] + g[1]]
        elif g[0] == "L" and g[1] == "":
            continue
        else:
            out.append(list(g))
    return out


def segs_of(line):
    """a template line (text) as a segment list"""
    text = line[:-1] if line.endswith("\n") else line
    out, pos = [], 0
    for m in re.finditer(r"<<<([^<>]*)>>>", text):
        if m.start() > pos:
            out.append(["L", text[pos:m.start()]])
        body = m.group(1)
        out.append(["T"] + (body.split("=", 1) if "=" in body else [body]))
        pos = m.end()
    if pos < len(text):
        out.append(["L", text[pos:]])
    return out


def coq_side(km, secs, table, structs, protos, msgs):
    """(in the proved domain?, reference text of Spec/RefExpand16.v, Spec rendering) or None"""
    t = wire16(secs)
    if t is None:
        return None
    rows = [list(r) for r in table]
    dom = km.call("d16.in_grammar16", t) == b"1" and km.call("d16.wf16", rows, structs, protos, msgs, t) == b"1"
    ref = km.call("s16.ref16", rows, structs, protos, msgs, t).decode("utf-8", "surrogateescape")
    rendered = [x.decode("utf-8", "surrogateescape") for x in km.call("s16.render", t)]
    return dom, ref, rendered


def one_case(ctx, km, files, kind, seed, table=None):
    rng = random.Random(seed)
    table = table if table is not None else kj.random_table(rng)
    iface = e2e.make_iface(rng, table, kind, {})
    tfiles = {name: [l for s in secs for l in render_section(s)] for name, secs in files.items()}
    real = e2e.run_real(kind, tfiles, table, iface)
    model = e2e.run_model(km, tfiles, table, iface, {})
    structs, protos, msgs = e2e.iface_parts(iface)
    m = ref_model(table, structs, protos, msgs)
    exp = {name: expected_text(secs, m, table) for name, secs in files.items()} if well_formed_table(table) else None
    coq = {name: coq_side(km, secs, table, structs, protos, msgs) for name, secs in files.items()}
    for name, c in coq.items():
        if c is None:
            continue
        ctx.count("coq_syntax_files")
        if c[2] != tfiles[name]:
            ctx.tie_broken("Spec render16 vs harness rendering", {"file": name, "sections": shrink_note({name: files[name]})})
        if c[0]:
            ctx.count("inside_grammar16")
            if exp is not None and c[1] != exp[name]:
                ctx.tie_broken("Spec/RefExpand16.ref16 vs the independent Python reference expander",
                               {"sections": shrink_note({name: files[name]}), "table": table, "spec": c[1], "python": exp[name]})
            if not isinstance(real, tuple) and real.get(name) != c[1]:
                ctx.violation("per-element expansion differs from the reference expander ref16 on a template of in_grammar16",
                              {"files": shrink_note(files), "kind": kind, "seed": seed, "table": table, "file": name,
                               "real": real.get(name), "expected": c[1], "finding_key": "c16-grammar-case"})
        else:
            ctx.count("outside_grammar16")
    return real, model, exp, table, m


def shrink_note(files):
    return {n: [list(s) for s in secs] for n, secs in files.items()}


def many_elements_case(ctx):
    """a directed probe with more than 52 elements of every kind, so that the letter counter goes through a..z, A..Z and wraps"""
    n = 56
    table = [["StateQ%d" % i, "EventQ%d" % i, "StateQ%d" % ((i + 1) % n), "OnQ%d" % i, "GuardQ%d" % i] for i in range(n)]
    files = {"probe_many.txt": [("elem", fam, [[["L", "  "], ["T", "ALPH"], ["L", " "], ["T", "NUM"], ["L", " "], ["T", VARIANTS[fam][0]], ["L", ";"]]])
                               for fam in ("STATE", "EVENT", "ACTION", "GUARD")] +
                              [("sig", [[["L", "  "], ["T", "ALPH"], ["L", "/"], ["T", "NUM"], ["L", " "], ["T", VARIANTS["ACTION"][0]], ["L", ";"]]])]}
    return files, table


def colliding_signatures_case(ctx):
    """a directed probe: (action, event) pairs whose spellings coincide when joined with '' or '_' are different signatures"""
    table = [["S0", "door_closed", "S1", "on_open", "None"], ["S1", "closed", "S0", "on_open_door", "None"],
             ["S0", "BEv", "S1", "OnA", "None"], ["S1", "Ev", "S0", "OnAB", "None"], ["S0", "Ev_Start", "S0", "Do", "None"], ["S1", "Start", "S1", "Do_Ev", "None"]]
    files = {"probe_sig.txt": [("sig", [[["L", "  "], ["T", "ALPH"], ["L", "/"], ["T", "NUM"], ["L", " "], ["T", VARIANTS["ACTION"][0]], ["L", ";"]]]),
                               ("elem", "ACTION", [[["L", "  "], ["T", "NUM"], ["L", " "], ["T", VARIANTS["ACTION"][0]], ["L", ";"]]])]}
    return files, table


SHIPPED_BLOCKS = [("statemachine_templates_py", "TEMPLATEStateMachine.py"), ("statemachine_templates_cs_winlinmac", "TEMPLATEInternals.cs")]


def shipped_block_case(ctx, which):
    """the per-state > per-event > per-transition block of a SHIPPED template (its last PER_STATETRANSITION block, the first-filter
    name tags already substituted), as a probe template of its own: it must lie inside in_grammar16 (literal '<' '>' included)"""
    d, fn = SHIPPED_BLOCKS[which]
    ls = open(os.path.join(kj.REPO, "kojen", d, fn), encoding="utf-8").read().split("\n")
    b = [i for i, l in enumerate(ls) if "PER_STATETRANSITION_BEGIN" in l][-1]
    e = [i for i, l in enumerate(ls) if "PER_STATETRANSITION_END" in l][-1]
    body = [l.replace("<<<STATEMACHINENAME>>>", "Probe").replace("<<<NAMESPACE>>>", "NS") + "\n" for l in ls[b + 1:e]]
    eb = [i for i, l in enumerate(body) if "PER_EVENTTRANSITION_BEGIN" in l][0]
    ee = [i for i, l in enumerate(body) if "PER_EVENTTRANSITION_END" in l][0]
    gb = [i for i, l in enumerate(body) if "PER_GUARDTRANSITION_BEGIN" in l][0]
    ge = [i for i, l in enumerate(body) if "PER_GUARDTRANSITION_END" in l][0]
    sec = ("trans", body[:eb], body[eb + 1:gb], body[gb + 1:ge], body[ge + 1:ee], body[ee + 1:])
    t = wire16([sec])
    ctx.count("shipped_block_" + fn)
    if ctx.km.call("d16.in_grammar16", t) != b"1":
        ctx.violation("the transition block of the shipped %s is outside in_grammar16" % fn, {"section": [list(x) for x in sec[1:]], "finding_key": "c16-shipped-block"})
    return {"probe_shipped_%s.txt" % fn.split(".")[-1]: [sec]}, None


def e2e_cases(ctx, n):
    km = ctx.km
    for i in range(n):
        directed = None
        if i == 0:
            directed = many_elements_case(ctx)
        elif i == 1:
            directed = colliding_signatures_case(ctx)
        elif i in (2, 3, 4, 5):
            directed = shipped_block_case(ctx, i % 2)
        nfiles = 1 if ctx.rng.random() < 0.7 else 2
        files = {"probe%d.txt" % j: [section(ctx.rng) for _ in range(ctx.rng.randint(1, 5))] for j in range(nfiles)}
        kind = ctx.rng.choice(e2e.KINDS)
        seed = ctx.rng.randint(1, 1 << 30)
        if directed is not None:
            files = directed[0]
        real, model, exp, table, m = one_case(ctx, km, files, kind, seed, table=(directed[1] if directed is not None else None))
        ctx.count("e2e_" + kind)
        if isinstance(real, tuple) and isinstance(model, tuple):
            ctx.count("both_raise")
        elif real != model:
            ctx.tie_broken("correspondence end-to-end Generate.StateMachine* vs EngineSM.generate (C16 probes)",
                           {"files": shrink_note(files), "kind": kind, "seed": seed, "table": table,
                            "real": real if isinstance(real, tuple) else {k: v for k, v in real.items() if model == () or not isinstance(model, dict) or model.get(k) != v},
                            "model": model if isinstance(model, tuple) else {k: v for k, v in model.items() if isinstance(real, dict) and real.get(k) != v}})
        nontrivial = False
        if exp is not None and not isinstance(real, tuple):
            for s in [s for secs in files.values() for s in secs]:
                ctx.count("section_" + s[0] + ("_" + s[1] if s[0] == "elem" else ""))
                if s[0] != "plain":
                    nontrivial = True
            bad = [k for k in exp if real.get(k) != exp[k]]
            if bad:
                ctx.violation("per-element expansion differs from the reference expander",
                              {"files": shrink_note(files), "kind": kind, "seed": seed, "table": table, "file": bad[0],
                               "real": real.get(bad[0]), "expected": exp[bad[0]], "finding_key": finding_key(files, table)})
        elif exp is None:
            ctx.count("table_without_start_state_or_event")
        ctx.case((json.dumps(shrink_note(files)), kind, seed), nontrivial=nontrivial)
        if nontrivial:
            ctx.sample({"template": {k: [l for s in v for l in render_section(s)] for k, v in files.items()}, "table": table,
                        "output": real if isinstance(real, tuple) else real})


def finding_key(files, table):
    return "c16-grammar-case"


def run(ctx):
    for p in sorted(glob.glob(os.path.join(VERIF, "corpus", "C16", "*.json"))):
        data = unjson(json.load(open(p)))
        ctx.case(("corpus", p))
        if not replay(ctx, data):
            ctx.violation("corpus case %s fails" % os.path.basename(p), data)
    if ctx.km is None:
        return
    try:
        engine_fl.run(ctx, ctx.budget(150, 3000))
    finally:
        engine_fl.close()
    # CD player table of the README: non-vacuity instance
    real, model, exp, table, m = one_case(ctx, ctx.km, {"cd.txt": [("elem", "STATE", ["s <<<STATENAME>>> <<<stateName>>> <<<STATE_NAME>>> <<<NUM>>> <<<ALPH>>>\n"]),
                                                                   ("trans", ["state <<<STATENAME>>>\n"], [" on <<<EVENTNAME>>>\n"],
                                                                    ["  if <<<GUARDNAME=always>>>\n", "  do <<<ACTIONNAME>>>\n", "  goto <<<NEXTSTATENAME=stay>>>\n"], [], [])]},
                                        "py", 1, table=kj.CDPLAYER)
    ctx.case(("cdplayer",), nontrivial=True)
    if real != model:
        ctx.tie_broken("correspondence on the CD player probe", {"real": real, "model": model})
    if isinstance(real, tuple) or real.get("cd.txt") != exp["cd.txt"]:
        ctx.violation("CD player probe differs from the reference expander", {"cdplayer": True, "real": real, "expected": exp, "finding_key": "cdplayer"})
    e2e_cases(ctx, ctx.budget(250, 4000))


def replay(ctx, data):
    if data.get("no_failing_input_found"):
        print(json.dumps(data.get("no_longer_checks"), indent=1)[:3000])
        return False
    if data.get("cdplayer"):
        return False
    km = ctx.km or KModel()
    try:
        files = {n: [tuple(s) for s in secs] for n, secs in data["files"].items()}
        real, _model, exp, _t, _m = one_case(ctx, km, files, data["kind"], data["seed"], table=data.get("table"))
        return exp is None or (not isinstance(real, tuple) and all(real.get(k) == exp[k] for k in exp))
    finally:
        if ctx.km is None:
            km.close()
