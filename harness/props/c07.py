"""C07 -- Outputs stay re-preservable: tags fully expanded, USER tags paired and unique."""
import glob
import json
import os
import random
import re
from collections import Counter

from .. import kj, presv
from ..check import VERIF, unjson
from ..kj import read_tree, scratch, splitlines_keep
from ..manifest_data import PRES_NOTE
from . import c01

LEVEL = "proof"
MANIFEST = {
    "technique": "Coq proof for all models on the shipped file inside the block grammar (both halves of the property) + finite source-derived "
                 "obligations over every shipped template + extracted predicate evaluated on every real output",
    "text": "FOR ALL MODELS: C07_wf_out_Test_TEMPLATEStateMachine_cpp -- for every state-machine model whose element names satisfy the syntactic "
            "names_ok (non-empty, letters/digits only, not a '_'-piece of a fixed USER tag name of the file, distinct per list) and every user-tag "
            "assignment, what smgen.Generate's pipeline (Model/EngineSM.v, stage/phase order from Gen/Pipeline.v) writes for Test.TEMPLATEStateMachine.cpp "
            "is createoutput of lines without generator tag that are a well-formed fresh file (Preserve.wf_fresh_file); C07_fixed_point_shipped / "
            "C01_fixed_point_shipped instantiate C01 with it; C07_fresh_of_template is the generic theorem (any template of the block grammar with "
            "in_grammar07 and distinct keys), C07_tags_consumed_shipped(_user) the generator-tag half for every shipped file inside the C16 grammar "
            "(C07_shipped_files_in_grammar: Test.TEMPLATEStateMachine.cpp, TEMPLATEInternals.cs, Test.TEMPLATEStateMachine.cs, TEMPLATEReceiver.h/.cpp, "
            "TEMPLATETransmitter.h/.cpp, and -- with the events' signature strings as an interface oracle of the element record -- TEMPLATEStateMachine.py "
            "and TEMPLATEStateMachine.h, whose real outputs are compared as whole files with ref16 (d16.shipped_ref, oracle from the real Language object); files with user-tag lines outside blocks under the computed user_lines_closed). "
            "C07_wf_out_Test_TEMPLATEStateMachine_cs / C07_fixed_point_shipped_cs / C01_fixed_point_shipped_cs: both halves for the shipped "
            "Test.TEMPLATEStateMachine.cs (names_ok_cs = names_ok + no guard named like a state hook On<State>Entry/Exit; user_lines_plain for the "
            "assignment), evaluated on every cs case (d07.names_ok_shipped_cs) with wf_fresh_file on the real lines; real = extracted model for the "
            "two whole cs files on every case. C07_wf_out_TEMPLATEStateMachine_py / _h, C07_fixed_point_shipped_py / _h (C01_fixed_point_shipped_py / _h): both "
            "halves for the WHOLE shipped files TEMPLATEStateMachine.py and TEMPLATEStateMachine.h (C07_fresh_of_template_x: templates with transition blocks, "
            "per-event signature blocks, initial-state lines and the transition-table line); all their USER tags are fixed text, so the cleaned names are "
            "pairwise distinct for EVERY element record (C07_keys_unique_TEMPLATEStateMachine_py / _h); hypothesis names_ok_py / names_ok_h (= names_ok_x, SYNTACTIC) = every name a "
            "non-empty alphanumeric word and the initial state, the per-state transition lists, the table cells and those signature strings of the oracle that the file asks for (both files: without defaults; a C++ default ={} does not matter) free "
            "of '{', backslash and CR (C07_oracle_condition_needed: a signature spelling a USER tag of the file breaks well-formedness) -- C07_dyn_plain_of_names (Proofs/Dyn07.v) derives from it that the output chunks of those four kinds of items are "
            "plain chunks (through the reference expansion, EngineSM.paren_clean and the sml printer EngineSM.sml_print) --, plus user_lines_plain and the "
            "C16 admission wf_elements16 (both computed per case); evaluated on every py / cpp case (d07.names_ok_shipped_x, oracle from the real Language object) with "
            "wf_fresh_file on the real lines. Model tied to the code by "
            "comparing the real bytes of these files with EngineSM.generate on every random cpp/proto case; names_ok and wf_fresh_file are evaluated "
            "(extracted) on the real outputs. FOR THE OTHER FILES (PARTIAL): C07_template_tags_known, C07_template_user_tags_paired_unique (finite "
            "obligations over Gen/Templates.v), C07_instances_unique / C07_pair_instances_injective, C07_collect_unambiguous; the universally quantified "
            "statement is tied by evaluating the extracted represervable and an independent regex oracle on every file of real generations.",
    "note": PRES_NOTE + " For-all-models theorems hold for the fixed first-filter dictionary dict0 (project name X, namespace NS) and only for the "
            "shipped files that use name/case/counter tags (Test.TEMPLATEStateMachine.cpp with USER tags; TEMPLATEReceiver.h, TEMPLATETransmitter.h "
            "generator-tag half only; TEMPLATEStateMachine.py / .h with USER tags under the syntactic names_ok_x). All other shipped files use "
            "member/attribute/documentation tags that the Coq engine model does not cover. Known findings K-C07-2/3 reproduce what happens outside names_ok.",
}
RULE = ("cases = real generations: random valid tables/interfaces/user-tag settings for the three state-machine back ends and the protocol generator, "
        "adversarial tables (repeated actions on different events, target-only states, rows without guard/action/target, names that are "
        "prefixes/concatenations of one another), both shipped class diagrams and mutants of them (harness/umlsynth.mutate) for the two UML back ends, "
        "namespace folders on/off; every generated file is judged by the extracted Coq predicate represervable and by an independent regex oracle; "
        "non-trivial = the file contains at least one USER tag pair; distinct = distinct (kind, model)")
ASSUMPTIONS = c01.ASSUMPTIONS
TRUSTED = c01.TRUSTED + ["translator/templates.py, translator/vocab.py (template lines and tag vocabularies -> Gen/)"]

TAG = re.compile(rb"<<<[^<>]*>>>")

ADVERSARIAL = [
    [["SA", "BEvent", "SB", "OnA", "GuardX"], ["SA", "Event", "SB", "OnAB", "GuardXY"], ["SB", "YEvent", "SA", "OnA", "GuardX"]],
    [["S1", "E1", "S2", "OnGo", "None"], ["S1", "E2", "S2", "OnGo", "None"], ["S2", "E1", "S1", "OnGo", "G1"]],
    [["S1", "E1", "S2", "OnGo", "None"]],
    [["S1", "E1", "S2", "OnGo", "G1"], ["S1", "E1", "S2", "OnGo", "G1"]],
    [["S1", "E1", "None", "None", "None"], ["S1", "E2", "", "", ""], ["S2", "E1", "none", "OnX", "none"]],
    [["Foo", "FooEv", "Bar", "FooAct", "FooGuard"], ["Bar", "FooEv", "FooBar", "FooAct", "None"], ["FooBar", "Ev", "Foo", "Act", "Guard"]],
]


def oracle(lines):
    """independent reading of the property for one file: (ok, reason)"""
    left = [l for l in lines if TAG.search(l)]
    if left:
        return False, "unexpanded generator tag: %r" % left[0][:80]
    tl = [(i, l) for i, l in enumerate(lines) if kj.PFX in l]
    if len(tl) % 2:
        return False, "odd number of USER tag lines"
    names = []
    for j in range(0, len(tl), 2):
        (a, la), (b, lb) = tl[j], tl[j + 1]
        if kj.spec_clean(la) != kj.spec_clean(lb):
            return False, "open/close names differ: %r / %r" % (la[:60], lb[:60])
        if b != a + 1:
            return False, "generated text between an open and its close tag: %r" % la[:60]
        names.append(kj.spec_clean(la))
    dup = [n for n, c in Counter(names).items() if c > 1]
    if dup:
        return False, "duplicate USER tag name(s): %s" % b", ".join(dup[:3]).decode()
    return True, ""


PARAMS_TAG = re.compile(rb"USER_[A-Za-z0-9_]+_PARAMS")


def unexpected_duplicates(lines, f, expected):
    """duplicated ..._PARAMS tag names of a UML file that the diagram does NOT stand for: the documented scheme
    USER_<ret>_<class>_<op>_<n>_PARAMS yields a duplicate only when the class really emits two operations with equal
    (return type text, class, name, arity) -- umlsynth.expected_param_tags, computed from the abstract diagram.
    None = no expectation available (model not built / does not return)."""
    if expected is None:
        return None
    tl = [l for l in lines if kj.PFX in l]
    names = [m.group(0).decode() for l in tl[::2] for m in [PARAMS_TAG.search(l)] if m]
    dups = {n for n, c in Counter(names).items() if c > 1}
    exp = Counter(expected.get(os.path.splitext(os.path.basename(f))[0], []))
    return sorted(n for n in dups if exp.get(n, 0) < 2)


def judge_tree(ctx, tree, kind, desc, key, expected=None):
    """every file of a generated tree; returns number of files with at least one tag pair"""
    nt = 0
    for f, data in sorted(tree.items()):
        lines = splitlines_keep(data)
        ok, why = oracle(lines)
        if any(kj.PFX in l for l in lines):
            nt += 1
        if ctx.km:
            m = ctx.km.call("represervable", lines) == b"1"
            if m != ok and not getattr(ctx, "_c07_disagree", False):
                ctx._c07_disagree = True
                ctx.tie_broken("correspondence: extracted TagShape.represervable vs the independent oracle", {"file": f, "kind": kind, "model": m, "oracle": [ok, why], "input": desc})
        ctx.count("files_ok" if ok else "files_bad")
        if not ok:
            fk = "%s:%s" % (key, os.path.basename(f))
            if kind in ("uml", "uml_cs") and why.startswith("duplicate USER tag") and all(x.strip().endswith("_PARAMS") for x in why.split(":", 1)[1].split(",")):
                fk = "uml:duplicate-operation-tag"      # the operation-body tag USER_<ret>_<class>_<op>_<n>_PARAMS is not injective
                extra = unexpected_duplicates(lines, f, expected)
                if extra:                               # ... but THIS duplicate is not one the diagram stands for: a new defect
                    fk = "uml:unexpected-duplicate-operation-tag"
                    why += " -- not explained by two operations of equal (return type, class, name, arity): %s" % ", ".join(extra[:3])
            ctx.violation("generated file %s is not re-preservable: %s" % (f, why),
                          {"kind": kind, "input": desc, "file": f, "reason": why, "finding_key": fk})
    return nt


def uml_expectation(ctx, umlsynth, cd):
    if ctx.km is None:
        return None
    try:
        return umlsynth.expected_param_tags(ctx.km, cd)
    except Exception:  # noqa -- adaptor / model cannot express this mutant
        ctx.count("uml_expectation_unavailable")
        return None


def sm_case(ctx, kind, table, seed, name="X", usertags=None, key=None):
    with scratch() as d:
        iface = kj.events_interface(random.Random(seed), table, kind, usertags)
        try:
            kj.generate(kind, os.path.join(d, "o"), table=[list(r) for r in table], iface=iface, name=name)
        except Exception as e:  # noqa
            ctx.count("generator_rejected:%s" % type(e).__name__)
            return 0
        tree = read_tree(os.path.join(d, "o"))
    return judge_tree(ctx, tree, kind, {"table": table, "iface_seed": seed, "name": name, "usertags": usertags}, key or ("sm:%s" % kind))

# ---- tie for the files of C07_tags_consumed_shipped: real output vs the extracted EngineSM.generate (same dictionary as dict0)
DICT0 = [["<<<STATEMACHINENAMEUPPER>>>", "X"], ["<<<stateMachineName>>>", "x"], ["<<<STATE_MACHINE_NAME>>>", "x"], ["<<<STATEMACHINENAME>>>", "X"],
         ["<<<CLASSNAME>>>", "X"], ["<<<CLASS_NAME>>>", "x"], ["<<<PYIFGENNAME>>>", "Transition Table"], ["<<<NAMESPACE>>>", "NS"],
         ["<<<AUTHOR>>>", "a"], ["<<<GROUP>>>", "g"], ["<<<BRIEF>>>", "b"], ["<<<DLL_EXPORT>>>", ""]]
MODELLED = {"cpp": ("statemachine_templates_embedded_arm", ["Test.TEMPLATEStateMachine.cpp"]),
            "cs": ("statemachine_templates_cs_winlinmac", ["TEMPLATEInternals.cs", "Test.TEMPLATEStateMachine.cs"]),
            "proto": (os.path.join("protocol_templates", "CPP"), ["TEMPLATEReceiver.h", "TEMPLATETransmitter.h", "TEMPLATETransmitter.cpp"])}


def engine_tie(ctx, kind, table, iface, desc):
    """the files that Model/EngineSM.v models completely: the real generator's bytes = the extracted model's text"""
    if not ctx.km:
        return
    tdir, names = MODELLED[kind]
    with scratch() as d:
        try:
            kj.generate(kind, os.path.join(d, "o"), table=[list(r) for r in table], iface=iface, name="X")
        except Exception as e:  # noqa
            ctx.count("generator_rejected:%s" % type(e).__name__)
            return
        tree = read_tree(os.path.join(d, "o"))
    structs, protos, msgs = list(iface.StructNames()), list(iface.ProtocolStructNames()), list(iface.MessageNames())
    for tname in names:
        with open(os.path.join(kj.REPO, "kojen", tdir, tname), newline="") as f:
            lines = f.read().split("\n")
        lines = [l + "\n" for l in lines[:-1]] + ([lines[-1]] if lines[-1] else [])
        try:
            r = ctx.km.call("m.generate", [list(r) for r in table], structs, protos, msgs, DICT0, [[k, "" if v is None else str(v)] for k, v in iface.UserTags().items()],
                            [[tname, lines]])
        except Exception as e:  # noqa
            r = []
        ctx.count("engine_tie_" + tname)
        if tname == "Test.TEMPLATEStateMachine.cpp":
            # domain of C07_wf_out_Test_TEMPLATEStateMachine_cpp (syntactic names_ok, extracted): then the theorem promises a
            # well-formed fresh file; the extracted wf_fresh_file is evaluated on the REAL lines as well
            dom = ctx.km.call("d07.names_ok_shipped", lines, [list(r) for r in table], structs, protos, msgs) == b"1"
            ctx.count("names_ok_%s" % ("true" if dom else "false"))
            real_b = tree.get(tname.replace("TEMPLATE", "X"))
            if dom and real_b is not None and ctx.km.call("wf_fresh", splitlines_keep(real_b)) != b"1":
                ctx.violation("names_ok holds but the real Test.XStateMachine.cpp is not a well-formed fresh file",
                              dict(desc, finding_key="names-ok-but-not-wf"))
        if tname == "Test.TEMPLATEStateMachine.cs":
            # domain of C07_wf_out_Test_TEMPLATEStateMachine_cs: names_ok, no guard named like a state hook, the user line's output plain
            ut = [[k, "" if v is None else str(v)] for k, v in iface.UserTags().items()]
            dom = ctx.km.call("d07.names_ok_shipped_cs", lines, [list(r) for r in table], structs, protos, msgs, ut) == b"1"
            ctx.count("names_ok_cs_%s" % ("true" if dom else "false"))
            real_b = tree.get(tname.replace("TEMPLATE", "X"))
            if dom and real_b is not None and ctx.km.call("wf_fresh", splitlines_keep(real_b)) != b"1":
                ctx.violation("names_ok_cs holds but the real Test.XStateMachine.cs is not a well-formed fresh file",
                              dict(desc, finding_key="names-ok-cs-but-not-wf"))
        if not r:
            ctx.count("engine_tie_outside_model_domain")      # a name spells an unmodelled tag etc.
            continue
        model = r[0][0][1]
        real = tree.get(tname.replace("TEMPLATE", "X"))
        if real != model:
            ctx.tie_broken("correspondence: real %s vs EngineSM.generate" % tname, dict(desc, file=tname, real=real, model=model))


WHOLE = {"cpp": ("statemachine_templates_embedded_arm", ["TEMPLATEStateMachine.h"]), "py": ("statemachine_templates_py", ["TEMPLATEStateMachine.py"])}


def whole_file_tie(ctx, kind, table, iface, desc):
    """shipped files that are whole files of the C16 grammar WITH the signature oracle: the real generator's text = ref16 of the file
    (Parse16.shipped_ref), the oracle read from the real Language object"""
    if not ctx.km or kind not in WHOLE:
        return
    from .. import engine_e2e as e2e
    tdir, names = WHOLE[kind]
    with scratch() as d:
        try:
            kj.generate(kind, os.path.join(d, "o"), table=[list(r) for r in table], iface=iface, name="X")
        except Exception as e:  # noqa
            return
        tree = read_tree(os.path.join(d, "o"))
    structs, protos, msgs = list(iface.StructNames()), list(iface.ProtocolStructNames()), list(iface.MessageNames())
    sigs = e2e.event_sigs(iface, kind, table)
    ut = [[k, "" if v is None else str(v)] for k, v in iface.UserTags().items()]
    for tname in names:
        with open(os.path.join(kj.REPO, "kojen", tdir, tname), newline="") as f:
            lines = f.read().split("\n")
        lines = [l + "\n" for l in lines[:-1]] + ([lines[-1]] if lines[-1] else [])
        rows = [list(r) for r in table]
        if ctx.km.call("d16.shipped_wf", lines, rows, structs, protos, msgs, sigs, ut) != b"1":
            ctx.count("whole_file_outside_domain_" + tname)
            continue
        ref = ctx.km.call("d16.shipped_ref", lines, rows, structs, protos, msgs, sigs, ut)
        real = tree.get(tname.replace("TEMPLATE", "X"))
        ctx.count("whole_file_compared_" + tname)
        if not ref or real is None or ref[0].decode("utf-8", "surrogateescape") != real.decode("utf-8", "surrogateescape"):
            ctx.tie_broken("whole file: real %s vs ref16 of the shipped template with the signature oracle" % tname, dict(desc, file=tname))
        # domain of C07_wf_out_TEMPLATEStateMachine_py / _h (names_ok_x, syntactic: alphanumeric names; initial state, transition lists, table cells and
        # oracle strings free of '{', backslash, CR; user_lines_plain): then the theorem promises a well-formed fresh file; the extracted
        # wf_fresh_file is evaluated on the REAL lines
        dom = ctx.km.call("d07.names_ok_shipped_x", lines, rows, structs, protos, msgs, sigs, ut) == b"1"
        ctx.count("names_ok_x_%s_%s" % (tname, "true" if dom else "false"))
        if dom and real is not None and ctx.km.call("wf_fresh", splitlines_keep(real)) != b"1":
            ctx.violation("names_ok_x holds but the real %s is not a well-formed fresh file" % tname.replace("TEMPLATE", "X"),
                          dict(desc, file=tname, finding_key="names-ok-x-but-not-wf"))


def run(ctx):
    for p in sorted(glob.glob(os.path.join(VERIF, "corpus", "C07", "*.json"))):
        data = unjson(json.load(open(p)))
        ctx.case(("corpus", p))
        if not replay(ctx, data):
            ctx.violation("corpus case %s fails" % os.path.basename(p), data)
    rng = ctx.rng
    n = ctx.budget(12, 300)
    for kind in ("py", "cs", "cpp"):
        for t in ADVERSARIAL:
            nt = sm_case(ctx, kind, t, 1)
            ctx.case((kind, json.dumps(t)), nontrivial=nt > 0)
            ctx.count("adversarial_" + kind)
        for i in range(n):
            t = kj.random_table(rng)
            ut = {}
            if rng.random() < 0.5:
                ut["StateMachineThread"] = rng.choice([0, 1])
            if rng.random() < 0.3:
                ut["Verbose"] = rng.choice([0, 1])
            seed = rng.randint(0, 1 << 30)
            nt = sm_case(ctx, kind, t, seed, rng.choice(["X", "CDPlayer"]), ut)
            ctx.case((kind, json.dumps(t), seed, json.dumps(ut)), nontrivial=nt > 0)
            ctx.count("random_" + kind)
            if kind in ("cpp", "cs"):
                engine_tie(ctx, kind, t, kj.events_interface(random.Random(seed), t, kind, ut), {"table": t, "iface_seed": seed})
            whole_file_tie(ctx, kind, t, kj.events_interface(random.Random(seed), t, kind, ut), {"table": t, "iface_seed": seed})
            if i == 0:
                ctx.sample({"kind": kind, "table": t, "usertags": ut})
    for i in range(n):
        seed = rng.randint(0, 1 << 30)
        with scratch() as d:
            kj.generate("proto", os.path.join(d, "o"), iface=kj.random_proto_interface(random.Random(seed)), name=rng.choice(["P", "Proto"]))
            tree = read_tree(os.path.join(d, "o"))
        nt = judge_tree(ctx, tree, "proto", {"iface_seed": seed}, "proto")
        ctx.case(("proto", seed), nontrivial=nt > 0)
        ctx.count("random_proto")
        engine_tie(ctx, "proto", [], kj.random_proto_interface(random.Random(seed)), {"iface_seed": seed})
    # UML: shipped diagrams and mutants, both back ends, namespace folders on/off
    from .. import umlsynth
    m = ctx.budget(6, 120)
    for lang, kind in (("cpp", "uml"), ("csharp", "uml_cs")):
        for diag in umlsynth.DIAGRAMS:
            for i in range(m):
                cd = umlsynth.load(diag)
                muts = []
                if i >= 2:
                    try:
                        muts = umlsynth.mutate(rng, cd, rng.randint(1, 3))
                    except Exception as e:  # noqa
                        ctx.count("mutator_failed")
                        continue
                nsf = bool(i % 2)
                expected = uml_expectation(ctx, umlsynth, cd)
                with scratch() as d:
                    try:
                        umlsynth.generate(cd, os.path.join(d, "o"), lang, nsf)
                    except BaseException as e:  # noqa -- the generator rejects / crashes on this mutant: outside C07's domain
                        ctx.count("generator_rejected:%s" % type(e).__name__)
                        continue
                    tree = read_tree(os.path.join(d, "o"))
                nt = judge_tree(ctx, tree, kind, {"diagram": diag, "mutations": [str(x) for x in muts], "nsf": nsf},
                                "%s:%s" % (kind, diag) if not muts else "%s-mutant" % kind, expected=expected)
                ctx.case((kind, diag, i, str(muts), nsf), nontrivial=nt > 0)
                ctx.count("%s_%s_%s" % (kind, diag, "mutant" if muts else "shipped"))
    # directed UML probes (shapes random edits reach rarely): explicit constructor of the generated constructor's arity,
    # overloads of equal arity returning same-named classes of two packages / the same type (the latter = K-C07-1)
    for probe in umlsynth.probe_names("TestClassDiagram"):
        if not probe.startswith(("explicit-ctor", "overloads", "redeclare-renamed-params")):
            continue
        for lang, kind in (("cpp", "uml"), ("csharp", "uml_cs")):
            cd = umlsynth.load("TestClassDiagram")
            umlsynth.apply_probe(cd, probe)
            expected = uml_expectation(ctx, umlsynth, cd)
            with scratch() as d:
                try:
                    umlsynth.generate(cd, os.path.join(d, "o"), lang, True)
                except BaseException as e:  # noqa
                    ctx.count("generator_rejected:%s" % type(e).__name__)
                    continue
                tree = read_tree(os.path.join(d, "o"))
            nt = judge_tree(ctx, tree, kind, {"diagram": "TestClassDiagram", "probe": probe, "nsf": True}, "%s-probe" % kind, expected=expected)
            ctx.case((kind, "probe", probe), nontrivial=nt > 0)
            ctx.count("%s_probe_%s" % (kind, probe.split(":")[0]))
    # directed probes that keep the recorded findings honest (they must still reproduce)
    sm_case(ctx, "py", [["S1", "E1", "S2", "OnGo", "CONSTRUCTOR"], ["S2", "E1", "S1", "OnGo", "IMPORTS"]], 1, key="fixed-name-collision")
    sm_case(ctx, "cs", [["Foo", "E1", "Bar", "OnGo", "OnFooExit"]], 1, key="on-state-exit-collision")


def replay(ctx, data):
    if data.get("no_failing_input_found"):
        print(json.dumps(data.get("no_longer_checks"), indent=1)[:3000])
        return False
    if "table" in data.get("input", {}):
        inp = data["input"]
        before = len(ctx.violations) + len(ctx.known)
        sm_case(ctx, data["kind"], inp["table"], inp["iface_seed"], inp.get("name", "X"), inp.get("usertags"))
        return len(ctx.violations) + len(ctx.known) == before
    if "probe" in data.get("input", {}):
        from .. import umlsynth
        cd = umlsynth.load(data["input"]["diagram"])
        umlsynth.apply_probe(cd, data["input"]["probe"])
        expected = uml_expectation(ctx, umlsynth, cd)
        before = len(ctx.violations) + len(ctx.known)
        with scratch() as d:
            umlsynth.generate(cd, os.path.join(d, "o"), "cpp" if data["kind"] == "uml" else "csharp", data["input"].get("nsf", True))
            judge_tree(ctx, read_tree(os.path.join(d, "o")), data["kind"], data["input"], "%s-probe" % data["kind"], expected=expected)
        return len(ctx.violations) + len(ctx.known) == before
    print("replay of UML/protocol cases: re-run the check with the same VERIF_SEED")
    return False
