"""C19 -- UML class generation is complete, namespace-faithful and self-consistent."""
import collections
import contextlib
import glob
import json
import os
import random
import re

from .. import kj, umlblob as ub, umlsynth as us, vppsynth as vs
from ..check import VERIF, unjson

from kojen import LanguageCPP, LanguageCsharp  # noqa: E402

LEVEL = "proof"

MANIFEST = {
    "technique": "Coq proofs over an executable model of umlgen with LanguageCPP and with LanguageCsharp on an abstract class diagram + differential "
                 "correspondence (model vs real GetOperationPerVisibility of both back ends / generated file sets) + direct observation of the generated "
                 "C++ (tokenizer, g++ -fsyntax-only) and C# (tokenizer; there is no C# compiler)",
    "text": "Theorems (Props/C19.v) over ALL abstract class diagrams: C19_decl_def (for every class and every fuel that does not run out: the "
            "operations emitted for the header's three visibility sections are a permutation of those emitted for the source file, stated as "
            "equal counts for every predicate) and C19_decl_def_acyclic (for acyclic, closed diagrams fuel = number of classes never runs out, so "
            "both sides return and agree; C19_acyclic_excludes_cycles: the boolean acyclic excludes every cycle), C19_decl_def_unique (under once_hyp = 'no operation is reached through two "
            "paths', a boolean on the diagram evaluated per class: every emitted operation is declared once and defined once; C19_ops_unique per "
            "section; C19_twice_refuted: the known exception K-C19-1b is exactly the failure of the hypothesis), C19_realised (every operation "
            "of a realised pure virtual interface is emitted for the realising class, defined under its name, declared 'override', unless the "
            "class declares that signature itself), C19_files (under files_hyp = well-formed names and distinct paths, both evaluated on every "
            "generated input, the code model has exactly one header per generated element and one source per concrete class, in the folder chain "
            "of the namespace when requested; C19_files_meaning, C19_folder_chain), C19_namespace_balanced (ns_begin ++ body ++ ns_end is exactly "
            "the properly nested namespace chain and names it), C19_cycle_refuted (a cyclic realisation exhausts every fuel: Python "
            "RecursionError). The model is tied to the code by translator/uml.py (branch conditions, template filters, file-name dictionaries, "
            "template directory listing regenerated from umlgen.py) and by differential runs on the shipped diagrams and mutants of them "
            "(GetOperationPerVisibility vs ops_of with the theorem's fuel, generated file set vs files_of and vs Spec.expected_files). "
            "INCLUDES AND FORWARD DECLARATIONS (Model/UmlIncl.v over the raw diagram -- qualified type names, modifiers, multiplicities, inheritance "
            "and association ends: Class.GetNotForwardDeclarable... / GetForwardDeclarable... / DoAttributes...RequireVector, ClassDiagram."
            "GetNamespaceDependencies, LanguageCPP.GetNotForwardDeclarableHeaderIncludes / GetForwardDeclarableHeaderIncludes / GetForwardDeclarations and "
            "their helpers): C19_includes_cover (names well formed: for every class k of the diagram that the header of c uses BY VALUE -- base class, "
            "realised interface, value member, value parameter or return, composition target -- the header has the line #include \"<k's namespace as "
            "seen from c's folder>/<k>.h\"; C19_include_resolves: that path is k's header as C19_files places it, relative to c's folder or to the "
            "root; also for a same-named class of another package, a class without package, a class whose name occurs in its package's name: "
            "K-C19-11/12 repaired), C19_source_includes_cover (pointer-only types are included by the source file), C19_pointer_use_covered + "
            "C19_forward_declared (a type used only through pointer / reference is forward declared in its namespace, or included), C19_vector_included "
            "(a to-many member, association end or parameter brings <vector>), C19_includes_sorted (both dependency lists are sorted by FULL name without "
            "duplicates and depend only on the SET of names, not on set iteration order or insertion count: same-named types of different packages are "
            "ordered by their full names; with C06_hash_order_irrelevant), C19_includes_cover_from_diagram / C19_vector_from_diagram (the same from any project hosting the diagram's rows: idiagram_of D = "
            "the raw diagram of the objects read, tied to the real objects), C19_includes_source_shape (primitive list, branch conditions, template "
            "sections, umlgen's calls pinned). Ties: the real functions vs the model on every class of every input (F), and the #include / forward-"
            "declaration lines read from the generated headers and sources vs the model's (E); independent oracle: every by-value class of the diagram "
            "is included under a path that resolves to its generated header. "
            "C# BACK END (Model/UmlCs.v: the shared generator class over the C# template directory, the project files, LanguageCsharp."
            "GetOperationPerVisibility = the same recursion on the C# view of the diagram -- no constness, ref / out parameter types -- and the text of "
            "an emitted method): C19_files_cs (under files_hyp_cs exactly one .cs per generated element -- class, interface, enumeration, struct -- in "
            "its namespace folder when requested, plus the project files: one per namespace named after the fully qualified namespace, or one named "
            "after the diagram), C19_realised_cs + C19_realised_rendering_cs (every operation of a realised interface is a method of the realising "
            "class, with a body, 'visibility override ...' when drawn abstract and not static; C19_own_rendering_cs for own operations: interfaces "
            "end them with ';'), C19_once_cs (the C# reading of declared-iff-defined: the three visibility sections of the type together hold exactly "
            "what one call with visibility 'all' emits, each as often; acyclic closed diagrams) and C19_unique_cs (each exactly once under once_hyp on "
            "the C# view), C19_namespace_balanced_cs (the C# namespace functions are statement for statement the C++ ones; every C# template wraps its "
            "type between the two tags), C19_languages_source_shape (branch conditions, calls, signature, DeclareFunction / ParameterString, template "
            "layouts, project-file block of both back ends pinned). From the project file: C19_adaptor_cs_roundtrip / C19_files_cs_from_diagram / "
            "C19_once_cs_from_diagram / C19_realised_cs_from_diagram (cdiagram_cs_of D = the objects read, rendered by the model of LanguageCsharp's type / name "
            "helpers, tied to the real ones). Ties: real LanguageCsharp.GetOperationPerVisibility vs ops_of_cs / cs_line line by "
            "line on every class and visibility, generated C# file set vs files_all and vs expected_files_cs. Independent oracle for C#: a tokenizer "
            "over the generated .cs files (braces balanced, namespace chain opened / closed and named, 'public class|interface|enum|struct Name', every "
            "drawn operation and every operation of a realised interface present under its name as often as the drawn diagram says, bodies for class "
            "methods and realised methods, ';' for an interface's own, no method written twice unless once_hyp fails).",
    "adaptor": "INPUT ADAPTOR (project file -> class diagram objects), modelled in Model/UmlBlob.v (vppfs.ParseBLOB_Recursive / Get_ValuesFromOutside, "
               "vppclassdiagram's Class / ClassOperation / ClassAttribute / Package / Inheritance / Association parsing, namespaces from the package "
               "chain, ExtractClassDiagram, LanguageCPP's type / name / default rendering helpers). THEOREMS: C19_adaptor_roundtrip -- for EVERY semantic "
               "class diagram D (Model/UmlSem.v: classes with stereotypes, abstract flag, documentation, operations with visibility / return type / "
               "modifier / abstract / query / static and parameters with basic or referenced type, direction, modifier, default, multiplicity, "
               "attributes, enumeration literals; packages with member paths; generalisations / realisations; ASSOCIATIONS with both ends (class path, "
               "multiplicity or none, aggregation kind, visibility code or the static code, getter / setter / read-only flags; the ends in either order: "
               "rassoc_of specifies the order-dependent defaults of Association.ParseAssociation); values (defaults, initial values, multiplicities, "
               "modifiers, documentation) may hold ','; documentation may be ANY quoted text (line breaks, apostrophes, parentheses: the specification "
               "then states what mass_replace leaves of it); other shapes; referenced elements; every element with its own line-break style and, between "
               "its properties, any number of INERT properties exactly as written (scalars, reference lists, owned elements the reader ignores such as "
               "model views and qualifiers, free text such as an HTML documentation); every "
               "element's properties in ANY order between any noise properties) in the domain sdiagram_ok (extracted, evaluated on every generated "
               "diagram): adaptor (encode_project D) = Some (cdiagram_of D), object for object (C19_adaptor_roundtrip_objects: load = rdiagram_of D: "
               "names, namespaces from the package chain, stereotype flags, visibility, parameters, realisation vs generalisation, the shapes of the "
               "selected diagram), and from ANY project hosting D's rows (C19_adaptor_roundtrip_hosted; C19_adaptor_others_no_influence). "
               "C19_files_from_diagram / C19_decl_def_from_diagram / C19_realised_from_diagram: the generator theorems from D through the project file. "
               "Underneath: C19_adaptor_text_transparent (ParseBLOB_Recursive o str(bytes) o print = the dictionary a structured blob stands for: "
               "stack machine WITH A STRING STATE + field segments with the quote-aware split + mass_replace; since the K-C19-6 repair free text "
               "with braces, ';', '=', ':' and apostrophes inside quoted values -- HTML / CSS documentation -- is inside the domain; "
               "C19_adaptor_brace_refuted: a brace in an unquoted value is not), C19_adaptor_structural (for every structured class diagram in the "
               "text domain loading = loading with the parser replaced by the structural reading), C19_adaptor_visibilities (wf_vis for everything "
               "read from a project file), C19_adaptor_calibration (the structured writer reproduces every row of both shipped class diagrams byte "
               "for byte; ALL 39 and 49 shipped blobs lie in the text domain -- 38 and 40 before the repair; one of them, an association whose NAME "
               "holds a colon, through C19_adaptor_text_transparent_colon (row names with colons: the header id:name:type is cut at every colon, "
               "top_pv_c states the resulting entries); on all of them the reader model returns the stated dictionary), "
               "C19_adaptor_semantic_calibration (THE two shipped class diagrams as semantic diagrams, Gen/UmlSemShipped.v regenerated from blob.xml: "
               "157 / 357 meaningful and 461 / 999 inert properties; encode_project reproduces the shipped rows BYTE FOR BYTE and BOTH lie in "
               "sdiagram_ok: the read-back theorem speaks about the shipped project itself), C19_adaptor_source_shape (literal pins, SplitOutsideQuotes "
               "included), C19_adaptor_operator_names (operator<, operator(), operator==, a:b are read back under their names: K-C19-7 repaired; element NAMES are any printable text without double quote, backslash, apostrophe and ';'). WRITER ASSUMPTION: Model/UmlWriter.v + Model/UmlSem.v tree_of (how Visual "
               "Paradigm lays a class diagram out), calibrated on the one shipped project at the structured-blob level. OUTSIDE THE SEMANTIC DOMAIN: names of classes / packages / referenced elements with ':' or ',' (they are joined into qualified type "
               "names; member and association names may hold = < > ( ) , : since the repair of K-C19-7); values with the characters mass_replace still "
               "deletes (K-C19-10); inert properties whose keys collide with a key the reader looks up in that kind of "
               "element (they would not be inert); rows whose bytes hold an apostrophe but no double quote. TIES: the semantic diagram built from an object graph means that object graph (harness twin vs "
               "rdiagram_of); the REAL adaptor on the SHIPPED file = the extracted rdiagram_of of the shipped semantic diagrams, and the extracted "
               "encode_project of them = the shipped rows; the extracted "
               "writer encode_project writes project files that the REAL ExtractClassDiagram reads, compared field for field with the extracted "
               "rdiagram_of inside the domain; the Coq printer vs its Python twin tree by tree; parser / rendering helpers function level; damaged "
               "projects with agreeing exceptions; a share of the cases generated through Generate.UML from a synthesised project file.",
    "note": "Trusted: Coq kernel, extraction, translators uml.py / umlblob.py / vpp.py, sqlite3, CPython str methods and bytes.__repr__ (tied by "
            "execution). The Visual Paradigm writer for class diagrams is an ASSUMPTION calibrated on the one shipped project. Associations, "
            "like everything else of a class diagram, are read back by C19_adaptor_roundtrip. K-C19-6 (free text in quoted values was structure) is "
            "repaired (d35a215; corpus/C19/free_text_injection.json reproduced it and passes now). 'Accepted by a C++ compiler' is an observation (g++ 14 -fsyntax-only), not a theorem. "
            "C#: modelled and proved like C++ (file set, realised operations, every operation once, namespace wrap), observed with a tokenizer; "
            "NOT checked: that a C# compiler accepts the output (none available) -- e.g. whether 'override' on a method implementing an INTERFACE "
            "member is accepted is outside what is proved or observed. K-C19-8 (every 'virtual' in a realised C# method became 'override', also "
            "inside names) is repaired (ad20a65; corpus/C19/cs_virtual_word.json); K-C19-9 (A::B.csproj) is known. K-C19-7 (names lost = < > ; ( ) and were cut at colons) is repaired (b2960c5; corpus/C19/operator_names.json); what remains of mass_replace concerns values: K-C19-10. K-C19-11 (a class without package dropped its includes) and K-C19-12 (include path of a class whose name occurs in its package's name) "
            "are repaired (8533b37, d5327f0; corpus cases). 'Accepted by a C++ compiler' stays an observation (g++), now backed by the include theorems; NOT modelled: "
            "the includes of attribute TYPES that are templates or typedefs, <string> / <cstdint> (the generator never emits them), user includes. Known findings K-C19-*.",
}
MANIFEST["text"] += " " + MANIFEST.pop("adaptor")
RULE = ("the two shipped class diagrams and mutants of them (1-4 random edits of the parsed object graph: rename/remove/retype classes, "
        "rename packages, rename/remove/retype operations, parameters, attributes, relationships, visibility, copying a realised operation "
        "into the class), namespace folders on/off, export macro empty/'DLL_API', C++ and C# back ends; a mutant is non-trivial when the "
        "generator produced at least one class with operations; distinct = distinct (diagram, edits, options)")
ASSUMPTIONS = [
    "operation visibilities are public/protected/private: a theorem for every diagram read from a project file (C19_adaptor_visibilities); a 'package' operation exists only in in-memory mutants (K-C19-4)",
    "adaptor (sdiagram_ok): ids and the names of classes / packages / referenced elements are plain text (printable ASCII without = < > ; \\ \" ' ( ) , { } and without leading/trailing blanks), names of operations / attributes / parameters / literals / associations any printable text without \" \\ ' ; { }, values likewise but ',' allowed unless nothing else is left (documentation: any quoted text without '=' and '<'), no ':' in ids and element names (association names may hold them), inert properties (any scalar / reference list / owned elements / free text in the text domain) whose keys are none of the keys the reader looks up in that kind of element and whose owned elements are not of a member type, line breaks CR LF or LF per element, no property key written twice, type names unchanged by CleanModifiersFromType, referenced ids known, every element drawn once, a class on at most one package path; association ends attached to known paths, ids / names of associations and ends not containing the reader's probe words (documentation_plain / readOnly)",
    "adaptor (text domain wf_node / nbq_node / quote_ok): free text only inside closed double-quoted values; no brace in ids, names, types, keys, reference ids and unquoted values; no ':' in ids; names: any printable text without \" \\ ' ;",
    "no realisation cycle among pure virtual interfaces (C19_cycle_refuted: RecursionError otherwise)",
    "files_hyp: class names non-empty without '.' and '/', namespace not ending in a separator, distinct output paths (two classes of one name in different packages collide when namespace folders are off: K-C19-5 is exactly distinct_paths = false)",
    "multiplicity 1 of a definition: once_hyp (no signature twice in the class, none twice among the operations of the interfaces reached, every path counted) -- evaluated per class on every input; where it fails an operation reached through two realisation paths is emitted twice (K-C19-1b); an operation both declared in the class and realised is emitted once since the fix (K-C19-1)",
    "C# file set (files_hyp_cs): as files_hyp, no namespace starting with '/', project file paths distinct from the .cs paths",
    "no inheritance entry points to a class outside the diagram (closed; KeyError otherwise)",
]
TRUSTED = ["Coq 8.16.1 kernel (coqc; coqchk in the thorough tier)", "axioms: none", "translator/uml.py, translator/umlblob.py", "extraction: ExtrOcamlBasic + ExtrOcamlNativeString",
           "assumed, not kojen code: the Visual Paradigm writer for class diagrams (Model/UmlWriter.v structured blobs + Model/UmlSem.v tree_of), calibrated on the shipped project at the structured-blob level",
           "modelled, not verified: sqlite3 row order / PRIMARY KEY, CPython str methods, bytes.__repr__, int() on multiplicities (ASCII digits, sign, blanks only)",
           "harness/umlblob.py: Python twin of the writer (objects -> structured blobs -> bytes) used to synthesise project files; its output is read by the real adaptor and by the model",
           "harness tokenizer for generated .h/.cpp (line based)", "g++ 14 for 'accepted by a C++ compiler'"]
ALLOWED_AXIOMS = []

FUEL = 40


def code_lines(text):
    """lines of GetOperationPerVisibility's result that are declarations / definition heads (comments, tags and braces dropped)"""
    text = re.sub(r"/\*\*.*?\*/\n", "", text, flags=re.S)
    return [l for l in text.split("\n") if l.strip() and not l.startswith("///") and l not in ("{", "}") and not l.startswith("    ///")]


def function_level(ctx, cd, label):
    """real LanguageCPP.GetOperationPerVisibility vs Uml.ops_of on every class, both sides, every visibility"""
    lang = LanguageCPP.LanguageCPP()
    try:
        D = us.abstract(cd, lang)
    except Exception as e:  # noqa
        ctx.count("adaptor_rejected:%s" % type(e).__name__)
        return None
    for cid, c in cd.classes.items():
        for is_impl, vis in ((False, "public"), (False, "protected"), (False, "private"), (True, "all")):
            try:
                real = code_lines(lang.GetOperationPerVisibility(c, is_impl, vis))
            except RecursionError:
                real = None
            except KeyError:
                real = None
            # fuel = number of classes: what C19_decl_def_acyclic proves sufficient (a cyclic diagram exhausts any fuel)
            m = ctx.km.call("uml_ops", str(len(cd.classes)), D, vis, cid)
            model = [(e[1] if is_impl else e[0]).decode("utf-8") for e in m[0]] if m else None
            if real != model:
                ctx.tie_broken("correspondence GetOperationPerVisibility vs Uml.ops_of (%s, %s, %s)" % (c.NAME, "impl" if is_impl else "decl", vis),
                               {"diagram": label, "class": c.NAME, "real": real, "model": model})
            ctx.count("function_level_calls")
    return D


def expected_paths(cd, nsf, lang="cpp"):
    """independent reading of the property's first clause -> {path: class name}, plus collisions"""
    exp, clash = {}, []
    for c in cd.classes.values():
        if c.AUTOGEN and not (c.IS_ENUM or c.IS_STRUCT):
            continue
        if c.IS_ENUM and c.IS_STRUCT:
            continue
        folder = "/".join(c.NAMESPACE.split("::")) + "/" if (nsf and c.NAMESPACE) else ""
        exts = [".cs"] if lang == "cs" else ([".h", ".cpp"] if not (c.IS_ENUM or c.IS_STRUCT or c.PURE_VIRTUAL_INTERFACE) else [".h"])
        for e in exts:
            p = folder + c.NAME + e
            if p in exp:
                clash.append((p, exp[p].NAMESPACE == c.NAMESPACE))
            exp[p] = c
    return exp, clash


def observe(ctx, cd, label, nsf, dclspc, edits, compile_all, touch=(), project=None):
    """generate for real, then check the property on the generated tree with model-free oracles; returns list of failures"""
    fails = []

    def fail(what, key, **kw):
        d = {"diagram": label, "edits": edits, "nsf": nsf, "dclspc": dclspc, "detail": what, "finding_key": key,
             "finding_class": "uml:" + key.split(":")[-1] if key.split(":")[-1] in ("realisation-cycle", "path-collision", "file-set", "namespace") else "uml:other"}
        d.update(kw)
        fails.append(d)
    lang = LanguageCPP.LanguageCPP()
    D = None
    try:
        D = us.abstract(cd, lang)
    except Exception:  # noqa
        pass
    acyclic = hyp = None
    if ctx.km is not None and D is not None:
        acyclic = ctx.km.call("uml_acyclic", D) == b"1" and ctx.km.call("uml_closed", D) == b"1"
        hyp = [x == b"1" for x in ctx.km.call("uml_files_hyp", nsf, D)]      # [files_hyp, all path_ok, distinct_paths]
        ctx.count("acyclic=%s files_hyp=%s" % (acyclic, hyp[0]))
    with kj.scratch("kjv-uml-") as out:
        try:
            if project is not None:      # the REAL public entry point on a synthesised project file
                from kojen import Generate
                with kj.quiet():
                    ret = Generate.UML(out, project[0], project[1].decode("utf-8"), dclspc, "a", "g", "b", nsf, "")
                ctx.count("generated_through_Generate.UML_from_a_project_file")
            else:
                ret = us.generate(cd, out, "cpp", nsf, dclspc)
        except RecursionError:
            if acyclic:
                fail("RecursionError although the diagram is acyclic and closed", "uml:%s:acyclic-no-return" % label, finding_class="uml:acyclic-no-return")
            else:
                fail("RecursionError in GetOperationPerVisibility", "uml:%s:realisation-cycle" % label)
            return fails, False
        except Exception as e:  # noqa
            fail("generator crashed: %s: %s" % (type(e).__name__, e), "uml:%s:crash:%s" % (label, type(e).__name__))
            return fails, False
        tree = {k: v.decode("utf-8", "replace") for k, v in kj.read_tree(out).items()}
        exp, clash = expected_paths(cd, nsf)
        if any(same for _p, same in clash):
            ctx.count("outside_domain:two-elements-of-one-name-in-one-namespace")
            return [], False
        clash = [p for p, _same in clash]
        if hyp is not None and hyp[1] and (hyp[2] == bool(clash)):
            ctx.tie_broken("distinct_paths (Spec/UmlSpec.v) disagrees with the harness's reading of a path collision",
                           {"diagram": label, "edits": edits, "nsf": nsf, "distinct_paths": hyp[2], "collisions": clash})
        if hyp is not None and hyp[0]:
            want = sorted(f[0].decode("utf-8") for f in ctx.km.call("uml_expected_files", nsf, D))
            if want != sorted(tree):
                fail("files_hyp holds but the generated files differ from Spec.expected_files: %s vs %s" % (sorted(tree), want),
                     "uml:%s:file-set" % label)
        for p in clash:
            fail("two elements of different namespaces are generated into the same file %s" % p, "uml:%s:path-collision" % label, file=p)
        missing = sorted(set(exp) - set(tree))
        extra = sorted(set(tree) - set(exp))
        if missing or extra or sorted(os.path.normpath(r) for r in ret) != sorted(tree):
            fail("file set differs: missing %s unexpected %s" % (missing, extra), "uml:%s:file-set" % label)
        if ctx.km is not None and D is not None:
            mf = sorted(f[0].decode("utf-8") for f in ctx.km.call("uml_files", "cpp", nsf, D))
            if mf != sorted(tree):
                ctx.tie_broken("correspondence generated file set vs Uml.files_of", {"diagram": label, "edits": edits, "real": sorted(tree), "model": mf})
        nontrivial = False
        incl_model = function_level_incl(ctx, cd, label, nsf) if ctx.km is not None else {}
        for path, c in exp.items():
            if path not in tree or path in clash:
                continue
            text = tree[path]
            base = os.path.basename(path)
            # E level: the #include lines and the forward-declaration block of the real file are the model's
            m = incl_model.get(c.ID)
            if m is not None and not (c.IS_ENUM and not c.IS_STRUCT):
                head = text.split("/// {{{USER_HEADER_INCLUDES}}}")[0]
                got_inc = [l.strip() for l in head.split("\n") if l.strip().startswith("#include")]
                if path.endswith(".h"):
                    want_inc = m[2]
                    blk = re.search(r"// Begin Forward declarations\n.*?// End Forward declarations", text, flags=re.S)
                    got_fwd = blk.group(0).split("\n") if blk else []
                    if want_inc is not None and (got_inc != want_inc or got_fwd != m[4]):
                        ctx.tie_broken("correspondence #include / forward-declaration lines of the generated header vs UmlIncl",
                                       {"diagram": label, "file": path, "real": [got_inc, got_fwd], "model": [want_inc, m[4]]})
                    ctx.count("header_include_blocks_compared")
                elif path.endswith(".cpp"):
                    if got_inc != ['#include "%s.h"' % c.NAME] + m[3]:
                        ctx.tie_broken("correspondence #include lines of the generated source file vs UmlIncl",
                                       {"diagram": label, "file": path, "real": got_inc, "model": m[3]})
                    ctx.count("source_include_blocks_compared")
            # independent reading: every class of the diagram that the header uses by value is included under the path of its own header
            if path.endswith(".h") and not c.IS_ENUM:
                for fq in by_value_types(cd, c):
                    ks = [k for k in cd.classes.values() if (k.NAMESPACE + "::" + k.NAME if k.NAMESPACE else k.NAME) == fq]
                    for k in ks[:1]:
                        target = [p2 for p2, x in exp.items() if x is k and p2.endswith(".h")]
                        if not target:
                            continue
                        incs = re.findall(r'#include "([^"]+)"', text)
                        here = os.path.dirname(path)
                        resolved = {os.path.normpath(os.path.join(here, i)) for i in incs} | {os.path.normpath(i) for i in incs}
                        if os.path.normpath(target[0]) not in resolved:
                            fail("%s uses %s by value but does not include %s (includes: %s)" % (path, fq, target[0], incs),
                                 "uml:%s:%s:missing-include" % (label, base), file=path, finding_class="uml:missing-include")
            # namespace wrap
            parts = c.NAMESPACE.split("::")
            opened = re.findall(r"namespace\s+([\w]*)\s*\{", us.strip_comments(text))
            closers = [l for l in text.split("\n") if "// end namespace" in l]
            if opened[-len(parts):] != parts or len(closers) != 1 or closers[0].split("//")[0].count("}") != len(parts):
                fail("%s is not wrapped in namespace %s" % (path, c.NAMESPACE), "uml:%s:%s:namespace" % (label, base), file=path)
            if path.endswith(".h") and path[:-2] + ".cpp" in tree:
                decls = [d for d in us.declarations(text)]
                defs = us.definitions(tree[path[:-2] + ".cpp"])
                nontrivial = nontrivial or len(decls) > 1
                dcount = collections.Counter((d["name"], d["params"], d["const"]) for d in decls if not d["pure"])
                fcount = collections.Counter((d["name"], d["params"], d["const"]) for d in defs)
                once = (ctx.km is not None and D is not None and ctx.km.call("uml_once_hyp", "cpp", D, c.ID) == b"1")
                ctx.count("once_hyp=%s" % once)
                for k, n in dcount.items():
                    if once and n > 1 and fcount.get(k, 0) == n:
                        # C19_decl_def_unique: under once_hyp every operation is declared and defined exactly once
                        fail("%s: once_hyp holds but operation %s%r is declared and defined %d times" % (c.NAME, k[0], k[1], n),
                             "uml:%s:%s:%s:once" % (label, c.NAME, k[0]), file=path, finding_class="uml:twice-under-once-hyp")
                        continue
                    if fcount.get(k, 0) != n or n != 1:
                        fail("%s: operation %s%r declared %d time(s), defined %d time(s)" % (c.NAME, k[0], k[1], n, fcount.get(k, 0)),
                             "uml:%s:%s:%s" % (label, c.NAME, k[0]), file=path,
                             finding_class=("uml:declared-and-realised-emitted-twice"      # repaired (K-C19-1): must not come back
                                            if sum(1 for o in c.OPERATIONS if o.NAME.strip() == k[0] and len(o.PARAMETERS) == len(k[1])) == 1
                                            else "uml:operation-emitted-twice") if (n > 1 and fcount.get(k, 0) == n)
                             else "uml:declaration-definition-mismatch")
                for k, n in fcount.items():
                    if k not in dcount:
                        fail("%s: operation %s%r defined but not declared" % (c.NAME, k[0], k[1]), "uml:%s:%s:%s" % (label, c.NAME, k[0]), file=path,
                             finding_class="uml:definition-without-declaration")
        # realised interfaces are overridden
        for inh in cd.inheritence.values():
            if not inh.IS_REALIZATION or inh.CLASS_TO_ID not in cd.classes or inh.CLASS_FROM_ID not in cd.classes:
                continue
            c, i = cd.classes[inh.CLASS_TO_ID], cd.classes[inh.CLASS_FROM_ID]
            if not i.PURE_VIRTUAL_INTERFACE or c.AUTOGEN or c.IS_ENUM or c.IS_STRUCT:
                continue
            hp = [p for p, x in exp.items() if x is c and p.endswith(".h")]
            if not hp or hp[0] not in tree:
                continue
            # overridden = declared in the realising class's header (marked override, or declared by the class itself)
            decls_h = us.declarations(tree[hp[0]])
            have = collections.Counter((d["name"], len(d["params"])) for d in decls_h)
            have_c = collections.Counter((d["name"], len(d["params"]), bool(d["const"])) for d in decls_h)
            # the realised interface and every pure virtual interface it inherits from, directly or not (an interface that adds nothing
            # of its own still hands down what its parents demand)
            chain, todo_i, seen_i = [], [inh.CLASS_FROM_ID], set()
            while todo_i:
                x = todo_i.pop(0)
                if x in seen_i or x not in cd.classes or not cd.classes[x].PURE_VIRTUAL_INTERFACE:
                    continue
                seen_i.add(x)
                chain.append(cd.classes[x])
                todo_i += [y.CLASS_FROM_ID for y in cd.inheritence.values() if y.CLASS_TO_ID == x]
            for j in chain:
                for op in j.OPERATIONS:
                    if op.VISIBILITY not in ("public", "protected", "private"):
                        continue
                    if not have.get((op.NAME, len(op.PARAMETERS))) or not have_c.get((op.NAME, len(op.PARAMETERS), bool(op.IS_CONST))):
                        # a const operation is only overridden by a const one (a non-const namesake is another function)
                        fail("%s realises %s%s but does not override %s%s" % (c.NAME, i.NAME, "" if j is i else " (which inherits %s)" % j.NAME, op.NAME,
                                                                              " const" if op.IS_CONST else ""),
                             "uml:%s:%s:%s" % (label, c.NAME, op.NAME), finding_class="uml:realised-operation-not-overridden")
        # accepted by a C++ compiler
        todo = sorted(tree) if compile_all else sorted(tree)[:: max(1, len(tree) // 6)]
        # the files of the classes an edit names are always compiled
        named = set(touch) | {x for e in edits for x in str(e).split(":")[1:]}
        todo = sorted(set(todo) | {f for f in tree if os.path.splitext(os.path.basename(f))[0] in named})
        for rel in todo:
            ok, msg, culprit, cause = us.syntax_check(out, rel, dclspc)
            ctx.count("gxx_ok" if ok else "gxx_rejected")
            if not ok and cause == "drawn-constructor-cannot-initialise-const-member":
                # a constructor DRAWN in a class with const members has no place for their initialisers: the diagram, not the generator
                ctx.count("outside_domain:drawn-constructor-in-class-with-const-members")
                continue
            if not ok and cause == "other" and edits and not all(str(e).startswith("probe:") for e in edits):
                # a mutant may be semantically invalid C++ by construction (a removed class that is still used, an enum that
                # is inherited from, a header of an element marked as generated elsewhere): only recognised generator faults count
                ctx.count("mutant_rejected_for_other_reason")
                continue
            if not ok:
                fail("g++ rejects %s (first error in %s: %s): %s" % (rel, culprit, cause, " | ".join(l for l in msg.split("\n") if "error" in l)[:500]),
                     "uml:%s:%s:compile" % (label, culprit), file=rel, finding_class="uml-compile:" + cause)
    return fails, nontrivial


def real_includes(cd, c, nsf):
    """what the real functions give for one class: (not forward declarable, forward declarable, header include lines | None, source include
    lines, forward declaration lines); None / 'KeyError' / 'RecursionError' where the real code raises"""
    lang = LanguageCPP.LanguageCPP()

    def lines(t):
        return [x for x in t.split("\n") if x != ""]
    try:
        hdr = lines(lang.GetNotForwardDeclarableHeaderIncludes(c, nsf, True, True))
    except (KeyError, RecursionError):
        hdr = None
    return [list(c.GetNotForwardDeclarableNonPrimitiveTypesLinkedToThis()), list(c.GetForwardDeclarableNonPrimitiveTypesLinkedToThis()), hdr,
            lines(lang.GetForwardDeclarableHeaderIncludes(c, nsf, True)), lines(lang.GetForwardDeclarations(c))]


def function_level_incl(ctx, cd, label, nsf):
    """real include / forward-declaration functions (vppclassdiagram.Class, LanguageCPP, ClassDiagram.GetNamespaceDependencies) vs
    Model/UmlIncl.v on every class; returns {class id: model value} for the E-level comparison"""
    I = us.abstract_incl(cd)
    res = {}
    for cid, c in cd.classes.items():
        real = real_includes(cd, c, nsf)
        m = ctx.km.call("incl_all", str(len(cd.classes)), nsf, I, cid)
        model = [[x.decode("utf-8") for x in m[0]], [x.decode("utf-8") for x in m[1]], [x.decode("utf-8") for x in m[2][0]] if m[2] else None,
                 [x.decode("utf-8") for x in m[3]], [x.decode("utf-8") for x in m[4]]]
        if real != model:
            k = next(i for i in range(5) if real[i] != model[i])
            ctx.tie_broken("correspondence include / forward-declaration functions vs UmlIncl (%s, part %d)" % (c.NAME, k),
                           {"diagram": label, "class": c.NAME, "nsf": nsf, "real": real[k], "model": model[k]})
        res[cid] = model
        ctx.count("function_level_calls_incl")
    real_ns = [[k, list(v)] for k, v in cd.GetNamespaceDependencies().items()]
    model_ns = [[x[0].decode("utf-8"), [y.decode("utf-8") for y in x[1]]] for x in ctx.km.call("incl_nsdeps", I)]
    if real_ns != model_ns:
        ctx.tie_broken("correspondence ClassDiagram.GetNamespaceDependencies vs UmlIncl.namespace_deps", {"diagram": label, "real": real_ns, "model": model_ns})
    return res


def by_value_types(cd, c):
    """independent reading: the fully qualified types the header of c needs complete: base classes, value members, value parameters and
    returns, composition targets"""
    def ptr(m):
        return "*" in m or "&" in m
    out = [i.CLASS_FROM for i in cd.inheritence.values() if i.CLASS_TO_ID == c.ID]
    out += [a.TYPE for a in c.ATTRIBUTES if not ptr(a.TYPE_MODIFIER)]
    for o in c.OPERATIONS:
        out += [p["type"] for p in o.PARAMETERS if not ptr(p["modifier"])]
        if not ptr(o.RETURN_TYPE_MODIFIER):
            out.append(o.RETURN_TYPE)
    out += [a.CLASS_TO for a in cd.associations.values() if a.CLASS_FROM_ID == c.ID and a.TYPE == "Composition"]
    return sorted(set(out))


def function_level_cs(ctx, cd, label):
    """real LanguageCsharp.GetOperationPerVisibility vs UmlCs.ops_of_cs on every class, every visibility (the is_impl argument is ignored
    by the C# back end); returns the abstract diagram as LanguageCsharp renders it"""
    lang = LanguageCsharp.LanguageCsharp()
    try:
        D = us.abstract_cs(cd, lang)
    except Exception as e:  # noqa
        ctx.count("adaptor_rejected_cs:%s" % type(e).__name__)
        return None
    for cid, c in cd.classes.items():
        for vis in ("public", "protected", "private", "all"):
            try:
                real = code_lines(lang.GetOperationPerVisibility(c, vis == "all", vis))
            except (RecursionError, KeyError):
                real = None
            m = ctx.km.call("uml_ops_cs", str(len(cd.classes)), D, vis, cid)
            model = [e[0].decode("utf-8") for e in m[0]] if m else None
            if real != model:
                ctx.tie_broken("correspondence LanguageCsharp.GetOperationPerVisibility vs UmlCs.ops_of_cs / cs_line (%s, %s)" % (c.NAME, vis),
                               {"diagram": label, "class": c.NAME, "real": real, "model": model})
            ctx.count("function_level_calls_cs")
    return D


def cs_expected_members(cd, c):
    """independent reading: (name, number of parameters) -> how often the generated type must hold it: the operations drawn in the class,
    and those of every pure virtual interface it realises (directly, or handed down through other interfaces) that the class does not
    declare itself with the same name, parameter directions and types (read off the drawn properties, not the rendered text); an interface
    reached through two paths is counted once per path (K-C19-1b)"""
    def sig(o):
        def d(p):
            x = p["direction"].strip() if "direction" in p else ""
            return "ref" if x.find("inout") > -1 else ("out" if x.find("out") > -1 else "")
        return (o.NAME.strip(), tuple((d(p), p["type"].strip(), p["modifier"].strip(), p["multiplicity"].strip()) for p in o.PARAMETERS))
    own = collections.Counter((o.NAME.strip(), len(o.PARAMETERS)) for o in c.OPERATIONS if o.VISIBILITY.lower().strip() in ("public", "protected", "private"))
    own_sigs = {sig(o) for o in c.OPERATIONS}
    realised = collections.Counter()

    def walk(x, realising, seen):
        for inh in cd.inheritence.values():
            if inh.CLASS_TO_ID.find(x.ID) > -1 and (inh.IS_REALIZATION or realising) and inh.CLASS_FROM_ID in cd.classes:
                p = cd.classes[inh.CLASS_FROM_ID]
                if p.PURE_VIRTUAL_INTERFACE and p.ID not in seen:
                    walk(p, True, seen | {p.ID})
                    for o in p.OPERATIONS:
                        if o.VISIBILITY.lower().strip() in ("public", "protected", "private") and sig(o) not in own_sigs:
                            realised[(o.NAME.strip(), len(o.PARAMETERS), p.NAME)] += 1
    walk(c, False, {c.ID})
    return own, realised


def csharp(ctx, cd, label, nsf, edits):
    """the C# back end: function level tie, file set (model, specification, independent reading) and a tokenizer oracle over the
    generated .cs files (there is no C# compiler here): braces balanced, the namespace chain opened and closed, the element's keyword
    and name, every drawn operation emitted once, every operation of a realised interface emitted under its name with a body"""
    fails = []

    def fail(what, key, **kw):
        d = {"diagram": label, "edits": edits, "nsf": nsf, "lang": "cs", "detail": what, "finding_key": key, "finding_class": "uml_cs:other"}
        d.update(kw)
        fails.append(d)
    D = function_level_cs(ctx, cd, label) if ctx.km is not None else None
    with kj.scratch("kjv-umlcs-") as out:
        try:
            us.generate(cd, out, "cs", nsf, "")
        except Exception as e:  # noqa
            fail("C# generator crashed: %s: %s" % (type(e).__name__, e), "uml_cs:%s:crash:%s" % (label, type(e).__name__),
                 finding_class="uml:realisation-cycle" if isinstance(e, RecursionError) else "uml_cs:crash")
            return fails
        tree = {k: v.decode("utf-8", "replace") for k, v in kj.read_tree(out).items()}
        exp, clash = expected_paths(cd, nsf, "cs")
        if any(same for _p, same in clash):
            ctx.count("outside_domain:two-elements-of-one-name-in-one-namespace")
            return []
        # the project files: one per namespace in its folder when namespace folders are on, else one named after the diagram
        if nsf:
            nss = []
            for c in cd.classes.values():
                if c.NAMESPACE not in nss:
                    nss.append(c.NAMESPACE)
            projects = [("/".join(ns.split("::")) + "/" if ns else "") + ns + ".csproj" for ns in nss]
        else:
            projects = [(cd.name or "Project") + ".csproj"]
        have = set(tree)
        if have != set(exp) | set(projects) and not clash:
            fail("C# file set differs: missing %s unexpected %s" % (sorted((set(exp) | set(projects)) - have), sorted(have - set(exp) - set(projects))),
                 "uml_cs:%s:file-set" % label, finding_class="uml_cs:file-set")
        if D is not None:
            mf = sorted(f[0].decode("utf-8") for f in ctx.km.call("uml_files_all", "cs", nsf, cd.name, D))
            if mf != sorted(tree):
                ctx.tie_broken("correspondence generated C# file set vs UmlCs.files_all", {"diagram": label, "edits": edits, "real": sorted(tree), "model": mf})
            if ctx.km.call("uml_files_hyp_cs", nsf, cd.name, D) == b"1":
                want = sorted(f[0].decode("utf-8") for f in ctx.km.call("uml_expected_files_cs", nsf, cd.name, D))
                ctx.count("files_hyp_cs")
                if want != sorted(tree):
                    fail("files_hyp_cs holds but the generated C# files differ from Spec.expected_files_cs: %s vs %s" % (sorted(tree), want),
                         "uml_cs:%s:file-set" % label, finding_class="uml_cs:file-set")
        for path in sorted(tree):
            if ":" in path:
                fail("the generated file %s has a colon in its name (no file name on Windows)" % path, "uml_cs:%s:colon-in-file-name" % label,
                     finding_class="uml_cs:colon-in-file-name", file=path)
                break
        for path, c in exp.items():
            if path not in tree or path in [p for p, _s in clash]:
                continue
            base = os.path.basename(path)
            r = us.cs_scan(tree[path])
            ctx.count("cs_files_scanned")
            if not r["balanced"]:
                fail("%s: braces are not balanced" % path, "uml_cs:%s:%s:braces" % (label, base), finding_class="uml_cs:braces", file=path)
            parts = c.NAMESPACE.split("::")
            if r["namespaces"][-len(parts):] != parts or len(r["closers"]) != 1 or r["closers"][0] != (len(parts), c.NAMESPACE):
                fail("%s is not wrapped in namespace %s" % (path, c.NAMESPACE), "uml_cs:%s:%s:namespace" % (label, base), finding_class="uml:namespace", file=path)
            kw = "enum" if c.IS_ENUM else "struct" if c.IS_STRUCT else "interface" if c.PURE_VIRTUAL_INTERFACE else "class"
            if r["types"][:1] != [(kw, c.NAME)]:
                fail("%s does not declare 'public %s %s' (found %s)" % (path, kw, c.NAME, r["types"][:1]), "uml_cs:%s:%s:type" % (label, base),
                     finding_class="uml_cs:type-keyword", file=path)
            if kw not in ("class", "interface"):
                continue
            own, realised = cs_expected_members(cd, c)
            have_m = collections.Counter((m["name"], len(m["params"])) for m in r["members"])
            want_m = collections.Counter(own)
            for (nm, n, _owner), k in realised.items():
                want_m[(nm, n)] += k
            for key in sorted(set(have_m) | set(want_m)):
                h, w = have_m.get(key, 0), want_m.get(key, 0)
                if h == w:
                    continue
                if h < w:
                    fail("%s: operation %s/%d is emitted %d time(s), expected %d" % (c.NAME, key[0], key[1], h, w), "uml_cs:%s:%s:%s" % (label, c.NAME, key[0]),
                         finding_class="uml_cs:operation-missing" if (key in own or not any(k2[:2] == key for k2 in realised)) else "uml:realised-operation-not-overridden",
                         file=path)
                else:
                    fail("%s: operation %s/%d is emitted %d time(s), expected %d" % (c.NAME, key[0], key[1], h, w), "uml_cs:%s:%s:%s" % (label, c.NAME, key[0]),
                         finding_class="uml_cs:operation-unexpected", file=path)
            # the same method (name and parameter types as written) twice in one type: C# rejects it
            written = collections.Counter((m["name"], tuple(" ".join(x.split()[:-1]) for x in m["params"])) for m in r["members"])
            once = D is not None and ctx.km.call("uml_once_hyp", "cs", D, c.ID) == b"1"
            ctx.count("once_hyp_cs=%s" % once)
            for key, k in sorted(written.items()):
                if k > 1 and once:
                    fail("%s: once_hyp holds (C19_unique_cs) but method %s(%s) is emitted %d times" % (c.NAME, key[0], ", ".join(key[1]), k),
                         "uml_cs:%s:%s:%s:once" % (label, c.NAME, key[0]), finding_class="uml:twice-under-once-hyp", file=path)
                elif k > 1:
                    fail("%s: method %s(%s) is emitted %d times" % (c.NAME, key[0], ", ".join(key[1]), k), "uml_cs:%s:%s:%s" % (label, c.NAME, key[0]),
                         finding_class="uml:operation-emitted-twice", file=path)
            for m in r["members"]:
                is_realised = (m["name"], len(m["params"])) not in own or "override" in m["mods"]
                body_wanted = (kw == "class") or is_realised
                if m["body"] != body_wanted or m["semi"] == body_wanted:
                    fail("%s: %s %s a body" % (c.NAME, m["line"], "lacks" if body_wanted else "has"), "uml_cs:%s:%s:%s:body" % (label, c.NAME, m["name"]),
                         finding_class="uml_cs:body", file=path)
                if "virtual" in m["mods"] and is_realised:
                    fail("%s: realised operation still marked virtual: %s" % (c.NAME, m["line"]), "uml_cs:%s:%s:%s:virtual" % (label, c.NAME, m["name"]),
                         finding_class="uml_cs:realised-virtual", file=path)
    return fails


# ---------------------------------------------------------------- the input adaptor (Model/UmlBlob.v)

BLOB_ALPHA = ["{", "}", ";", "=", ":", "<", ">", "(", ")", ",", '"', '"', "'", " ", "\\", '\\"', "\\r\\n\\t", "\\t", "a", "Child", "child_0", "type", "name", "x1", "Operation",
              "b'", "stereotypes", "abstract", "visibility=71", "<a:b>", "\n", "é"]


def adaptor_ties(ctx):
    """function level: ParseBLOB_Recursive and the rendering helpers vs the model; the shipped diagrams row for row"""
    km, rng = ctx.km, ctx.rng
    db = ub.read_rows(vs.BLOB_XML)
    rows = db[2] if not ctx.quick else [m for j, m in enumerate(db[2]) if j % 4 == 0 or m[1] in (b"Class", b"Association", b"Package")]
    for m in rows:
        text = str(m[4])
        if ub.real_parse(text) != km.call("ub_parse", text.encode("utf-8")):
            ctx.tie_broken("correspondence vppfs.ParseBLOB_Recursive vs UmlBlob.parse_blob on a shipped blob", {"id": m[0]})
        ctx.count("adaptor_shipped_blobs_parsed")
    for i in range(ctx.budget(300, 6000)):
        text = "".join(rng.choice(BLOB_ALPHA) for _ in range(rng.randint(0, 24)))
        if ub.real_parse(text) != km.call("ub_parse", text.encode("utf-8")):
            ctx.tie_broken("correspondence vppfs.ParseBLOB_Recursive vs UmlBlob.parse_blob", {"text": text})
        ctx.count("adaptor_random_texts_parsed")
    lang = LanguageCPP.LanguageCPP()
    anycls = next(iter(us.load("TestClassDiagram").classes.values()))
    for i in range(ctx.budget(300, 6000)):
        ty = rng.choice(["int", "XA::CB", "", "bool"])
        mod = rng.choice(["", "*", "&", "[]", " [] ", "*&"])
        mu = rng.choice(["", "*", "0..1", "1", "0", "4", "2..5", "1..*", "0..*", "a..b", "x", " 7 ", "+3", "-2", "3..", "..", "10", "07", "1..4..9"])
        nm = rng.choice(["_p", "m_x", ""])
        df = rng.choice(["", "0", "nullptr, nullptr", " 1 "])
        real = [lang.GetTypeAndNameFromMultiplicityAndModifier(anycls, ty, mod, mu, nm), lang.GetDefaultFormatFromMultiplicityAndModifier(anycls, mod, mu, df),
                anycls.GetContainerMultiplicityType(mu)]
        model = [km.call("ub_type_and_name", ty, mod, mu, nm), km.call("ub_default", mod, mu, df), km.call("ub_container", mu)]
        if [[x.encode() for x in real[0]], real[1].encode(), real[2].encode()] != model:
            ctx.tie_broken("correspondence LanguageCPP rendering helpers vs UmlBlob.type_and_name / default_format / container_type",
                           {"type": ty, "modifier": mod, "multiplicity": mu, "name": nm, "default": df, "real": real, "model": model})
        ctx.count("adaptor_rendering_cases")
        real_cs = LanguageCsharp.LanguageCsharp().GetTypeAndNameFromMultiplicityAndModifier(anycls, ty, mod, mu, nm)
        if [x.encode() for x in real_cs] != km.call("ub_type_and_name_cs", ty, mod, mu, nm):
            ctx.tie_broken("correspondence LanguageCsharp.GetTypeAndNameFromMultiplicityAndModifier vs UmlBlob.type_and_name_cs",
                           {"type": ty, "modifier": mod, "multiplicity": mu, "name": nm, "real": real_cs})
    for name in (b"TestClassDiagram", b"ProtocolStack"):
        real, cd, err = ub.real_load(vs.BLOB_XML, name)
        if real != km.call("ub_load", vs.db_v(db), name):
            ctx.tie_broken("correspondence vppclassdiagram.ExtractClassDiagram vs UmlBlob.load_cdiagram on the shipped project", {"diagram": name, "error": err})
        elif cd is not None and km.call("ub_adaptor", vs.db_v(db), name) != [ub.abstract_view(cd)]:
            ctx.tie_broken("UmlBlob.adaptor differs from the abstract diagram the harness computes from kojen's objects", {"diagram": name})
        elif cd is not None and (km.call("ub_adaptor_incl", vs.db_v(db), name) or [None])[0] != ub.conv_bytes(us.abstract_incl(cd)):
            ctx.tie_broken("UmlIncl.adaptor_incl differs from the raw diagram the harness computes from kojen's objects", {"diagram": name})
        elif cd is not None and km.call("ub_adaptor_cs", vs.db_v(db), name) != [ub.abstract_view_cs(cd)]:
            ctx.tie_broken("UmlBlob.adaptor_cs differs from the abstract diagram the harness computes from kojen's objects with LanguageCsharp", {"diagram": name})
        ctx.case(("adaptor-shipped", name))
    # malformed projects: a synthesised project with damaged blobs; exceptions must agree too
    for i in range(ctx.budget(40, 600)):
        cd = us.load(us.DIAGRAMS[i % 2])
        r2 = random.Random(rng.randint(0, 1 << 30))
        try:
            us.mutate(r2, cd, r2.randint(0, 2))
            dbm, name = ub.project_rows(r2, cd)
        except Exception:  # noqa
            ctx.count("adaptor_malformed_skipped")
            continue
        ms = list(dbm[2])
        for _ in range(r2.randint(1, 3)):
            j = r2.randrange(len(ms))
            blob = bytearray(ms[j][4])
            k = r2.randrange(len(blob) + 1)
            act = r2.choice(["del", "ins", "cut", "swap"])
            if act == "del" and blob:
                del blob[min(k, len(blob) - 1)]
            elif act == "ins":
                blob[k:k] = r2.choice([b"{", b"}", b";", b"=", b":", b"<", b">", b"'", b'"', b"child=", b"\xc3\xa9"])
            elif act == "cut":
                blob = blob[:k]
            elif blob:
                blob[min(k, len(blob) - 1)] = r2.choice(b"{};=:<>")
            ms[j] = ms[j][:4] + (bytes(blob),)
        dbm = (dbm[0], dbm[1], ms)
        with kj.scratch("kjv-umlbad-") as d:
            path = ub.project_path(d)
            vs.write_project(path, dbm)
            try:
                real, _cd, err = ub.real_load(path, name)
            except ub.NotAString:
                real, err = [], "a dict where a text belongs"
        model = km.call("ub_load", vs.db_v(dbm), name)
        if real != model:
            ctx.tie_broken("correspondence ExtractClassDiagram vs UmlBlob.load_cdiagram on a damaged project", {"seed": i, "error": err, "model_returns": bool(model)})
        ctx.case(("adaptor-malformed", i), nontrivial=bool(real))
        ctx.count("adaptor_malformed_%s" % ("loads" if real else "rejected"))


def printer_tie(ctx):
    """tree by tree: the Coq printer UmlWriter.print_node (the assumed writer the theorems speak about) against its Python twin
    (translator/umlblob.print_node, used by harness/umlblob.py to synthesise project files) and against the stored bytes"""
    from translator import umlblob as tu
    db = ub.read_rows(vs.BLOB_XML)
    n = 0
    for m in db[2]:
        if ctx.quick and n >= 150:
            break
        try:
            tree = tu.read_blob(m[4])
        except Exception:  # noqa -- a blob outside the structured grammar (not needed by the class diagrams)
            ctx.count("printer_tie_unstructured_blob")
            continue
        n += 1
        coq = ctx.km.call("ub_print_node", ub.tree_v(tree))
        if coq != m[4] or tu.print_node(tree) != m[4]:
            ctx.tie_broken("UmlWriter.print_node / its Python twin do not reproduce a shipped blob", {"id": m[0]})
        ctx.count("printer_tie_shipped_blobs")
    for i in range(ctx.budget(6, 60)):
        cd = us.load(us.DIAGRAMS[i % 2])
        r2 = random.Random(ctx.rng.randint(0, 1 << 30))
        try:
            us.mutate(r2, cd, r2.randint(0, 3))
            ub.project_rows(r2, cd)
        except Exception:  # noqa
            continue
        for tree in ub.LAST_TREES:
            if ctx.km.call("ub_print_node", ub.tree_v(tree)) != tu.print_node(tree):
                ctx.tie_broken("correspondence UmlWriter.print_node vs the Python writer twin on a synthesised blob", {"id": tree[1]})
            ctx.count("printer_tie_synthesised_blobs")
    ctx.case(("printer-tie",))


def semantic_ties(ctx):
    """C19_adaptor_roundtrip observed on the real adaptor: semantic diagrams (built from the shipped object graphs and mutants of
    them) are written by the EXTRACTED Coq writer encode_project, stored as SQLite project files and read by the real
    vppclassdiagram.ExtractClassDiagram; inside the theorem's domain (sdiagram_ok evaluated by the extracted predicate) the objects
    must equal the extracted specification rdiagram_of, field for field, ids included"""
    km = ctx.km
    for i in range(ctx.budget(24, 300)):
        seed = ctx.rng.randint(0, 1 << 30)
        rng = random.Random(seed)
        cd = us.load(us.DIAGRAMS[i % 2])
        try:
            if i >= 2:
                us.mutate(rng, cd, rng.randint(1, 3))
            if i % 3 == 2:
                # member names with the characters the reader used to delete (K-C19-7 repaired): inside the domain now
                ops = [o for c in cd.classes.values() for o in c.OPERATIONS]
                if ops:
                    rng.choice(ops).NAME = rng.choice(["operator<", "operator()", "operator==", "Get:Set", "f, g", "a = b"])
            S, name = ub.semantic_value(rng, cd)
        except ub.Unencodable as e:
            ctx.count("semantic_unencodable:" + str(e).split(" ")[0])
            continue
        except Exception:  # noqa
            ctx.count("semantic_mutator_failed")
            continue
        ok = km.call("us_ok", S) == b"1"
        # the semantic twin: the diagram built from the (normalised) object graph MEANS that object graph (ids it invents aside)
        if ub.modid(ub.rdiagram_view(cd), cd) != ub.modid(km.call("us_rdiagram", S), cd):
            ctx.tie_broken("correspondence harness/umlblob.Semantic vs UmlSem.rdiagram_of (the semantic diagram built from an object graph means it)", {"seed": seed, "i": i})
        db = vs.db_of_v(km.call("us_encode", S))
        with kj.scratch("kjv-umlsem-") as d:
            path = ub.project_path(d)
            vs.write_project(path, db)
            try:
                real, _cd2, err = ub.real_load(path, name)
            except ub.NotAString:
                real, err = [], "a dict where a text belongs"
        want = [km.call("us_rdiagram", S)]
        ctx.case(("semantic", seed, i), nontrivial=ok and bool(real))
        ctx.count("semantic_in_domain" if ok else "semantic_outside_domain")
        if km.call("ub_load", vs.db_v(db), name) != real:
            ctx.tie_broken("correspondence ExtractClassDiagram vs UmlBlob.load_cdiagram on a project written by encode_project", {"seed": seed, "i": i})
        if ok and real != want:
            ctx.violation("a semantic class diagram in the domain of C19_adaptor_roundtrip is not read back as written: %s" % err,
                          {"finding_key": "uml-adaptor:semantic-roundtrip", "finding_class": "uml-adaptor", "semantic_seed": seed, "semantic_i": i,
                           "label": us.DIAGRAMS[i % 2], "mut_seed": 0, "nedits": 0})
        elif not ok:
            ctx.count("semantic_outside_domain_%s" % ("agrees" if real == want else "differs"))


def shipped_semantic_tie(ctx):
    """the two shipped class diagrams as SEMANTIC diagrams with every property the model has no meaning for kept as an inert property
    (translator.umlblob.semantic_real, the source of Gen/UmlSemShipped.v): the extracted domain predicate accepts them, the extracted
    writer encode_project reproduces the shipped rows byte for byte, and the REAL adaptor reading the SHIPPED project file returns
    exactly the extracted specification rdiagram_of -- C19_adaptor_roundtrip observed on the real data"""
    from translator import umlblob as tu
    km = ctx.km
    rows = {name: {r[0]: r for r in [x[1] for x in drawn] + refd} for (_d, name, drawn, refd) in tu.class_diagram_rows()}
    for name, S in tu.semantic_real():
        label = name.decode()
        ctx.case(("shipped-semantic", label), nontrivial=True)
        if km.call("us_ok", S) != b"1":
            ctx.tie_broken("the shipped class diagram %s is outside sdiagram_ok (Gen/UmlSemShipped.v calibration)" % label, {"why": repr(km.call("us_why", S))[:600]})
            continue
        db = vs.db_of_v(km.call("us_encode", S))
        bad = [m[0] for m in db[2] if m[0] not in rows[name] or rows[name][m[0]][4] != m[4]]
        if bad or len(db[2]) != len(rows[name]):
            ctx.tie_broken("encode_project of the semantic form of %s does not reproduce the shipped rows" % label, {"rows": repr(bad[:5])})
        real, _cd, err = ub.real_load(us.BLOB_XML, name)
        if real != [km.call("us_rdiagram", S)]:
            ctx.violation("the shipped class diagram %s (inside the domain of C19_adaptor_roundtrip) is not read as specified: %s" % (label, err),
                          {"finding_key": "uml-adaptor:shipped-semantic-roundtrip", "finding_class": "uml-adaptor", "label": label, "mut_seed": 0, "nedits": 0,
                           "shipped_semantic": True})
        ctx.count("shipped_semantic_in_domain")


SEPARATOR_NAMES = [b"operator<", b"operator()", b"operator==", b"operator=", b"a:b", b"f, g"]


def separator_probe(ctx):
    """K-C19-7 (repaired): the NAME of an operation in a project file is read as it is written between its quotes -- operator<,
    operator(), operator==, a name with a colon or a comma (C19_adaptor_operator_names); returns the failures"""
    fails = []
    for wanted in SEPARATOR_NAMES:
        cd = us.load("TestClassDiagram")
        target = next(c for c in cd.classes.values() if c.OPERATIONS and not c.PURE_VIRTUAL_INTERFACE)
        target.OPERATIONS[0].NAME = "operatorLT"
        try:
            db, name = ub.project_rows(random.Random(7), cd)
        except ub.Unencodable:
            return fails
        ms = [m[:4] + (m[4].replace(b'"operatorLT"', b'"' + wanted + b'"'),) for m in db[2]]
        with kj.scratch("kjv-umlsep-") as d:
            path = ub.project_path(d)
            vs.write_project(path, (db[0], db[1], ms))
            real, cd2, err = ub.real_load(path, name)
        if ctx.km is not None and real != ctx.km.call("ub_load", vs.db_v((db[0], db[1], ms)), name):
            ctx.tie_broken("correspondence ExtractClassDiagram vs UmlBlob.load_cdiagram (operation called %s)" % wanted.decode(), {"error": err})
        names = [o.NAME for c in (cd2.classes.values() if cd2 else []) for o in c.OPERATIONS]
        ctx.case(("adaptor-separator-probe", wanted))
        if wanted.decode() not in names:
            fails.append("an operation drawn as %s is read from the project file as %r (%s)" % (
                wanted.decode(), [n for n in names if n.startswith(wanted.decode()[:1])][:2], err))
    return fails


def value_probe(ctx):
    """what remains of the deletions of mass_replace (known finding K-C19-10): a default VALUE drawn as f(1) is read as f1"""
    cd = us.load("TestClassDiagram")
    target = next(c for c in cd.classes.values() if any(o.PARAMETERS for o in c.OPERATIONS) and not c.PURE_VIRTUAL_INTERFACE)
    op = next(o for o in target.OPERATIONS if o.PARAMETERS)
    op.PARAMETERS[0]["defaultvalue"] = "DEFAULTHERE"
    try:
        db, name = ub.project_rows(random.Random(13), cd)
    except ub.Unencodable:
        return []
    if not any(b'"DEFAULTHERE"' in m[4] for m in db[2]):
        return []
    ms = [m[:4] + (m[4].replace(b'"DEFAULTHERE"', b'"f(1)"'),) for m in db[2]]
    with kj.scratch("kjv-umlval-") as d:
        path = ub.project_path(d)
        vs.write_project(path, (db[0], db[1], ms))
        real, cd2, err = ub.real_load(path, name)
    if ctx.km is not None and real != ctx.km.call("ub_load", vs.db_v((db[0], db[1], ms)), name):
        ctx.tie_broken("correspondence ExtractClassDiagram vs UmlBlob.load_cdiagram (default value f(1))", {"error": err})
    ctx.case(("adaptor-value-probe",))
    vals = [p["defaultvalue"] for c in (cd2.classes.values() if cd2 else []) for o in c.OPERATIONS for p in o.PARAMETERS if p["defaultvalue"].startswith("f")]
    return [] if "f(1)" in vals else ["a default value drawn as f(1) is read from the project file as %r" % vals[:1]]


INJECTIONS = [b'note; abstract=T', b'note; stereotypes=<IF0000000000000>', b'css a { color: red } b {x:y:Operation}', b'a }; abstract=T; {']


def injection_probe(ctx):
    """K-C19-6 (repaired): free text in a quoted value (documentation) is data. Braces and `; key=` inside it must not change the structure
    read from the project: the same classes, operations, attributes, interface flags and realisations as with a harmless text."""
    cd = us.load("TestClassDiagram")
    target = next(c for c in cd.classes.values() if c.OPERATIONS and not c.PURE_VIRTUAL_INTERFACE)
    target.USER_COMMENTS = "INJECTHERE"
    try:
        db, name = ub.project_rows(random.Random(11), cd)
    except ub.Unencodable:
        return []
    if not any(b'"INJECTHERE"' in m[4] for m in db[2]):
        return []

    def shape(cd2):
        return sorted((c.NAME, bool(c.PURE_VIRTUAL_INTERFACE), sorted(o.NAME for o in c.OPERATIONS), sorted(a.NAME for a in c.ATTRIBUTES),
                       sorted(x.NAME for x in c.INNER_CLASSES) if hasattr(c, "INNER_CLASSES") else []) for c in cd2.classes.values())

    fails = []
    base = None
    for text in [b"note"] + INJECTIONS:
        ms = [m[:4] + (m[4].replace(b'"INJECTHERE"', b'"' + text + b'"'),) for m in db[2]]
        with kj.scratch("kjv-umlinj-") as d:
            path = ub.project_path(d)
            vs.write_project(path, (db[0], db[1], ms))
            real, cd2, err = ub.real_load(path, name)
        if ctx.km is not None and real != ctx.km.call("ub_load", vs.db_v((db[0], db[1], ms)), name):
            ctx.tie_broken("correspondence ExtractClassDiagram vs UmlBlob.load_cdiagram (free text %r in a quoted value)" % text, {"error": err})
        ctx.case(("adaptor-injection-probe", text))
        got = shape(cd2) if cd2 is not None else ("load failed", err)
        if base is None:
            base = got
        elif got != base:
            fails.append("documentation %r of class %s changes what is read from the project: %s" % (
                text.decode(), target.NAME, [x for x in got if x not in base][:2] if isinstance(got, list) else got))
    return fails


def adaptor_case(ctx, stack, cd, seed, meta=None):
    """write cd (normalised in place) as a project file through the assumed writer, read it back with the real adaptor and with
    the model; returns (path, diagram name, objects read back) or None when the object graph has no project-file form"""
    rng = random.Random(seed ^ 0x5EED)
    try:
        db, name = ub.project_rows(rng, cd)
    except ub.Unencodable as e:
        ctx.count("adaptor_unencodable:" + str(e).split(" ")[0])
        return None
    try:
        want = ub.modid(ub.rdiagram_view(cd), cd)
    except ub.NotAString:
        return None
    d = stack.enter_context(kj.scratch("kjv-umlproj-"))
    path = ub.project_path(d)
    vs.write_project(path, db)
    real, cd2, err = ub.real_load(path, name)
    model = ctx.km.call("ub_load", vs.db_v(db), name) if ctx.km is not None else real
    info = dict(meta or {}, via_project=seed, error=err)
    if real != model:
        ctx.tie_broken("correspondence ExtractClassDiagram vs UmlBlob.load_cdiagram on a synthesised project", info)
    if not real:
        ctx.violation("the adaptor rejects a synthesised project file: %s" % err, dict(info, finding_key="uml-adaptor:load-failed", finding_class="uml-adaptor"))
        return None
    if ub.modid(real[0], cd) != want:
        ctx.violation("the class diagram read back from the synthesised project differs from the one written",
                      dict(info, finding_key="uml-adaptor:roundtrip", finding_class="uml-adaptor"))
    if ctx.km is not None and ctx.km.call("ub_adaptor", vs.db_v(db), name) != [ub.abstract_view(cd2)]:
        ctx.tie_broken("UmlBlob.adaptor differs from the abstract diagram of the objects read back", info)
    if ctx.km is not None and ctx.km.call("ub_adaptor_cs", vs.db_v(db), name) != [ub.abstract_view_cs(cd2)]:
        ctx.tie_broken("UmlBlob.adaptor_cs differs from the abstract diagram (LanguageCsharp) of the objects read back", info)
    if ctx.km is not None:
        got = ctx.km.call("ub_adaptor_incl", vs.db_v(db), name)
        if not got or got[0] != ub.conv_bytes(us.abstract_incl(cd2)):
            ctx.tie_broken("UmlIncl.adaptor_incl differs from the raw diagram of the objects read back", info)
        else:
            ctx.count("incl_names_ok=%s" % (got[1] == b"1"))
    ctx.count("adaptor_synthesised_projects")
    return path, name, cd2


def directed_probes(ctx):
    """shapes the random edits reach rarely, built from the shipped TestClassDiagram with umlsynth's mutators on every run:
    each association removed in turn, association ends reordered (to-one ends last), an explicit constructor of the arity
    of the generated one, overloads of equal arity (also returning same-named classes of two packages)"""
    label = "TestClassDiagram"
    for j, probe in enumerate(us.probe_names(label)):
        cd = us.load(label)
        touch = us.apply_probe(cd, probe)
        nsf = bool(j % 2) or probe.startswith(("overloads-foreign-return", "rename-to-interface-name"))     # same-named classes need namespace folders (K-C19-5)
        if ctx.km is not None:
            function_level(ctx, cd, label)
        fails, nontrivial = observe(ctx, cd, label, nsf, "", ["probe:" + probe], compile_all=not ctx.quick, touch=touch)
        if probe.startswith(("explicit-ctor", "overloads", "virtual-word", "empty-interface", "redeclare")):
            fails += csharp(ctx, cd, label, nsf, ["probe:" + probe])
        ctx.case(("uml-probe", probe, nsf), nontrivial=nontrivial)
        ctx.count("directed_probe:" + probe.split(":")[0])
        seen = set()
        for f in fails:
            f.update({"label": label, "probe": probe, "mut_seed": 0, "nedits": 0})
            if f["finding_key"] not in seen:
                seen.add(f["finding_key"])
                ctx.violation(f["detail"], f)


def build(label, seed, nedits):
    cd = us.load(label)
    rng = random.Random(seed)
    edits = us.mutate(rng, cd, nedits) if nedits else []
    return cd, edits


def derived_project_probe(ctx):
    """Two generations in ONE process through the public entry point: the shipped project, then a copy of it in which
    one class was renamed directly in the project file (SQL). The second output must follow the second project file
    (read independently with sqlite3): a header for the new name, none for the old one."""
    import shutil
    import sqlite3
    from ..kj import Generate, quiet, scratch, read_tree
    diagram = "TestClassDiagram"
    with scratch() as d:
        db = os.path.join(d, "derived.vpp")
        shutil.copy(us.BLOB_XML, db)
        con = sqlite3.connect(db)
        cur = con.cursor()
        did = cur.execute("SELECT ID FROM DIAGRAM WHERE NAME=? AND DIAGRAM_TYPE='ClassDiagram'", (diagram,)).fetchone()[0]
        drawn = [r[0] for r in cur.execute("SELECT MODEL_ELEMENT_ID FROM DIAGRAM_ELEMENT WHERE DIAGRAM_ID=?", (did,)).fetchall()]
        classes = [(i, n, blob) for (i, t, n, blob) in cur.execute("SELECT ID, MODEL_TYPE, NAME, DEFINITION FROM MODEL_ELEMENT") if t == "Class" and i in drawn]
        cands = [(i, n, b) for (i, n, b) in classes if isinstance(b, bytes) and b.startswith(('%s:"%s":Class ' % (i, n)).encode())
                 and sum(1 for c in classes if c[1] == n) == 1]
        if not cands:
            con.close()
            ctx.count("derived_project_probe_skipped")
            return
        cid, old, blob = cands[ctx.rng.randrange(len(cands))]
        new = "CRenamed" + old[1:]
        head_old = ('%s:"%s":Class ' % (cid, old)).encode()
        head_new = ('%s:"%s":Class ' % (cid, new)).encode()
        with con:
            cur.execute("UPDATE MODEL_ELEMENT SET NAME=?, DEFINITION=? WHERE ID=?", (new, head_new + blob[len(head_old):], cid))
        con.close()
        try:
            with quiet():
                Generate.UML(os.path.join(d, "o1"), us.BLOB_XML, diagram, "", "a", "g", "b", True)
                Generate.UML(os.path.join(d, "o2"), db, diagram, "", "a", "g", "b", True)
        except Exception as e:  # noqa
            ctx.violation("the second generation in one process (derived project file) raised %r" % e,
                          {"finding_key": "uml:derived-project-second-generation", "renamed": [old, new]})
            return
        names2 = {os.path.basename(p) for p in read_tree(os.path.join(d, "o2"))}
    ctx.case(("derived-project", old), nontrivial=True)
    ctx.count("derived_project_probe")
    if (new + ".h") not in names2 or (old + ".h") in names2:
        ctx.violation("second generation in the same process does not follow its own project file: class %s was renamed %s in the file, "
                      "generated headers: %s" % (old, new, sorted(n for n in names2 if n.endswith(".h"))[:12]),
                      {"finding_key": "uml:derived-project-second-generation", "renamed": [old, new]})


def run(ctx):
    for p in sorted(glob.glob(os.path.join(VERIF, "corpus", "C19", "*.json"))):
        data = unjson(json.load(open(p)))
        ctx.case(("corpus", p))
        if not replay(ctx, data):
            ctx.violation("corpus case %s fails" % os.path.basename(p), data)
    derived_project_probe(ctx)
    if ctx.km is not None:
        adaptor_ties(ctx)
        printer_tie(ctx)
        semantic_ties(ctx)
        shipped_semantic_tie(ctx)
    for detail in separator_probe(ctx):
        ctx.violation(detail, {"finding_key": "uml-adaptor:name-with-separator", "finding_class": "uml-adaptor:name-with-separator", "label": "TestClassDiagram",
                               "mut_seed": 0, "nedits": 0, "separator_probe": True})
        break
    for detail in value_probe(ctx):
        ctx.violation(detail, {"finding_key": "uml-adaptor:value-with-separator", "finding_class": "uml-adaptor:value-with-separator", "label": "TestClassDiagram",
                               "mut_seed": 0, "nedits": 0, "value_probe": True})
        break
    for detail in injection_probe(ctx):
        ctx.violation(detail, {"finding_key": "uml-adaptor:free-text-injection", "finding_class": "uml-adaptor:free-text-injection", "label": "TestClassDiagram",
                               "mut_seed": 0, "nedits": 0, "injection_probe": True})
        break
    directed_probes(ctx)
    n = ctx.budget(60, 200)
    cases = [(label, 0, 0) for label in us.DIAGRAMS] + [("TestClassDiagram", -1, 0)]
    for i in range(n):
        cases.append((us.DIAGRAMS[i % 2] if i % 3 else "TestClassDiagram", ctx.rng.randint(1, 1 << 30), ctx.rng.randint(1, 4)))
    for idx, (label, seed, nedits) in enumerate(cases):
        cd, edits = build(label, seed, nedits)
        if seed == -1:
            edits = ["realisation-cycle"] if us.add_cycle(cd) else []
        nsf = (idx % 2 == 0)
        dclspc = "" if idx % 3 else "DLL_API"
        with contextlib.ExitStack() as stack:
            project = None
            if seed != -1 and (idx % 3 == 1 or nedits == 0 or ctx.km is None):
                # a share of the cases goes through a synthesised project file and the real adaptor / public entry point
                project = adaptor_case(ctx, stack, cd, seed, {"label": label, "mut_seed": seed, "nedits": nedits})
                if project is not None:
                    cd = project[2]
            if ctx.km is not None:
                function_level(ctx, cd, label)
            fails, nontrivial = observe(ctx, cd, label, nsf, dclspc, edits, compile_all=(nedits == 0 or not ctx.quick), project=project)
            if idx % 4 == 0 or nedits == 0:
                fails += csharp(ctx, cd, label, nsf, edits)
            for f in fails:
                if project is not None:
                    f["via_project"] = seed
        ctx.case(("uml", label, seed, nedits, nsf, dclspc), nontrivial=nontrivial)
        ctx.count("diagram_%s_edits_%d" % (label, nedits))
        for e in edits:
            ctx.count("edit:" + e.split(":")[0])
        if nedits == 0 and seed == 0:
            ctx.sample({"diagram": label, "classes": len(cd.classes), "inheritance": len(cd.inheritence), "nsf": nsf, "failures": len(fails)})
        seen = set()
        for f in fails:
            f.update({"label": label, "mut_seed": seed, "nedits": nedits})
            if f["finding_key"] in seen:
                continue
            seen.add(f["finding_key"])
            ctx.violation(f["detail"], f)


def replay(ctx, data):
    if data.get("no_failing_input_found"):
        print(json.dumps(data.get("no_longer_checks"), indent=1, default=repr)[:3000])
        return False
    if data.get("shipped_semantic"):
        before = len(ctx.violations) + len(ctx.known)
        if ctx.km is not None:
            shipped_semantic_tie(ctx)
        return len(ctx.violations) + len(ctx.known) == before
    if data.get("injection_probe"):
        return not injection_probe(ctx)
    if data.get("separator_probe"):
        return not separator_probe(ctx)
    if data.get("value_probe"):
        return not value_probe(ctx)
    cd, edits = build(data["label"], data["mut_seed"], data["nedits"])
    if data["mut_seed"] == -1:
        us.add_cycle(cd)
    if data.get("probe"):
        us.apply_probe(cd, data["probe"])
        edits = ["probe:" + data["probe"]]
    with contextlib.ExitStack() as stack:
        project = None
        if "via_project" in data:
            before = len(ctx.violations) + len(ctx.known) + len(ctx.broken)
            project = adaptor_case(ctx, stack, cd, data["via_project"])
            if str(data.get("finding_key", "")).startswith("uml-adaptor"):
                return len(ctx.violations) + len(ctx.known) + len(ctx.broken) == before
            if project is not None:
                cd = project[2]
        if data.get("lang") == "cs":
            return not csharp(ctx, cd, data["label"], data["nsf"], edits)
        fails, _ = observe(ctx, cd, data["label"], data["nsf"], data.get("dclspc", ""), edits, True, project=project)
        return not [f for f in fails if f["finding_key"] == data["finding_key"]]
