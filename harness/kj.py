"""Common access to the implementation under test (/repo working tree).

Everything here runs the *real* kojen code, imported from /repo (never from an
installed copy): the harness forces sys.path[0] = /repo.
"""
import contextlib
import io
import os
import random
import shutil
import sys
import tempfile

REPO = os.environ.get("KOJEN_REPO", "/repo")
if sys.path[0] != REPO:
    sys.path.insert(0, REPO)

import kojen  # noqa: E402

assert os.path.realpath(os.path.dirname(kojen.__file__)) == os.path.realpath(os.path.join(REPO, "kojen")), kojen.__file__

from kojen import Generate, cgen, preservative, smgen, kojentypes  # noqa: E402

TAG_PREFIX = "{{{USER_"

GENERATORS = ("cpp", "cs", "py", "proto")


@contextlib.contextmanager
def quiet():
    out = io.StringIO()
    with contextlib.redirect_stdout(out):
        yield out


@contextlib.contextmanager
def scratch(prefix="kjv-"):
    d = tempfile.mkdtemp(prefix=prefix)
    try:
        yield d
    finally:
        shutil.rmtree(d, ignore_errors=True)


@contextlib.contextmanager
def cwd(path):
    old = os.getcwd()
    os.chdir(path)
    try:
        yield
    finally:
        os.chdir(old)


# ---------------------------------------------------------------- inputs

CDPLAYER = [
    ['StateStop', 'EventOpen', 'StateOpen', 'OnOpenDrive', 'None'],
    ['StateStop', 'EventPlay', 'StatePlay', 'OnPlayTrack', 'GuardCDInside'],
    ['StateOpen', 'EventOpen', 'StateStop', 'OnCloseDrive', 'None'],
    ['StatePlay', 'EventPlay', 'StatePause', 'OnPause', 'None'],
    ['StatePlay', 'EventEndOfTrack', 'None', 'OnPlayNextTrack', 'GuardCDHasMoreTracks'],
    ['StatePlay', 'EventEndOfTrack', 'StateStop', 'OnStop', 'GuardCDHasNoMoreTracks'],
    ['StatePlay', 'EventSkipNextTrack', 'None', 'OnPlayNextTrack', 'GuardCDHasMoreTracks'],
    ['StatePlay', 'EventSkipPreviousTrack', 'None', 'OnPlayPreviousTrack', 'GuardCDHasPreviousTrack'],
    ['StatePlay', 'EventStop', 'StateStop', 'OnStop', 'None'],
    ['StatePause', 'EventPlay', 'StatePlay', 'OnPlayTrack', 'None'],
    ['StatePause', 'EventAfter10Minutes', 'StateStop', 'OnStop', 'None'],
]

# "None" as a syllable: names such as OnSelectNone / GuardIsNone3 / StateNoneCa are ordinary identifiers (only the whole
# cell ''/'none'/'None' means "absent")
_SYL = ["Al", "Be", "Ca", "Do", "En", "Fi", "Go", "Hu", "Ix", "Jo", "Ka", "Lu", "Mo", "Ne", "Op", "Pa", "Qu", "Ro", "Si", "Tu", "None"]


def ident(rng, prefix):
    """UpperCamelCase identifier without '_' (so tag names stay injective)."""
    return prefix + "".join(rng.choice(_SYL) for _ in range(rng.randint(1, 2))) + rng.choice(["", str(rng.randint(0, 9)), str(rng.randint(0, 9))])


def random_table(rng, nstates=None, nevents=None, nrows=None, allow_guard_mix=True):
    """A well-formed transition table: [state, event, next, action, guard]."""
    ns = nstates or rng.randint(1, 4)
    ne = nevents or rng.randint(1, 4)
    states = []
    while len(states) < ns:
        s = ident(rng, "State")
        if s not in states:
            states.append(s)
    events = []
    while len(events) < ne:
        e = ident(rng, "Event")
        if e not in events:
            events.append(e)
    actions = list({ident(rng, "On") for _ in range(rng.randint(1, 4))})
    guards = list({ident(rng, "Guard") for _ in range(rng.randint(1, 3))})
    actions.sort()
    guards.sort()
    if nstates is None and nevents is None and rng.random() < 0.12:
        # sibling names that differ from an existing one by a single inserted letter (Set / Sent, Run / Rutn): distinct model elements whose
        # tag names are near one another
        for pool in (states, actions, guards, events):
            if rng.random() < 0.6:
                b = rng.choice(pool)
                if rng.random() < 0.5:
                    sib = b[:-1] + rng.choice("tn") + b[-1:]
                else:                       # or only in the capitalisation of one inner letter (Standby / StandBy)
                    k_ = rng.randrange(1, len(b))
                    sib = b[:k_] + b[k_].swapcase() + b[k_ + 1:]
                if sib not in pool:
                    pool.append(sib)
    rows = []
    n = nrows or rng.randint(1, 8)
    for _ in range(n):
        s = rng.choice(states)
        e = rng.choice(events)
        nxt = rng.choice(states + [rng.choice(["None", "none", ""])])
        a = rng.choice(actions + [rng.choice(["None", "none", ""])])
        g = rng.choice(guards + ["None", "None", rng.choice(["none", ""])])
        rows.append([s, e, nxt, a, g])
    return rows


PRIMS_CPP = ["uint8", "uint16", "uint32", "uint64", "int8", "int16", "int32", "int64", "float", "double", "bool"]


def events_interface(rng, table, lang="cpp", usertags=None):
    """Event-parameter interface for a table (a Struct per some events)."""
    iface = kojentypes.Interface('IEvents' + str(rng.randint(0, 99)))
    evs = []
    for r in table:
        if r[1] not in evs:
            evs.append(r[1])
    for e in evs:
        if rng.random() < 0.4:
            st = kojentypes.Struct(e)
            for i in range(rng.randint(1, 3)):
                if lang == "cs":
                    ty = rng.choice(["ushort", "int", "bool", "double"])
                elif lang == "py":
                    ty = rng.choice(["int", "float", "bool"])
                else:
                    ty = rng.choice(["uint8_t", "uint16_t", "int32_t", "bool", "double"])
                if rng.random() < 0.5:
                    st.AddType("m%d" % i, ty, str(rng.randint(0, 9)))
                else:
                    st.AddType("m%d" % i, ty)
            iface.AddStruct(st)
    for k, v in (usertags or {}).items():
        iface.AddUserTag(k, v)
    return iface


def random_proto_interface(rng, depth=2):
    iface = kojentypes.Interface('IProto' + str(rng.randint(0, 99)))
    structs = []
    for i in range(rng.randint(0, 3)):
        st = kojentypes.Struct('sS%d' % i)
        for j in range(rng.randint(1, 3)):
            if structs and rng.random() < 0.3:
                st.AddStruct('s%d' % j, rng.choice(structs))
            else:
                ty = rng.choice(PRIMS_CPP)
                if rng.random() < 0.5:
                    st.AddType('m%d' % j, ty, str(rng.randint(0, 1) if ty == "bool" else rng.randint(0, 100)))
                else:
                    st.AddType('m%d' % j, ty)
        structs.append(st)
        iface.AddStruct(st)
    for i in range(rng.randint(1, 4)):
        m = kojentypes.Message('Msg%d' % i, i + 1)
        for j in range(rng.randint(0, 3)):
            if structs and rng.random() < 0.4:
                m.AddStruct('s%d' % j, rng.choice(structs))
            else:
                ty = rng.choice(PRIMS_CPP)
                if rng.random() < 0.5:
                    m.AddType('m%d' % j, ty, str(rng.randint(0, 1) if ty == "bool" else rng.randint(0, 100)))
                else:
                    m.AddType('m%d' % j, ty)
        iface.AddMessage(m)
    return iface


# ---------------------------------------------------------------- running the generators

def generate(kind, outdir, table=None, iface=None, ns="NS", name="X", copy_other=False, templatedir="", holder=None):
    """Run one public entry point of kojen; returns its return value.
    holder (a dict, state-machine kinds only): the generator OBJECT is built once -- exactly as the entry point builds it -- kept in the
    holder and its Generate() is called again on later calls (a tool that keeps its generator and regenerates when the model changes)."""
    with quiet():
        if holder is not None and kind in ("cpp", "cs", "py"):
            if "gen" not in holder:
                from kojen import smgen, LanguageCPP, LanguageCsharp, LanguagePython
                tdir, lang = {"cpp": ("statemachine_templates_embedded_arm", LanguageCPP.LanguageCPP),
                              "cs": ("statemachine_templates_cs_winlinmac", LanguageCsharp.LanguageCsharp),
                              "py": ("statemachine_templates_py", LanguagePython.LanguagePython)}[kind]
                g = smgen.CStateMachineGenerator(templatedir or os.path.join(REPO, "kojen", tdir), outdir, iface, lang(), "a", "g", "b")
                g.vpp_filename = "Transition Table"
                holder["gen"] = g
            return holder["gen"].Generate(table, ns, name, "", copy_other)
        if kind == "cpp":
            return Generate.StateMachine(outdir, table, iface, ns, name, "", "a", "g", "b", templatedir, "", copy_other)
        if kind == "cs":
            return Generate.StateMachine_CSHARP(outdir, table, iface, ns, name, "", "a", "g", "b", templatedir, "", copy_other)
        if kind == "py":
            return Generate.StateMachine_PYTHON(outdir, table, iface, ns, name, "", "a", "g", "b", templatedir, "", copy_other)
        if kind == "proto":
            return Generate.Protocol(outdir, iface, ns, name, "", "a", "g", "b", templatedir, "", copy_other)
        if kind in ("uml", "uml_cs"):
            fn = Generate.UML if kind == "uml" else Generate.UML_CSHARP
            return fn(outdir, os.path.join(REPO, "kojen", "test", "blob.xml"), name, "", "a", "g", "b", bool(ns), templatedir)
    raise ValueError(kind)


UML_DIAGRAMS = ("TestClassDiagram", "ProtocolStack")


def read_tree(root):
    """{relative path: bytes} of every regular file under root."""
    res = {}
    for d, _dirs, files in os.walk(root):
        for f in files:
            p = os.path.join(d, f)
            with open(p, "rb") as fh:
                res[os.path.relpath(p, root)] = fh.read()
    return res


def write_tree(root, tree):
    for rel, data in tree.items():
        p = os.path.join(root, rel)
        os.makedirs(os.path.dirname(p), exist_ok=True)
        with open(p, "wb") as fh:
            fh.write(data)


def splitlines_keep(b):
    """bytes -> list of byte lines, each including its '\n' terminator (last may lack it)."""
    if not b:
        return []
    parts = b.split(b"\n")
    res = [p + b"\n" for p in parts[:-1]]
    if parts[-1] != b"":
        res.append(parts[-1])
    return res


PFX = TAG_PREFIX.encode()


def tag_pairs(lines):
    """Spec-side reader of USER tag pairs in a list of byte lines.

    Returns list of (open_index, close_index, cleaned_name) for lines containing the
    prefix, paired consecutively (1st with 2nd, 3rd with 4th ...). Independent of kojen's
    collector (uses its own cleaning: strips everything but [A-Za-z0-9_{]).
    """
    idx = [i for i, l in enumerate(lines) if PFX in l]
    res = []
    for j in range(0, len(idx) - 1, 2):
        res.append((idx[j], idx[j + 1], spec_clean(lines[idx[j]])))
    return res


_STRIP = set(b"\t\n /*#~`@$%?+}]>=")


def spec_clean(line):
    s = line.replace(b"\\t", b"").replace(b"\\n", b"")
    return bytes(c for c in s if c not in _STRIP)


def splice(tree, user):
    """Insert user[(file, pair_index)] (list of byte lines) right after the opening tag of the pair_index-th pair.

    Keys may also be (file, cleaned_tag) : then the block goes under every pair of that name."""
    res = {}
    for rel, data in tree.items():
        lines = splitlines_keep(data)
        out = []
        pairs = {o: (i, name) for i, (o, _c, name) in enumerate(tag_pairs(lines))}
        for i, l in enumerate(lines):
            out.append(l)
            if i in pairs:
                idx, name = pairs[i]
                if (rel, idx) in user:
                    out.extend(user[(rel, idx)])
                elif (rel, name) in user:
                    out.extend(user[(rel, name)])
        res[rel] = b"".join(out)
    return res


def blocks(tree):
    """{(file, cleaned_tag): [byte lines]} of every tag pair of every file (spec reader)."""
    res = {}
    for rel, data in tree.items():
        lines = splitlines_keep(data)
        for (o, c, name) in tag_pairs(lines):
            res.setdefault((rel, name), []).append(lines[o + 1:c])
    return res


def tabnorm(b):
    return b.replace(b"\t", b"    ")


# ---------------------------------------------------------------- user text grammar

def user_line(rng, marker=None):
    kinds = [
        b"x = 1", b"", b"   ", b"\tindented with tab", b"    trailing   ", b"<<<X>>>", b"<<<IF x>>>", b"<<<ENDIF>>>",
        b"/* comment", b"// c", b"# py", b"'''", "grüße éè 中".encode(), b"}}}", b"{{{", b"{{{USE",
        b"a" * rng.choice([10, 300, 5000]), b"/*#~`@$%?+}]>= ", b"<<<PER_STATE_BEGIN>>>", b"return;", b"\\t\\n", b"{ } ; ::",
        b"<<<FOR_BEGIN=A,B>>>", b"<<<FOR_END>>>", b"<<<ELSE>>>",
        # lines that do NOT contain the USER tag prefix but whose cleaned-up form does (inside the property's quantifier)
        b"// moved here from the {{{ USER_LOCALS }}} block", b"{{{U SER_X", b"{ { {USER_IMPORTS", b"{{{US/ER_PUBLIC}}}", b"{{{USER\t_X",
        # characters that str.splitlines() treats as line boundaries but a text file's line iteration does not (page break, VT,
        # FS/GS/RS, NEL, LINE / PARAGRAPH SEPARATOR): ordinary content of a line
        b"\x0c", b"a\x0cb", b"// page \x0b break", b"x\x1cy\x1dz\x1e", "nel\u0085here".encode(), "ls\u2028ps\u2029end".encode(),
    ]
    l = rng.choice(kinds)
    if marker is not None:
        l = l + b" " + marker
    return l + b"\n"


def user_block(rng, marker_prefix=None, maxlines=4):
    n = rng.randint(1, maxlines)
    res = []
    for i in range(n):
        m = None
        if marker_prefix is not None:
            m = b"MK_" + marker_prefix + b"_%d" % i
        res.append(user_line(rng, m))
    return res
