"""Source of MANIFEST.json (bin/mkmanifest)."""

PRES_NOTE = ("Trusted: Coq 8.16.1 kernel (full .vo build, vm_compute, no native_compute); no axioms (Print Assumptions: closed under the global "
             "context, checked on every run); translator/tags.py; extraction (ExtrOcamlBasic + ExtrOcamlNativeString) + ocaml/driver.ml. "
             "Modelled, not verified: CPython str/text-mode I/O/os.path/dict order; the template engine that produces the fresh code model is "
             "captured from the real run (its well-formedness is a boolean hypothesis evaluated on every captured output). "
             "The hand-written model is tied to /repo by differential execution (function level, synthetic code models, end to end).")

def collect_checks():
    """{property id: MANIFEST dict} from every harness/props/cNN.py that defines MANIFEST."""
    import importlib
    import os
    res = {}
    d = os.path.join(os.path.dirname(os.path.abspath(__file__)), "props")
    for f in sorted(os.listdir(d)):
        if f.startswith("c") and f.endswith(".py") and f[1:3].isdigit():
            m = importlib.import_module("harness.props." + f[:-3])
            if hasattr(m, "MANIFEST"):
                c = dict(m.MANIFEST)
                c.setdefault("category", getattr(m, "LEVEL", "proof"))
                res[f[:-3].upper()] = c
    return res


NOT_APPLICABLE = {
}

ENGINES = [
    {"name": "coq-kv", "path": "/verif/coq", "serves_properties": [],
     "kind_free_text": "Coq 8.16.1 development (-Q theories KV): Lib/ Model/ (executable Gallina models) Gen/ (regenerated from /repo on every run) "
                       "Proofs/ Props/ (one file per property: statements closed by exact + Print Assumptions); extracted to build/kmodel (OCaml) "
                       "for the correspondence check"},
    {"name": "harness", "path": "/verif/harness", "serves_properties": [],
     "kind_free_text": "Python: translators (fail closed), generators, differential drivers, spec-side oracles, searchers, evidence writer"},
]

NOTES = ("bin/check <id> runs: hygiene grep, translators (Gen/*.v from /repo's working tree), full .vo build of the closure of Props/<id>.v with "
         "Print Assumptions parsed, digest check of Gen/, kmodel rebuild, correspondence + direct observation of the property on the "
         "implementation; a broken proof/tie triggers the thorough search and ends in VIOLATION ... no-failing-input-found if nothing concrete is found. "
         "known_findings.json lists recorded defects (KNOWN-FINDING lines) and the fix: commits made in /repo.")
