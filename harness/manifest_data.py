"""Source of MANIFEST.json (bin/mkmanifest)."""

PRES_NOTE = ("Trusted: Coq 8.16.1 kernel (full .vo build, vm_compute, no native_compute); no axioms (Print Assumptions: closed under the global "
             "context, checked on every run); translator/tags.py; extraction (ExtrOcamlBasic + ExtrOcamlNativeString) + ocaml/driver.ml. "
             "Modelled, not verified: CPython str/text-mode I/O/os.path/dict order; the template engine that produces the fresh code model is "
             "captured from the real run (its well-formedness is a boolean hypothesis evaluated on every captured output). "
             "The hand-written model is tied to /repo by differential execution (function level, synthetic code models, end to end).")

CHECKS = {
    "C01": {"technique": "Coq proof (induction over file items / regenerations) + differential correspondence model vs code",
            "text": "Theorems C01_fixed_point / C01_iterated / C01_tree_fixed_point: for every fresh code model satisfying the boolean "
                    "well-formedness, every user text and every number of regenerations the model of preserve+createoutput rewrites identical "
                    "bytes. The model is executed against the real generators on every run.",
            "note": PRES_NOTE},
    "C02": {"technique": "Coq proof (exact characterisation of emplace/collect) + differential correspondence",
            "text": "Theorems C02_evolution / C02_tree_evolution / C02_chain_step_shape: regenerated file = fresh file of the new model with "
                    "the old block of the same cleaned name under each tag; nothing else depends on the old model.",
            "note": PRES_NOTE},
    "C03": {"technique": "Coq proof (LostCode characterisation, path algebra, unreadable files) + differential correspondence",
            "text": "Theorems C03_lost_complete_and_only_lost / C03_lost_location / C03_unreadable_untouched over the model of the repaired code.",
            "note": PRES_NOTE + " Text-mode decodability is decided by the harness (strict UTF-8) and passed to the model as Unreadable."},
    "C04": {"technique": "Coq proof (frame lemma over the per-file fold) + differential correspondence on adversarial file names",
            "text": "Theorem C04_confined: what is written for a file depends on that file's fresh lines and old content only, for all file names; "
                    "C04_exactly_once for whole directories.",
            "note": PRES_NOTE},
    "C18": {"technique": "Coq proof (replace-mode emplace = sync specification; idempotence) + differential correspondence",
            "text": "Theorems C18_shared_replaced_rest_untouched / C18_idempotent over the model of FilePreservationSyncUtil; 'A is not modified' "
                    "is observed on every real run (partial: not a Coq statement).",
            "note": PRES_NOTE},
}

NOT_APPLICABLE = {
    "C05": "not built yet in this round (planned: crash model of the output stage)",
    "C06": "not built yet in this round (planned: environment inventory + permutation invariance)",
    "C07": "not built yet in this round",
    "C08": "not built yet in this round",
    "C09": "not built yet in this round",
    "C10": "not built yet in this round",
    "C11": "not built yet in this round",
    "C12": "not built yet in this round",
    "C13": "not built yet in this round",
    "C14": "not built yet in this round",
    "C15": "not built yet in this round",
    "C16": "not built yet in this round",
    "C17": "not built yet in this round",
    "C19": "not built yet in this round",
    "C20": "not built yet in this round",
}

ENGINES = [
    {"name": "coq-kv", "path": "/verif/coq", "serves_properties": sorted(CHECKS),
     "kind_free_text": "Coq 8.16.1 development (-Q theories KV): Lib/ Model/ (executable Gallina models) Gen/ (regenerated from /repo on every run) "
                       "Proofs/ Props/ (one file per property: statements closed by exact + Print Assumptions); extracted to build/kmodel (OCaml) "
                       "for the correspondence check"},
    {"name": "harness", "path": "/verif/harness", "serves_properties": sorted(CHECKS),
     "kind_free_text": "Python: translators (fail closed), generators, differential drivers, spec-side oracles, searchers, evidence writer"},
]

NOTES = ("bin/check <id> runs: hygiene grep, translators (Gen/*.v from /repo's working tree), full .vo build of the closure of Props/<id>.v with "
         "Print Assumptions parsed, digest check of Gen/, kmodel rebuild, correspondence + direct observation of the property on the "
         "implementation; a broken proof/tie triggers the thorough search and ends in VIOLATION ... no-failing-input-found if nothing concrete is found. "
         "known_findings.json lists recorded defects (KNOWN-FINDING lines) and the fix: commits made in /repo.")
