"""C12 support: interface descriptions -> real kojentypes objects, abstraction of the real objects to the Coq model's
input, abstraction of the real generated C++ text to the model's abstract program, the probe program, and the
independent oracle (Python's struct module).

An interface DESCRIPTION is plain JSON (it is what replay files hold):
  {"iname","preamble","ns","cls","structs":[{"name","members":[M...]}],"msgs":[{"name","id","members":[M...]}],
   "enums":[{"name","items":[[n,v]..]}],"defines":[[n,v]..]}
  M = ["P", member name, type string, default]      default: null | int | float | bool | str  (as handed to AddType)
    | ["S", member name, struct name]                the Struct OBJECT of that name built from this description
Structs are created and registered in list order.
"""
import os
import re
import struct
import subprocess

from . import kj
from .kj import kojentypes

PRIMS = {"uint8": ("B", 1), "uint16": ("H", 2), "uint32": ("I", 4), "uint64": ("Q", 8),
         "int8": ("b", 1), "int16": ("h", 2), "int32": ("i", 4), "int64": ("q", 8),
         "float": ("f", 4), "double": ("d", 8), "bool": ("?", 1)}
INT_RANGE = {"uint8": (0, 2 ** 8 - 1), "uint16": (0, 2 ** 16 - 1), "uint32": (0, 2 ** 32 - 1), "uint64": (0, 2 ** 64 - 1),
             "int8": (-2 ** 7, 2 ** 7 - 1), "int16": (-2 ** 15, 2 ** 15 - 1), "int32": (-2 ** 31, 2 ** 31 - 1),
             "int64": (-2 ** 63 + 1, 2 ** 63 - 1)}
HDR = "sMsgHeader"


# ------------------------------------------------------------------------------------------------ building the real input
def build_iface(desc, hold_back=None, between=None):
    """The real kojentypes.Interface for a description (only the public API of kojentypes is used).
    hold_back = (struct name, k): the last k members of that struct are added only after everything else exists and after
    between(iface) has run (an interface that is built, generated from, extended and generated from again is still the interface
    of the description: the objects are the caller's, kojen may not remember anything about their earlier state)."""
    iface = kojentypes.Interface(desc["iname"], desc["preamble"])
    objs = {}
    late = None
    for s in desc["structs"]:
        st = kojentypes.Struct(s["name"])
        mem = s["members"]
        if hold_back and hold_back[0] == s["name"] and 0 < hold_back[1] <= len(mem):
            late = (st, mem[len(mem) - hold_back[1]:])
            mem = mem[:len(mem) - hold_back[1]]
        _add_members(st, mem, objs)
        objs[s["name"]] = st
        iface.AddStruct(st)
    for m in desc["msgs"]:
        mo = kojentypes.Message(m["name"], m["id"])
        _add_members(mo, m["members"], objs)
        iface.AddMessage(mo)
    for e in desc.get("enums", []):
        en = kojentypes.Enum(e["name"])
        for n, v in e["items"]:
            en.Add(n, v)
        iface.AddEnum(en)
    for n, v in desc.get("defines", []):
        iface.AddHashDefine(n, v)
    if late:
        if between:
            between(iface)
        _add_members(late[0], late[1], objs)
    return iface


def _add_members(obj, members, objs):
    for mem in members:
        if mem[0] == "P":
            if mem[3] is None:
                obj.AddType(mem[1], mem[2])
            else:
                obj.AddType(mem[1], mem[2], mem[3])
        else:
            obj.AddStruct(mem[1], objs[mem[2]])


# ------------------------------------------------------------------------------------------------ abstraction of the real input
class Unsupported(Exception):
    pass


def _abs_members(obj, skip=()):
    res = []
    for name, val in obj.items():
        if name in skip:
            continue
        if isinstance(val, str):
            if val not in PRIMS:
                raise Unsupported("type string %r" % (val,))
            d = obj.defaults.get(name)
            # kojentypes stores str(default) if default else default; LanguageCPP only looks at its truthiness and text
            if d is not None and not isinstance(d, str):
                if d:
                    raise Unsupported("non-string truthy default %r" % (d,))
                d = None
            res.append(["P", name, val, "1" if d is not None else "0", d or ""])
        elif type(val) is kojentypes.Struct:
            res.append(["S", name, val.Name, _abs_members(val)])
        else:
            raise Unsupported("member object %r" % (type(val),))
    return res


def abstract_iface(iface):
    """Real Interface object -> the model's input term (see ocaml/cmds_layout.ml)."""
    structs, msgs = [], []
    first = True
    for key, val in iface.items():
        if first:
            if key != HDR or type(val) is not kojentypes.MessageHeader:
                raise Unsupported("first entry is not the protocol header")
            first = False
            continue
        if type(val) is kojentypes.Struct:
            if val.Name != key:
                raise Unsupported("struct registered under another name")
            structs.append([key, _abs_members(val)])
        elif type(val) is kojentypes.Message:
            if val.Name != key or not isinstance(val.MessageTypeID, int) or isinstance(val.MessageTypeID, bool):
                raise Unsupported("message name/id")
            if list(val.keys())[0] != "Header" or type(val["Header"]) is not kojentypes.MessageHeader:
                raise Unsupported("message without leading Header")
            hd = val["Header"].defaults
            if str(hd["Preamble"]) != str(iface.InterfacePreamble) or str(hd["TypeID"]) != str(val.MessageTypeID):
                raise Unsupported("header defaults differ from preamble/id")
            msgs.append([key, str(val.MessageTypeID), _abs_members(val, skip=("Header",))])
        else:
            raise Unsupported("interface entry %r" % (type(val),))
    if not isinstance(iface.InterfacePreamble, int) or isinstance(iface.InterfacePreamble, bool):
        raise Unsupported("preamble")
    return [str(iface.InterfacePreamble), structs, msgs]


# ------------------------------------------------------------------------------------------------ abstraction of the generated text
_STRUCT_RE = re.compile(r"^[ \t]*struct[ \t]+(\w+)[ \t]*\n[ \t]*\{[ \t]*\n(.*?)^[ \t]*\};[ \t]*$", re.S | re.M)
_MEMBER_RE = re.compile(r"^(\w+)[ \t]+(\w+)[ \t]*(__attribute__[ \t]*\(\(packed\)\))?;$")
_FACT_DECL_RE = re.compile(r"^[ \t]*(\w+)[ \t]+(Create\w+)\((.*)\);[ \t]*$", re.M)
_FACT_DEF_RE = re.compile(r"^[ \t]*(\w+)[ \t]+(Create\w+)\((.*)\)[ \t]*\n[ \t]*\{[ \t]*\n[ \t]*return[ \t]+(.*);[ \t]*\n[ \t]*\}", re.M)


def split_top(s):
    """split at commas that are not inside braces"""
    parts, depth, cur = [], 0, ""
    for ch in s:
        if ch == "{":
            depth += 1
        elif ch == "}":
            depth -= 1
        if ch == "," and depth == 0:
            parts.append(cur)
            cur = ""
        else:
            cur += ch
    if cur.strip() or parts:
        parts.append(cur)
    return parts


def parse_structs(text):
    res = []
    for m in _STRUCT_RE.finditer(text):
        members = []
        for line in m.group(2).split("\n"):
            line = line.strip()
            if not line:
                continue
            mm = _MEMBER_RE.match(line)
            if not mm:
                raise Unsupported("member line %r" % line)
            members.append([mm.group(1), mm.group(2), "1" if mm.group(3) else "0"])
        res.append([m.group(1), members])
    return res


def parse_params(s, with_defaults):
    res = []
    for p in split_top(s):
        p = p.strip()
        default = None
        if "=" in p:
            p, default = p.split("=", 1)
            default = default.strip()
        mm = re.match(r"^(\w+)([ \t]+const&)?[ \t]+(\w+)$", p.strip())
        if not mm:
            raise Unsupported("parameter %r" % p)
        res.append([mm.group(1), "1" if mm.group(2) else "0", mm.group(3), default])
    return res


def abstract_generated(outdir, cls):
    """(decls, factories) read from the real Protocol.h / <cls>.h / <cls>.cpp:
       decls = [[name, [[type, member, packed]..]]..] in textual order (Protocol.h is included before the structs of <cls>.h),
       factories = [[ret, name, [[type, ref, param, default text|None]..], body text]..]"""
    proto = open(os.path.join(outdir, "Protocol.h")).read()
    hdr = open(os.path.join(outdir, cls + ".h")).read()
    cpp = open(os.path.join(outdir, cls + ".cpp")).read()
    inc = [l.strip() for l in hdr.split("\n") if l.strip().startswith("#include")]
    if inc[:2] != ['#include "allplatforms/basetypes.h"', '#include "Protocol.h"']:
        raise Unsupported("include order %r" % inc)
    decls = parse_structs(proto) + parse_structs(hdr)
    declared = {}
    for m in _FACT_DECL_RE.finditer(hdr):
        declared[m.group(2)] = (m.group(1), parse_params(m.group(3), True))
    facts = []
    for m in _FACT_DEF_RE.finditer(cpp):
        ret, name, params, body = m.group(1), m.group(2), parse_params(m.group(3), False), m.group(4)
        if name not in declared:
            raise Unsupported("factory %s defined but not declared" % name)
        dret, dparams = declared.pop(name)
        if dret != ret or [p[:3] for p in dparams] != [p[:3] for p in params]:
            raise Unsupported("declaration and definition of %s differ" % name)
        facts.append([ret, name, dparams, body.replace(" ", "")])
    if declared:
        raise Unsupported("factories declared but not defined: %r" % sorted(declared))
    return decls, facts


# ------------------------------------------------------------------------------------------------ the independent oracle
def oracle_prim_bytes(ty, default):
    """bytes of a primitive field that equals its declared default (zero where none). `default` as handed to AddType."""
    fmt = "<" + PRIMS[ty][0]
    if default is None or (not isinstance(default, str) and not default) or default == "":
        return bytes(PRIMS[ty][1])
    text = default if isinstance(default, str) else str(default)
    if ty == "bool":
        v = {"true": True, "false": False, "1": True, "0": False}[text]
    elif ty in ("float", "double"):
        v = float(int(text, 0)) if re.match(r"^-?(0[xX][0-9a-fA-F]+|\d+)$", text) else float(text)
    else:
        v = {"true": 1, "false": 0}.get(text)
        if v is None:
            v = int(text, 0)
    return struct.pack(fmt, v)


class Oracle:
    """sizes / offsets / default bytes straight from the description: members back to back, little endian."""

    def __init__(self, desc):
        self.desc = desc
        self.structs = {s["name"]: s for s in desc["structs"]}

    def msize(self, mem):
        if mem[0] == "P":
            return PRIMS[mem[2]][1]
        return sum(self.msize(x) for x in self.structs[mem[2]]["members"])

    def mdefault(self, mem):
        if mem[0] == "P":
            return oracle_prim_bytes(mem[2], mem[3])
        return b"".join(self.mdefault(x) for x in self.structs[mem[2]]["members"])

    def layout(self, members, header=False):
        """(size, [(name, offset, size)..])"""
        off, res = 0, []
        if header:
            res.append(("Header", 0, 8))
            off = 8
        for mem in members:
            sz = self.msize(mem)
            res.append((mem[1], off, sz))
            off += sz
        return off, res

    def header(self, msg):
        payload = sum(self.msize(x) for x in msg["members"])
        return struct.pack("<HHI", self.desc["preamble"], msg["id"], payload)

    def value(self, members, args, header=b""):
        out = header + b"".join(args)
        for mem in members[len(args):]:
            out += self.mdefault(mem)
        return out


# ------------------------------------------------------------------------------------------------ probe
PROBE_HEAD = r"""
#include "%(cls)s.cpp"
#include <cstdio>
#include <cstddef>
#include <cstring>
static void dump(const char* tag, const void* p, size_t n) {
    const unsigned char* b = (const unsigned char*)p;
    printf("C %%s ", tag);
    for (size_t i = 0; i < n; i++) printf("%%02x", b[i]);
    printf("\n");
}
using namespace %(ns)s;
int main() {
"""


def probe_source(desc, calls):
    """calls = [(tag, factory name, [(type name, bytes)..])]"""
    out = [PROBE_HEAD % {"cls": desc["cls"], "ns": desc["ns"]}]
    out.append('    printf("L %s %%zu %%zu\\n", sizeof(%s), alignof(%s));' % (HDR, HDR, HDR))
    for f in ("Preamble", "TypeID", "PayloadSize"):
        out.append('    printf("F %s %s %%zu %%zu\\n", offsetof(%s, %s), sizeof(((%s*)0)->%s));' % (HDR, f, HDR, f, HDR, f))
    for kind, items in (("s", desc["structs"]), ("m", desc["msgs"])):
        for s in items:
            n = s["name"]
            out.append('    printf("L %s %%zu %%zu\\n", sizeof(%s), alignof(%s));' % (n, n, n))
            names = (["Header"] if kind == "m" else []) + [m[1] for m in s["members"]]
            for f in names:
                out.append('    printf("F %s %s %%zu %%zu\\n", offsetof(%s, %s), sizeof(((%s*)0)->%s));' % (n, f, n, f, n, f))
    for ci, (tag, fname, args) in enumerate(calls):
        out.append("    {")
        names = []
        for ai, (ty, b) in enumerate(args):
            out.append("        static const unsigned char b%d[] = {%s};" % (ai, ",".join(str(x) for x in b) or "0"))
            out.append("        %s v%d; static_assert(sizeof(v%d) == %d, \"arg size\"); memcpy(&v%d, b%d, sizeof(v%d));" % (ty, ai, ai, len(b), ai, ai, ai))
            names.append("v%d" % ai)
        out.append("        auto r = %s(%s);" % (fname, ", ".join(names)))
        out.append('        dump("%s", &r, sizeof(r));' % tag)
        out.append("    }")
    out.append("    return 0;\n}\n")
    return "\n".join(out)


def compile_and_run(outdir, src_text, name="probe", extra=()):
    """-> (ok, stdout or compiler output)"""
    src = os.path.join(outdir, name + ".cpp")
    exe = os.path.join(outdir, name)
    with open(src, "w") as f:
        f.write(src_text)
    p = subprocess.run(["g++", "-std=c++17", "-w", "-I" + outdir, "-I" + os.path.join(outdir, "allplatforms"), *extra, src, "-o", exe],
                       stdout=subprocess.PIPE, stderr=subprocess.STDOUT, timeout=300)
    if p.returncode:
        return False, p.stdout.decode("utf-8", "replace")
    r = subprocess.run([exe], stdout=subprocess.PIPE, stderr=subprocess.STDOUT, timeout=60)
    if r.returncode:
        return False, "probe exited with %d: %s" % (r.returncode, r.stdout.decode("utf-8", "replace")[-500:])
    return True, r.stdout.decode()


def parse_probe(text):
    layouts, fields, calls = {}, {}, {}
    for line in text.split("\n"):
        t = line.split()
        if not t:
            continue
        if t[0] == "L":
            layouts[t[1]] = (int(t[2]), int(t[3]))
        elif t[0] == "F":
            fields.setdefault(t[1], []).append((t[2], int(t[3]), int(t[4])))
        elif t[0] == "C":
            calls[t[1]] = bytes.fromhex(t[2]) if len(t) > 2 else b""
    return layouts, fields, calls


# ------------------------------------------------------------------------------------------------ generators
_SYL = ["Al", "Be", "Ca", "Do", "En", "Fi", "Go", "Hu", "Ix", "Jo", "Ka", "Lu", "Mo", "Ne", "Op", "Pa", "Qu", "Ro", "Si", "Tu"]
PRIM_NAMES = list(PRIMS)

FLOAT_TEXTS = ["0.5", "1.5", "-0.25", "2.0", "1e3", "1e-07", "0.1", "3.14159265359", "-2.5e+10", "1e+22", "123456789.125", "16777217.0",
               "0.30000000000000004", "4.35", "1e-40", "-0.0", "100", "-7", "0x10", "5e-324", "1.7976931348623157e+308", "3.4028235e+38",
               "1.00000017881393421514957253748434595763683319091796875", "9007199254740993.0", "33554431.0", ".5", "5."]


def gen_default(rng, ty, mode="mixed"):
    """a default as a user would hand it to AddType (None = no default); always inside the stated domain"""
    r = rng.random()
    if mode == "none" or (mode == "mixed" and r < 0.3):
        return rng.choice([None, None, None, 0, ""]) if mode == "mixed" else None
    if ty == "bool":
        return rng.choice(["true", "false", "1", "0", False])
    if ty in ("float", "double"):
        while True:
            c = rng.random()
            if c < 0.5:
                d = rng.choice(FLOAT_TEXTS)
            elif c < 0.7:
                d = rng.choice([0.5, 2.25, -1.75, 1e-07, 3.0e20, 0.1, 7.0])        # python floats: str() is applied by kojen
            elif c < 0.85:
                d = "%d.%d" % (rng.randint(0, 10 ** rng.randint(1, 12)), rng.randint(0, 10 ** rng.randint(1, 12)))
            else:
                d = "%s%d.%de%d" % (rng.choice(["", "-"]), rng.randint(0, 999), rng.randint(0, 99999), rng.randint(-30, 30))
            try:
                oracle_prim_bytes(ty, d)       # struct refuses doubles beyond the float range; so does the stated domain
            except (OverflowError, struct.error):
                continue
            if ty == "float" and re.match(r"^-?(0[xX][0-9a-fA-F]+|\d+)$", str(d)) and abs(int(str(d), 0)) > 2 ** 24:
                continue
            return d
    lo, hi = INT_RANGE[ty]
    c = rng.random()
    if c < 0.25:
        v = rng.choice([lo, hi, lo + 1, hi - 1, 1])
    elif c < 0.5:
        v = rng.randint(lo, hi)
    else:
        v = rng.randint(max(lo, -100), min(hi, 100))
    form = rng.random()
    if form < 0.2:
        return v                       # python int
    if form < 0.4 and v >= 0:
        return hex(v)
    if form < 0.45 and v in (0, 1):
        return rng.choice(["true", "false"])
    return str(v)


def ident(rng, prefix, used):
    while True:
        n = prefix + "".join(rng.choice(_SYL) for _ in range(rng.randint(1, 2))) + str(rng.randint(0, 99))
        if rng.random() < 0.05:      # a long identifier (formatting helpers pad declarations to fixed columns)
            n += "".join(rng.choice(_SYL).capitalize() for _ in range(rng.randint(8, 24)))
        if n not in used:
            used.add(n)
            return n


def gen_desc(rng, depth=None, nstructs=None, nmsgs=None, mode="mixed"):
    """A rich, valid interface description: nesting to the requested depth, all primitive types, defaults
    present/absent at every level, enums/defines, distinct ids, arbitrary 16-bit preamble, namespace / class names."""
    used = set()
    depth = depth if depth is not None else rng.randint(0, 5)
    structs = []
    level = {}                       # struct name -> nesting depth
    ns_total = nstructs if nstructs is not None else rng.randint(depth, depth + 4)

    def members(maxlevel, mn, mx, must=None):
        res, names = [], set()
        n = rng.randint(mn, mx)
        for j in range(n):
            nm = ident(rng, rng.choice(["m", "my", "f", "val"]), names)
            cands = [s for s in structs if level[s["name"]] < maxlevel]
            if must is not None and j == 0:
                res.append(["S", nm, must])
            elif cands and rng.random() < 0.35:
                res.append(["S", nm, rng.choice(cands)["name"]])
            else:
                ty = rng.choice(PRIM_NAMES)
                res.append(["P", nm, ty, gen_default(rng, ty, mode)])
        rng.shuffle(res)
        return res

    # a chain guaranteeing the requested depth, the rest random
    chain_prev = None
    for k in range(ns_total):
        name = ident(rng, rng.choice(["s", "S", "Pay", "t"]), used)
        if k < depth:
            mem = members(k, 1, 4, must=chain_prev)
            lvl = k + 1
            chain_prev = name
        else:
            mem = members(6, 1, 5)
            lvl = 1 + max([level[m[2]] for m in mem if m[0] == "S"] + [0])
        structs.append({"name": name, "members": mem})
        level[name] = lvl
    msgs = []
    ids = set()
    nm_total = nmsgs if nmsgs is not None else rng.randint(1, 4)
    for k in range(nm_total):
        name = ident(rng, rng.choice(["Msg", "Cmd", "Evt"]), used)
        while True:
            mid = rng.choice([rng.randint(0, 20), rng.randint(0, 65535), 65535, 0])
            if mid not in ids:
                ids.add(mid)
                break
        must = chain_prev if (k == 0 and chain_prev) else None
        mem = members(99, 1 if must else 0, 5, must=must)
        msgs.append({"name": name, "id": mid, "members": mem})
    enums = []
    for _ in range(rng.randint(0, 2)):
        en = ident(rng, "e", used)
        inames = set()
        enums.append({"name": en, "items": [[ident(rng, "k", inames), i] for i in range(rng.randint(1, 4))]})
    defines = [[ident(rng, "DEF", used).upper(), rng.choice([3, 3.14159265359, "0x10"])] for _ in range(rng.randint(0, 2))]
    return {"iname": ident(rng, "I", used), "preamble": rng.choice([0xDEAD, 0xBEEF, 0, 65535, rng.randint(0, 65535), 0x0101]),
            "ns": ident(rng, rng.choice(["NS", "proto", "Io"]), used), "cls": ident(rng, rng.choice(["X", "Proto", "If"]), used),
            "structs": structs, "msgs": msgs, "enums": enums, "defines": defines}


def desc_depth(desc):
    level = {}
    for s in desc["structs"]:
        level[s["name"]] = 1 + max([level.get(m[2], 0) for m in s["members"] if m[0] == "S"] + [0])
    return max([level.get(m[2], 0) for ms in desc["msgs"] for m in ms["members"] if m[0] == "S"] + [0]), level


def random_arg(rng, oracle, mem):
    """object bytes for an argument of the member's type: random, but valid objects (bool 0/1, no NaN payload games)"""
    if mem[0] == "S":
        return b"".join(random_arg(rng, oracle, x) for x in oracle.structs[mem[2]]["members"])
    ty = mem[2]
    if ty == "bool":
        return bytes([rng.randint(0, 1)])
    if ty == "float":
        return struct.pack("<f", rng.choice([1.5, -2.25, 0.1, 1e10, 3.0, -0.0]))
    if ty == "double":
        return struct.pack("<d", rng.choice([1.5, -2.25, 0.1, 1e100, 3.0, -0.0]))
    return bytes(rng.randint(0, 255) for _ in range(PRIMS[ty][1]))
