"""Controlled scheduler for the generated threaded Python state machine (C11).

The REAL generated module source is exec'd in a namespace whose `__import__` maps `threading` and `queue` to the fake
modules below.  Every synchronisation operation of the skeleton (read / write of a private `self.__flag`, Queue(),
put, get, task_done, Queue.join, Thread.start, Thread.join) is a *yield point*: the calling thread announces the
operation (with an `enabled` predicate) and parks until the driver hands it the baton; exactly one controlled thread
runs at any time, so a schedule (list of thread names) determines the execution.  `no enabled thread while some thread
is unfinished` = deadlock.  The code under test runs on real OS threads (real call stacks, real exceptions); only the
blocking primitives are replaced.
"""
import builtins
import inspect
import re
import threading as _rt
import types


class Kill(BaseException):
    """Raised inside a parked controlled thread when the run is torn down."""


class SchedError(Exception):
    pass


class CThread:
    def __init__(self, name):
        self.name = name
        self.pending = None      # (label, enabled_fn) while parked at a yield point
        self.done = False
        self.error = None
        self.real = None
        self.local = {}


class Sched:
    def __init__(self):
        self.cv = _rt.Condition()
        self.threads = {}        # name -> CThread (insertion order = creation order)
        self.by_ident = {}
        self.current = None      # CThread holding the baton
        self.killing = False
        self.trace = []          # labels of executed operations: (thread, label)
        self.log = []            # property observation: ("B"|"E"|"cb", thread, event id[, callback name])

    # ---- called from controlled threads
    def me(self):
        return self.by_ident[_rt.get_ident()]

    def note(self, label):
        self.trace.append((self.me().name, label))

    def yield_(self, label, enabled=None):
        t = self.me()
        with self.cv:
            t.pending = (label, enabled or (lambda: True))
            if self.current is t:
                self.current = None
            self.cv.notify_all()
            while self.current is not t:
                if self.killing:
                    raise Kill()
                self.cv.wait()
            t.pending = None
        if self.killing:
            raise Kill()

    def _boot(self, t, fn):
        self.by_ident[_rt.get_ident()] = t
        try:
            self.yield_("Begin")     # park until first scheduled; creation itself is not a step of this thread
            fn()
        except Kill:
            pass
        except BaseException as e:  # noqa -- reported to the driver
            t.error = e
        finally:
            with self.cv:
                t.done = True
                t.pending = None
                if self.current is t:
                    self.current = None
                self.cv.notify_all()

    def spawn(self, name, fn):
        """Create a controlled thread; returns once it is parked at its first yield point (its 'Begin')."""
        t = CThread(name)
        with self.cv:
            self.threads[name] = t
        t.real = _rt.Thread(target=self._boot, args=(t, fn), daemon=True)
        t.real.start()
        with self.cv:
            while t.pending is None and not t.done:
                self.cv.wait()
        return t

    # ---- called from the driver (the harness's own thread)
    def enabled(self):
        res = []
        for n, t in self.threads.items():
            if not t.done and t.pending is not None and t.pending[1]():
                res.append(n)
        return res

    def unfinished(self):
        return [n for n, t in self.threads.items() if not t.done]

    def step(self, name, timeout=20.0):
        """Let thread `name` execute up to its next yield point. Returns False when it is not enabled."""
        with self.cv:
            t = self.threads.get(name)
            if t is None or t.done or t.pending is None or not t.pending[1]():
                return False
            if t.pending[0] == "Begin":
                # the first grant only releases the thread from its creation park: run on to the first real yield
                pass
            self.current = t
            self.cv.notify_all()
            while self.current is t:
                if not self.cv.wait(timeout):
                    raise SchedError("thread %s did not reach a yield point within %ss" % (name, timeout))
        return True

    def kill(self):
        with self.cv:
            self.killing = True
            self.cv.notify_all()
        for t in self.threads.values():
            if t.real is not None:
                t.real.join(5.0)


# ------------------------------------------------------------------ fake `queue`

def make_queue_module(sched):
    class Empty(Exception):
        pass

    class Full(Exception):
        pass

    class Queue:
        def __init__(self, maxsize=0):
            sched.yield_("NewQueue")
            self.maxsize = maxsize or 0     # a bounded queue blocks put() while it is full
            self.items = []
            self.unfinished_tasks = 0
            sched.queues.append(self)
            sched.note("NewQueue")

        def put(self, item, block=True, timeout=None):
            if self.maxsize > 0 and block and timeout is None:
                sched.yield_("Put", lambda: len(self.items) < self.maxsize)
            else:
                sched.yield_("Put")
                if self.maxsize > 0 and len(self.items) >= self.maxsize:
                    sched.note("PutFull")          # non-blocking put / put with a time-out on a full queue: the time-out may fire now
                    raise Full()
            self.items.append(item)
            self.unfinished_tasks += 1
            sched.note("Put %s" % getattr(item, "_kv_id", "?"))

        def get(self, block=True, timeout=None):
            if block and timeout is None:
                sched.yield_("Get", lambda: bool(self.items))
            else:
                sched.yield_("Get")
            if not self.items:
                sched.note("GetTimeout")
                raise Empty()
            item = self.items.pop(0)
            sched.note("GetOk %s" % getattr(item, "_kv_id", "?"))
            return item

        def task_done(self):
            sched.yield_("TaskDone")
            if self.unfinished_tasks <= 0:
                sched.note("TaskDoneError")
                raise ValueError("task_done() called too many times")
            self.unfinished_tasks -= 1
            sched.note("TaskDone")

        def join(self):
            sched.yield_("QueueJoin", lambda: self.unfinished_tasks == 0)
            sched.note("QueueJoin")

        def empty(self):
            sched.yield_("QueueEmpty")
            sched.note("QueueEmpty %d" % (0 if self.items else 1))
            return not self.items

        def qsize(self):
            return len(self.items)

        def put_nowait(self, item):
            return self.put(item, block=False)

        def get_nowait(self):
            return self.get(block=False)

        def full(self):
            return self.maxsize > 0 and len(self.items) >= self.maxsize

    m = types.ModuleType("queue")
    m.Queue, m.Empty, m.Full = Queue, Empty, Full
    sched.queues = []
    return m


# ------------------------------------------------------------------ fake `threading`

def make_threading_module(sched, flag_names, worker_name="worker"):
    flags = set(flag_names)

    def flag_of(name):
        i = name.find("__")
        if name.startswith("_") and i > 0 and name[i + 2:] in flags:
            return name[i + 2:]
        return None

    class Thread:
        def __init__(self, *a, **k):
            object.__setattr__(self, "_kv_ct", None)

        def __getattribute__(self, name):
            f = flag_of(name)
            if f is None:
                return object.__getattribute__(self, name)
            sched.yield_("ReadFlag")
            v = object.__getattribute__(self, name)
            sched.note("ReadFlag %s %d" % (f, 1 if v else 0))
            return v

        def __setattr__(self, name, value):
            f = flag_of(name)
            if f is None:
                return object.__setattr__(self, name, value)
            sched.yield_("SetFlag")
            object.__setattr__(self, name, value)
            sched.note("SetFlag %s %d" % (f, 1 if value else 0))

        def start(self):
            sched.yield_("ThreadStart")
            if object.__getattribute__(self, "_kv_ct") is not None:
                raise RuntimeError("threads can only be started once")
            ct = sched.spawn(worker_name, self.run)
            object.__setattr__(self, "_kv_ct", ct)
            sched.note("ThreadStart")

        def join(self, timeout=None):
            ct = object.__getattribute__(self, "_kv_ct")
            if ct is None:
                raise RuntimeError("cannot join thread before it is started")
            if ct is sched.me():
                raise RuntimeError("cannot join current thread")
            if timeout is None:
                sched.yield_("ThreadJoin", lambda: ct.done)
                sched.note("ThreadJoin")
            else:
                sched.yield_("ThreadJoin")              # a join time-out may fire at any moment
                sched.note("ThreadJoin" if ct.done else "ThreadJoinTimeout")

        def is_alive(self):
            ct = object.__getattribute__(self, "_kv_ct")
            return ct is not None and not ct.done

        def run(self):
            pass

    # further primitives a changed template may reach for: each operation is a yield point of the controlled scheduler
    class Event:
        def __init__(self):
            self._f = False

        def is_set(self):
            sched.yield_("EventIsSet")
            sched.note("EventIsSet %d" % (1 if self._f else 0))
            return self._f

        isSet = is_set

        def set(self):
            sched.yield_("EventSet")
            self._f = True
            sched.note("EventSet")

        def clear(self):
            sched.yield_("EventClear")
            self._f = False
            sched.note("EventClear")

        def wait(self, timeout=None):
            if timeout is None:
                sched.yield_("EventWait", lambda: self._f)
            else:
                sched.yield_("EventWait")           # a time-out may fire at any moment
            sched.note("EventWait %d" % (1 if self._f else 0))
            return self._f

    class Lock:
        _reentrant = False

        def __init__(self):
            self._owner, self._n = None, 0

        def acquire(self, blocking=True, timeout=-1):
            me = sched.me()
            if self._reentrant and self._owner is me:
                self._n += 1
                return True
            if blocking and (timeout is None or timeout < 0):
                sched.yield_("LockAcquire", lambda: self._owner is None)
            else:
                sched.yield_("LockAcquire")
                if self._owner is not None:
                    sched.note("LockBusy")
                    return False
            self._owner, self._n = me, 1
            sched.note("LockAcquire")
            return True

        def release(self):
            if self._owner is None:
                raise RuntimeError("release unlocked lock")
            self._n -= 1
            if self._n == 0:
                sched.yield_("LockRelease")
                self._owner = None
                sched.note("LockRelease")

        def locked(self):
            return self._owner is not None

        def __enter__(self):
            self.acquire()
            return self

        def __exit__(self, *a):
            self.release()
            return False

    class RLock(Lock):
        _reentrant = True

    class _Main:
        name = "MainThread"
        daemon = False

        def is_alive(self):
            return True

    main_obj = _Main()
    threads = []
    real_init = Thread.__init__

    def init(self, *a, **k):
        real_init(self, *a, **k)
        threads.append(self)
    Thread.__init__ = init

    def current_thread():
        me = sched.me()
        for t in threads:
            if object.__getattribute__(t, "_kv_ct") is me and me is not None:
                return t
        return main_obj

    m = types.ModuleType("threading")
    m.Thread = Thread
    m.Event, m.Lock, m.RLock = Event, Lock, RLock
    m.current_thread = m.currentThread = current_thread
    m.main_thread = lambda: main_obj
    m.get_ident = lambda: id(sched.me())
    return m


# ------------------------------------------------------------------ loading the generated modules

def private_flags(sm_source):
    """Names X of the `self.__X` attributes of the state-machine source other than the queue."""
    names = sorted(set(re.findall(r"self\.__([A-Za-z]\w*)", sm_source)))
    return [n for n in names if "ueue" not in n]


def load_machine(sched, controller_source, sm_source, name):
    """exec the generated <name>Controller.py and <name>StateMachine.py; returns (controller module, machine module)."""
    ctrl = types.ModuleType(name + "Controller")
    exec(compile(controller_source, name + "Controller.py", "exec"), ctrl.__dict__)
    fake = {"threading": make_threading_module(sched, private_flags(sm_source)), "queue": make_queue_module(sched),
            name + "Controller": ctrl}
    real_import = builtins.__import__

    def imp(modname, globals=None, locals=None, fromlist=(), level=0):
        if modname in fake:
            return fake[modname]
        if modname in ("enum",):
            return real_import(modname, globals, locals, fromlist, level)
        raise ImportError("import of %r by the generated module is not expected" % modname)

    b = dict(builtins.__dict__)
    b["__import__"] = imp
    b["print"] = lambda *a, **k: None
    ns = {"__builtins__": b, "__name__": name + "StateMachine"}
    exec(compile(sm_source, name + "StateMachine.py", "exec"), ns)
    mod = types.ModuleType(name + "StateMachine")
    mod.__dict__.update(ns)
    return ctrl, mod


class Ev:
    """A scripted event: identity, event-class name, and the events its first callback triggers."""
    __slots__ = ("id", "cls", "children")

    def __init__(self, id, cls, children=()):
        self.id, self.cls, self.children = id, cls, list(children)

    def to_json(self):
        return [self.id, self.cls, [c.to_json() for c in self.children]]

    @staticmethod
    def from_json(j):
        return Ev(j[0], j[1], [Ev.from_json(c) for c in j[2]])


class Run:
    """One execution of the real generated machine under a schedule.

    scripts: {"main": [Ev...], "p0": [Ev...], ...}; main constructs the machine, triggers its own script, calls stop().
    Step labels agree with the labels of Model/PyThreads.v (see harness/props/c11.py)."""

    def __init__(self, controller_source, sm_source, name, scripts, call_stop=True):
        self.sched = s = Sched()
        self.scripts = scripts
        self.name = name
        self.stop_called = False
        self.stop_returned = False
        self.log_at_stop_call = None
        ctrl, mod = load_machine(s, controller_source, sm_source, name)
        self.ctrl, self.mod = ctrl, mod
        run = self
        seen_children = set()

        # stamp every event object with the identity announced by the triggering thread
        def cls_names(evs):
            for e in evs:
                yield e.cls
                yield from cls_names(e.children)
        scripted = set(n for sc in scripts.values() for n in cls_names(sc))
        for cname, c in list(ctrl.__dict__.items()):
            if inspect.isclass(c) and (cname.startswith("Event") or cname in scripted) and cname != "EventStartup":
                self._stamp(c)

        class Tracer:
            def __getattr__(self, cb):
                if cb.startswith("__"):
                    raise AttributeError(cb)

                def call(event, *a):
                    eid = getattr(event, "_kv_id", None)
                    s.log.append(("cb", s.me().name, eid, cb))
                    if eid is not None and eid not in seen_children:
                        seen_children.add(eid)
                        for c in run.evs[eid].children:
                            run.trigger(c)
                    return True
                return call

        base = getattr(mod, name + "StateMachine")

        class Traced(base):
            def process(self, event):
                eid = getattr(event, "_kv_id", None)
                s.yield_("Process")
                s.log.append(("B", s.me().name, eid))
                s.note("Process %s" % eid)
                base.process(self, event)
                s.yield_("ProcEnd")
                s.log.append(("E", s.me().name, eid))
                s.note("ProcEnd %s" % eid)

        self.evs = {}

        def reg(e):
            self.evs[e.id] = e
            for c in e.children:
                reg(c)
        for sc in scripts.values():
            for e in sc:
                reg(e)

        def main():
            self.sm = Traced(Tracer())
            s.yield_("InitDone")
            s.note("InitDone")
            for n in scripts:
                if n != "main":
                    s.spawn(n, self._producer(n))
            for e in scripts.get("main", []):
                self.trigger(e)
            if call_stop:
                s.yield_("StopCall")
                self.stop_called = True
                self.log_at_stop_call = list(s.trace)
                s.note("StopCall")
                self.sm.stop()
                s.yield_("StopRet")
                self.stop_returned = True
                self.log_len_at_stop_ret = len(s.log)
                s.note("StopRet")

        s.spawn("main", main)

    def _stamp(self, c):
        s = self.sched
        orig = c.__init__

        def init(obj, *a, **k):
            orig(obj, *a, **k)
            obj._kv_id = s.me().local.get("next_id")
        c.__init__ = init

    def _producer(self, n):
        def body():
            for e in self.scripts[n]:
                self.trigger(e)
        return body

    def trigger(self, e):
        s = self.sched
        s.yield_("Call")
        s.me().local["next_id"] = e.id
        s.note("Call %s" % e.id)
        fn = getattr(self.sm, "Trigger" + e.cls)
        nargs = len(inspect.signature(fn).parameters)
        fn(*([0] * nargs))

    # ---- driver side
    def step(self, name):
        """Returns the list of labels executed by this step, or None when `name` is not enabled."""
        n0 = len(self.sched.trace)
        # a freshly created thread is parked at 'Begin': its first grant runs it to its first real yield point, which
        # is not a step of the model; grant again so that one schedule entry = one operation.
        t = self.sched.threads.get(name)
        if t is None:
            return None
        if t.pending is not None and t.pending[0] == "Begin":
            if not self.sched.step(name):
                return None
        if not self.sched.step(name):
            return None
        return [l for (_t, l) in self.sched.trace[n0:]]

    def settle(self):
        """Run every thread parked at its creation point up to its first real yield point (no operation is executed)."""
        progress = True
        while progress:
            progress = False
            for n, t in list(self.sched.threads.items()):
                if not t.done and t.pending is not None and t.pending[0] == "Begin":
                    self.sched.step(n)
                    progress = True

    def enabled(self):
        self.settle()
        return self.sched.enabled()

    def errors(self):
        return {n: repr(t.error) for n, t in self.sched.threads.items() if t.error is not None}

    def close(self):
        self.sched.kill()
