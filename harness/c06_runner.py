"""Subprocess entry for C06/C05: one real generation under a given process configuration.

usage: python -m harness.c06_runner <config.json>
config: kind, inp (as produced by presv.random_input), outdir (as spelled), cwd, walk_seed (int or null: permute every
directory listing), clock (float or null: value returned by time.time), fault (optional, for C05: {"op": k, "mode": "exn"|"kill"}).
Prints one JSON line: {"returned": [...], "ops": n}.
"""
import json
import os
import random
import sys


def main():
    cfg = json.load(open(sys.argv[1]))
    os.chdir(cfg["cwd"])
    if cfg.get("walk_seed") is not None:
        rng = random.Random(cfg["walk_seed"])
        real_walk, real_listdir = os.walk, os.listdir

        def walk(top, *a, **k):
            for d, dirs, files in real_walk(top, *a, **k):
                rng.shuffle(dirs)
                files = list(files)
                rng.shuffle(files)
                yield d, dirs, files

        def listdir(p="."):
            l = list(real_listdir(p))
            rng.shuffle(l)
            return l
        os.walk, os.listdir = walk, listdir
    if cfg.get("clock") is not None:
        import time
        t = float(cfg["clock"])
        time.time = lambda: t
    from harness import presv, kj
    fault = cfg.get("fault")
    counter = {"n": 0}
    if fault is not None or cfg.get("count_ops"):
        from harness import faults
        faults.install(counter, fault)
    ret = None
    err = None
    try:
        ret = presv.run_kind(cfg["kind"], cfg["outdir"], cfg["inp"])
    except BaseException as e:  # noqa
        err = repr(e)
    sys.stdout.write("\nRESULT " + json.dumps({"returned": ret, "ops": counter["n"], "error": err}) + "\n")


if __name__ == "__main__":
    main()
