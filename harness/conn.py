"""Shared by C14 and C13: the compiled probe around the real IConnection.cpp, generators of streams / chunkings,
the translation between probe lines and kmodel values."""
import os
import subprocess

from . import kj

HERE = os.path.dirname(os.path.abspath(__file__))
CPPDIR = os.path.join(kj.REPO, "kojen", "allplatforms", "CPP")
SAN = ["-fsanitize=address,undefined", "-fno-sanitize-recover=undefined"]
ENV = dict(os.environ, ASAN_OPTIONS="detect_leaks=1:abort_on_error=0:allocator_may_return_null=0:quarantine_size_mb=8:thread_local_quarantine_size_kb=64", UBSAN_OPTIONS="print_stacktrace=0")


def hx(b):
    return b.hex() if b else "-"


def unhx(s):
    return b"" if s == "-" else bytes.fromhex(s)


def compile_probe(outdir, src=None, extra_inc=(), extra_src=(), name="probe", sanitize=True, opt="-O1"):
    """g++ the probe against the real IConnection.cpp of KOJEN_REPO. Returns (path or None, compiler output)."""
    exe = os.path.join(outdir, name)
    cmd = ["g++", "-std=c++17", opt, "-g"] + (SAN if sanitize else []) + ["-I" + CPPDIR] + ["-I" + i for i in extra_inc] + \
          [src or os.path.join(HERE, "cxx", "conn_probe.cpp")] + list(extra_src) + [os.path.join(CPPDIR, "IConnection.cpp"), "-lpthread", "-o", exe]
    p = subprocess.run(cmd, stdout=subprocess.PIPE, stderr=subprocess.STDOUT, timeout=600)
    out = "\n".join(l for l in p.stdout.decode("utf-8", "replace").split("\n") if "WARNING conda" not in l)
    return (exe if p.returncode == 0 else None), out


class Probe:
    """Line-oriented client of the compiled probe; a crash (sanitizer report, signal) is returned as ('crash', text)."""

    def __init__(self, exe):
        self.exe = exe
        self.p = None
        self.start()

    def start(self):
        self.p = subprocess.Popen([self.exe], stdin=subprocess.PIPE, stdout=subprocess.PIPE, stderr=subprocess.PIPE, env=ENV)

    def ask(self, line, nlines=1):
        try:
            self.p.stdin.write((line + "\n").encode())
            self.p.stdin.flush()
            res = []
            for _ in range(nlines):
                l = self.p.stdout.readline().decode()
                if not l:
                    raise BrokenPipeError
                res.append(l.rstrip("\n"))
            return res
        except (BrokenPipeError, OSError):
            try:
                self.p.stdin.close()
            except OSError:
                pass
            err = self.p.stderr.read().decode("utf-8", "replace")
            self.p.wait()
            rc = self.p.returncode
            self.start()
            return [("crash", "exit=%s %s" % (rc, err[:1500]))]

    def batch(self, lines, per_line=1):
        """Many vectors at once (no crash expected): returns the list of output lines, or raises RuntimeError(text)."""
        p = subprocess.run([self.exe], input=("\n".join(lines) + "\n").encode(), stdout=subprocess.PIPE, stderr=subprocess.PIPE, env=ENV, timeout=3000)
        out = p.stdout.decode().split("\n")
        if out and out[-1] == "":
            out.pop()
        if p.returncode != 0:
            raise RuntimeError("probe died (exit %s) after %d result lines: %s" % (p.returncode, len(out), p.stderr.decode("utf-8", "replace")[:1500]))
        return out

    def close(self):
        try:
            self.p.stdin.close()
            self.p.wait(timeout=10)
        except Exception:  # noqa
            self.p.kill()


def parse_ok(line):
    """'ok <buf> <required> <n> <deliveries...>' -> (status, buf, required, [deliveries])"""
    if isinstance(line, tuple):
        return ("crash", b"", 0, [], line[1])
    t = line.split()
    n = int(t[3])
    return (t[0], unhx(t[1]), int(t[2]), [unhx(x) for x in t[4:4 + n]])


def model_outcome(v):
    """kmodel outcome value -> (status, buf, required, [deliveries])"""
    return (v[0].decode(), v[1], int(v[2] or b"0"), list(v[3]))


def cut(stream, mask):
    """bit i of mask set = cut after byte i."""
    res, start = [], 0
    for i in range(len(stream)):
        if i == len(stream) - 1 or (mask >> i) & 1:
            res.append(stream[start:i + 1])
            start = i + 1
    return res


def header(p, type_id, n):
    return bytes(p) + type_id.to_bytes(2, "little") + n.to_bytes(4, "little")


def message(p, type_id, payload):
    return header(p, type_id, len(payload)) + payload


def random_chunking(rng, stream, allow_empty=True):
    """Cut positions with a random density (from 'one chunk' to 'byte by byte'), occasionally an empty chunk."""
    dens = rng.choice([0.0, 0.05, 0.2, 0.5, 0.9, 1.0])
    res, cur = [], bytearray()
    for b in stream:
        cur.append(b)
        if rng.random() < dens:
            res.append(bytes(cur))
            cur = bytearray()
            if allow_empty and rng.random() < 0.03:
                res.append(b"")
    if cur:
        res.append(bytes(cur))
    return res


def coarse_chunking(rng, stream, maxcuts=12):
    """A few cut positions (for long streams)."""
    cuts = sorted({rng.randrange(len(stream) + 1) for _ in range(rng.randint(0, maxcuts))} | {0, len(stream)})
    return [stream[a:b] for a, b in zip(cuts, cuts[1:])] or [stream]


def biased_bytes(rng, p, n, exclude=None):
    """Bytes biased towards the two preamble bytes."""
    alpha = [p[0], p[1], p[0], p[1], 0, 8, 1, 0xFF] + [rng.randrange(256) for _ in range(4)]
    if exclude is not None:
        alpha = [a for a in alpha if a != exclude] or [(exclude + 1) % 256]
    return bytes(rng.choice(alpha) for _ in range(n))


def random_preamble(rng):
    k = rng.random()
    if k < 0.25:
        b = rng.randrange(256)
        return bytes([b, b])            # equal bytes
    if k < 0.35:
        return bytes([0, rng.randrange(256)])
    if k < 0.45:
        return bytes([rng.randrange(256), 0])
    return bytes([rng.randrange(256), rng.randrange(256)])


def wellformed_stream(rng, p, nmsgs=None, maxpayload=40, filler=True):
    """(items [(filler, msg)], tail) of a well-formed stream F0 M1 F1 ... Mn Fn."""
    n = rng.randint(0, 6) if nmsgs is None else nmsgs
    items = []
    for _ in range(n):
        f = biased_bytes(rng, p, rng.choice([0, 0, 0, 1, 2, 5, 20]), exclude=p[0]) if filler else b""
        size = rng.choice([0, 0, 1, 2, 3, 7, 8, 9, rng.randint(0, maxpayload)])
        m = message(p, rng.choice([0, 1, 2, 0xFFFF, p[0] | (p[1] << 8), rng.randrange(65536)]), biased_bytes(rng, p, size))
        items.append((f, m))
    tail = biased_bytes(rng, p, rng.choice([0, 0, 1, 3, 12]), exclude=p[0]) if filler else b""
    return items, tail


def stream_of(items, tail):
    return b"".join(f + m for f, m in items) + tail


OVERSIZE_PAYLOADS = [0xFFFFFFF8, 0xFFFFFFF9, 0xFFFFFFFB, 0xFFFFFFFE, 0xFFFFFFFF]   # > 0xFFFFFFFF - 8: discarded by the repaired code


def has_oversize_header(p, s):
    """A preamble followed (2 bytes later) by a PayloadSize field above 0xFFFFFFFF - 8 somewhere in the stream."""
    i = s.find(bytes(p))
    while i >= 0:
        if i + 8 <= len(s) and int.from_bytes(s[i + 4:i + 8], "little") > 0xFFFFFFFF - 8:
            return True
        i = s.find(bytes(p), i + 1)
    return False


def malformed_stream(rng, p, maxlen=60):
    """Garbage biased towards preamble bytes, truncated / oversized / lying headers (also PayloadSize fields that would wrap the
    32 bit message size, and the largest one that does not), whole messages in between."""
    out = bytearray()
    while len(out) < maxlen and rng.random() < 0.93:
        k = rng.random()
        if k < 0.3:
            out += biased_bytes(rng, p, rng.randint(1, 6))
        elif k < 0.45:
            out += bytes([p[0]])
        elif k < 0.6:
            out += bytes(p)
        elif k < 0.68:
            # a header the repaired code has to discard (fixed K-C14-1 / K-C14-2), then anything
            out += header(p, rng.randrange(4), rng.choice(OVERSIZE_PAYLOADS + [0xFFFFFFF7])) + biased_bytes(rng, p, rng.choice([0, 0, 3, 9]))
        elif k < 0.8:
            size = rng.choice([0, 1, 2, 5, 9])
            lie = rng.choice([0, 0, 1, -1, 3, 300, 70000])
            out += header(p, rng.randrange(4), max(0, size + lie)) + biased_bytes(rng, p, size)
        else:
            out += message(p, rng.randrange(4), biased_bytes(rng, p, rng.randint(0, 6)))
    return bytes(out)


# ---------------------------------------------------------------- __arm__ configuration (fixed fragment buffer)

ARM_FLAGS = ["-D__arm__", "-include", os.path.join(HERE, "stubs", "arm_prelude.h")]


def compile_probe_arm(outdir, name="probe_arm"):
    """The same probe source against the __arm__ branch of IConnection.cpp/.h (on x86 the define only selects the branch)."""
    exe = os.path.join(outdir, name)
    cmd = ["g++", "-std=c++17", "-O1", "-g", "-w"] + SAN + ARM_FLAGS + ["-I" + CPPDIR, os.path.join(HERE, "cxx", "conn_probe.cpp"),
                                                                      os.path.join(CPPDIR, "IConnection.cpp"), "-lpthread", "-o", exe]
    p = subprocess.run(cmd, stdout=subprocess.PIPE, stderr=subprocess.STDOUT, timeout=600)
    out = "\n".join(l for l in p.stdout.decode("utf-8", "replace").split("\n") if "WARNING conda" not in l)
    return (exe if p.returncode == 0 else None), out


def parse_arm(line):
    """'[Warning...]ok <buf> <required> <n> <deliveries...> | <cnt> <exc> <array>' -> (status, array, cnt, exc, required, [deliveries])"""
    if isinstance(line, tuple):
        return ("crash", b"", 0, False, 0, [], line[1])
    i = line.find("ok ")
    t = line[i:].split()
    n = int(t[3])
    k = 4 + n
    assert t[k] == "|", line[:200]
    return (t[0], unhx(t[k + 3]), int(t[k + 1]), t[k + 2] == "1", int(t[2]), [unhx(x) for x in t[4:4 + n]])


def model_arm(v):
    return (v[0].decode(), v[1], int(v[2] or b"0"), v[3] == b"1", int(v[4] or b"0"), list(v[5]))


def arm_sizes(rng, largest):
    """Payload sizes around the interesting limits: tiny, near the largest message size, beyond it, beyond the buffer."""
    return rng.choice([0, 1, 3, 7, 8, 20, max(0, largest - 9), max(0, largest - 8), max(0, largest - 7), largest, 300, 504, 505, 512,
                       600, rng.randint(0, 700)])


def arm_stream(rng, p, largest, fitting):
    """(items, tail): well-formed stream; fitting=True keeps every message within `largest` bytes."""
    items = []
    for _ in range(rng.randint(1, 6)):
        f = biased_bytes(rng, p, rng.choice([0, 0, 1, 4]), exclude=p[0])
        size = arm_sizes(rng, largest)
        if fitting:
            size = min(size, max(0, largest - 8))
        items.append((f, message(p, rng.randrange(4), biased_bytes(rng, p, size))))
    return items, biased_bytes(rng, p, rng.choice([0, 2]), exclude=p[0])


def chunking_within(rng, stream, maxlen):
    """Random chunking with every chunk at most maxlen bytes (>= 1)."""
    res, i = [], 0
    while i < len(stream):
        n = min(maxlen, rng.choice([1, 2, 7, 8, 9, maxlen, max(1, maxlen - 1), rng.randint(1, maxlen)]))
        res.append(stream[i:i + n])
        i += n
        if rng.random() < 0.02:
            res.append(b"")
    return res
