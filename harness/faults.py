"""Interception of every file-system mutating operation of a generator run (inside the generator's own process),
for the C05 operation-trace correspondence and fault injection.

ops counted: makedirs, open(for writing), write, close, replace, remove, copy.
fault = {"op": k, "mode": "exn"|"kill", "scope": "all"|"createoutput"} or a LIST of such (several faults in one run: the
operation numbers count attempted operations, a failed one included): operation number k (0-based, in the given scope) fails
BEFORE it takes effect: "exn" raises OSError(ENOSPC), "kill" ends the process at once (os._exit: buffers are lost).
"""
import builtins
import errno
import os
import shutil

TRACE = []        # operations inside createoutput
TRACE_ALL = []    # every intercepted operation of the run


def install(counter, fault=None):
    from kojen import cgen
    real_open, real_replace, real_makedirs, real_remove, real_copy = builtins.open, os.replace, os.makedirs, os.remove, shutil.copy
    real_rename, real_unlink, real_sendfile = os.rename, os.unlink, getattr(shutil, "_USE_CP_SENDFILE", None)
    state = {"in_co": False}
    counter.setdefault("n", 0)
    counter.setdefault("co", 0)

    faults = [] if fault is None else (fault if isinstance(fault, list) else [fault])
    for f in faults:
        f.setdefault("fired", False)

    kind_count = {}

    def op(kind, a="", b=""):
        k_all, k_co = counter["n"], counter["co"]
        in_scope_kind = None
        for f in faults:
            if f["fired"]:
                continue
            if "nth" in f:
                # {"kind": "open", "nth": j}: the j-th operation of that kind (in the given scope) fails
                if f.get("kind") != kind or (f.get("scope", "all") != "all" and not state["in_co"]):
                    continue
                if in_scope_kind is None:
                    in_scope_kind = kind_count.get((kind, f.get("scope", "all")), 0)
                    kind_count[(kind, f.get("scope", "all"))] = in_scope_kind + 1
                hit = (in_scope_kind == f["nth"])
            elif f.get("scope", "all") == "all":
                hit = (k_all == f["op"])
            else:
                hit = state["in_co"] and (k_co == f["op"])
            if hit:
                f["fired"] = True   # one-shot: the clean-up that follows an injected error is not failed again
                counter["n"] += 1   # the failed operation was attempted: later faults are indexed after it
                if state["in_co"]:
                    counter["co"] += 1
                if f["mode"] == "kill":
                    os._exit(9)
                raise OSError(errno.ENOSPC, "injected failure at op %s (%s %s)" % (f.get("op", "%s#%s" % (f.get("kind"), f.get("nth"))), kind, a))
        counter["n"] += 1
        TRACE_ALL.append([kind, a, b])
        if state["in_co"]:
            counter["co"] += 1
            TRACE.append([kind, a, b])

    class W:
        def __init__(self, f, path):
            self._f, self._p = f, path

        def write(self, data):
            op("write", self._p, data)
            return self._f.write(data)

        def writelines(self, lines):
            for l in lines:
                self.write(l)

        def __enter__(self):
            return self

        def __exit__(self, *a):
            self.close()
            return False

        def close(self):
            if not self._f.closed:
                try:
                    op("close", self._p)
                except OSError:
                    # a failing flush/close still releases the descriptor; what was buffered is lost
                    try:
                        os.close(self._f.fileno())
                    except OSError:
                        pass
                    raise
                self._f.close()

        def __getattr__(self, name):
            return getattr(self._f, name)

    def my_open(file, mode="r", *a, **k):
        if isinstance(mode, str) and any(c in mode for c in "wax+"):
            op("open", str(file))
            return W(real_open(file, mode, *a, **k), str(file))
        return real_open(file, mode, *a, **k)

    def my_replace(src, dst, *a, **k):
        op("rename", str(src), str(dst))
        return real_replace(src, dst, *a, **k)

    def my_makedirs(name, *a, **k):
        op("mkdirs", str(name))
        return real_makedirs(name, *a, **k)

    def my_remove(p, *a, **k):
        op("remove", str(p))
        return real_remove(p, *a, **k)

    def my_copy(src, dst, *a, **k):
        # shutil.copy = open(dst,'wb') + write + close (+ chmod): three failure points
        op("open", str(dst))
        with real_open(dst, "wb"):
            pass
        op("write", str(dst), "<copy of %s>" % os.path.basename(str(src)))
        op("close", str(dst))
        return real_copy(src, dst, *a, **k)

    def my_rename(src, dst, *a, **k):
        op("rename", str(src), str(dst))
        return real_rename(src, dst, *a, **k)

    def my_unlink(p, *a, **k):
        op("remove", str(p))
        return real_unlink(p, *a, **k)

    # other routes to the same primitives (os.rename, os.unlink, and shutil.move / copyfile, which are built from them and from open):
    # without the kernel fast path a copy is open + write(s) + close, so that an interruption inside it is a fault point like any other
    os.rename = my_rename
    os.unlink = my_unlink
    if real_sendfile is not None:
        shutil._USE_CP_SENDFILE = False
    builtins.open = my_open
    os.replace = my_replace
    os.makedirs = my_makedirs
    os.remove = my_remove
    shutil.copy = my_copy
    cgen.open = my_open  # modules that did `from x import *` keep the builtin lookup; set explicitly where present

    real_co = cgen.CGenerator.createoutput

    def co(self, filenames_to_lines):
        state["in_co"] = True
        try:
            return real_co(self, filenames_to_lines)
        finally:
            state["in_co"] = False

    cgen.CGenerator.createoutput = co

    def uninstall():
        builtins.open, os.replace, os.makedirs, os.remove, shutil.copy = real_open, real_replace, real_makedirs, real_remove, real_copy
        os.rename, os.unlink = real_rename, real_unlink
        if real_sendfile is not None:
            shutil._USE_CP_SENDFILE = real_sendfile
        cgen.CGenerator.createoutput = real_co
        if hasattr(cgen, "open"):
            del cgen.open
    return uninstall
