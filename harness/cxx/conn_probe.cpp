// Probe for C14: drives the REAL XKoJen::IConnection (compiled from $KOJEN_REPO/kojen/allplatforms/CPP/IConnection.cpp)
// with a recording message receiver / raw-data receiver.  One test vector per input line, one result line per vector.
//
//   M <p0p1 hex> <chunk hex|-> ...          feed the chunks to a fresh connection with a message receiver
//   S <p0p1> <buf hex|-> <required> <chunk> ...   the same from a given (m_fragment_buffer, m_fragment_buffer_bytes_required)
//   R <chunk hex|-> ...                      feed the chunks to a fresh connection with a raw-data receiver
//   A <p0p1 hex> <stream hex>                every cut set of the stream (mask bit i = cut after byte i), one result per mask
//   X <p0p1 hex> <stream hex> <n> <msg hex> ...   every cut set; compare with the expected deliveries inside the probe,
//                                            prints "X <cases> <failures> <first failing mask or ->"
//   L <n>                                    (__arm__ build) LargestMessageSize() of the receivers created from now on
// Built with -D__arm__ -include harness/stubs/arm_prelude.h the same source drives the __arm__ branch (fixed 512 byte buffer).
// Result of M/S/A:  ok <buf hex|-> <required> <n> <delivery hex|->...      Result of R: raw <n> <hex>...
#include "basetypes.h"
#include "IConnection.h"
#include "MsgHeader.h"
#include <cstdio>
#include <cstring>
#include <algorithm>
#include <iostream>
#include <memory>
#include <sstream>
#include <string>
#include <vector>

using namespace XKoJen;
typedef std::vector<uint8> Bytes;

static unsigned g_largest = 512;   // __arm__ only: what IMsgReceiver::LargestMessageSize() answers (command "L <n>")

struct Recorder : public IMsgReceiver, public IRawDataReceiver
{
    uint16 preamble = 0;
#ifdef __arm__
    uint16 LargestMessageSize() override { return (uint16)g_largest; }
#endif
    std::vector<Bytes> got;
    void OnMessageReceived(const uint8* data_buffer, const uint32& number_of_bytes) override
    {
        got.emplace_back(data_buffer, data_buffer + number_of_bytes);   // ASan checks that all these bytes are readable
    }
    void OnDataReceived(const uint8* data_buffer, const uint32& number_of_bytes) override
    {
        got.emplace_back(data_buffer, data_buffer + number_of_bytes);
    }
    uint16 Preamble() const override { return preamble; }
};

struct Conn : public IConnection
{
    bool SendData(const uint8*, const uint16&) override { return true; }
    void Feed(const Bytes& c)
    {
        // a heap copy of exactly the chunk, so that any read outside [data, data+count) is an ASan error
        uint8* p = new uint8[c.size() ? c.size() : 1];
        if (!c.empty()) memcpy(p, c.data(), c.size());
        OnDataReceived(p, (uint32)c.size());
        delete[] p;
    }
    // X mode: chunks are fed in place from one exact-size heap copy of the stream (reads past the END of the stream are ASan errors;
    // reads past the end of a chunk show as wrong deliveries)
    void FeedInPlace(const uint8* p, uint32 n) { OnDataReceived(p, n); }
#ifdef __arm__
    // the fixed fragment buffer is zeroed here so that runs are reproducible (the class leaves it uninitialised)
    Conn() { memset(m_fragment_buffer, 0, sizeof(m_fragment_buffer)); }
    void SetState(const Bytes& b, uint32 req)
    { memcpy(m_fragment_buffer, b.data(), std::min(b.size(), sizeof(m_fragment_buffer))); m_fragment_buffer_cnt = (uint16)b.size(); m_fragment_buffer_bytes_required = req; }
    Bytes Buf() const { size_t n = std::min<size_t>(m_fragment_buffer_cnt, sizeof(m_fragment_buffer)); return Bytes(m_fragment_buffer, m_fragment_buffer + n); }
    Bytes Array() const { return Bytes(m_fragment_buffer, m_fragment_buffer + sizeof(m_fragment_buffer)); }
    unsigned Cnt() const { return m_fragment_buffer_cnt; }
    bool Exc() const { return m_has_data_exceeding_fragment_buffer_size; }
#else
    void SetState(const Bytes& b, uint32 req) { m_fragment_buffer = b; m_fragment_buffer_bytes_required = req; }
    const std::vector<uint8>& Buf() const { return m_fragment_buffer; }
#endif
    uint32 Required() const { return m_fragment_buffer_bytes_required; }
};

static Bytes unhex(const std::string& s)
{
    Bytes b;
    if (s == "-") return b;
    for (size_t i = 0; i + 1 < s.size(); i += 2) b.push_back((uint8)std::stoul(s.substr(i, 2), nullptr, 16));
    return b;
}
static void hex(std::string& out, const Bytes& b)
{
    static const char* d = "0123456789abcdef";
    if (b.empty()) { out += '-'; return; }
    for (uint8 x : b) { out += d[x >> 4]; out += d[x & 15]; }
}
static void report(std::string& out, const Conn& c, const Recorder& r)
{
    out += "ok ";
    hex(out, c.Buf());
    out += ' ' + std::to_string(c.Required()) + ' ' + std::to_string(r.got.size());
    for (auto& m : r.got) { out += ' '; hex(out, m); }
#ifdef __arm__
    // arm: ... | <m_fragment_buffer_cnt> <m_has_data_exceeding_fragment_buffer_size> <whole fixed buffer>
    out += " | " + std::to_string(c.Cnt()) + ' ' + (c.Exc() ? '1' : '0') + ' ';
    hex(out, c.Array());
#endif
    out += '\n';
}
static uint16 preamble_of(const Bytes& p) { return (uint16)(p[0] | (p[1] << 8)); }

int main()
{
    std::string line, out;
    while (std::getline(std::cin, line))
    {
        std::istringstream is(line);
        std::string mode, tok;
        is >> mode;
        out.clear();
        if (mode == "M" || mode == "S")
        {
            is >> tok;
            Recorder r; r.preamble = preamble_of(unhex(tok));
            std::unique_ptr<Conn> cp(new Conn); Conn& c = *cp;   // on the heap: a write past the end of the object is an ASan error
            c.SetMsgReceiver(r);
            if (mode == "S") { std::string b, q; is >> b >> q; c.SetState(unhex(b), (uint32)std::stoul(q)); }
            while (is >> tok) c.Feed(unhex(tok));
            report(out, c, r);
        }
        else if (mode == "R")
        {
            Recorder r; Conn c; c.SetRawDataReceiver(r);
            while (is >> tok) c.Feed(unhex(tok));
            out += "raw " + std::to_string(r.got.size());
            for (auto& m : r.got) { out += ' '; hex(out, m); }
            out += '\n';
        }
        else if (mode == "A" || mode == "X")
        {
            std::string p, s; is >> p >> s;
            Bytes stream = unhex(s);
            uint16 pre = preamble_of(unhex(p));
            std::vector<Bytes> expect;
            if (mode == "X") { size_t n; is >> n; for (size_t i = 0; i < n; i++) { is >> tok; expect.push_back(unhex(tok)); } }
            size_t L = stream.size();
            uint64 masks = L ? (1ull << (L - 1)) : 1, failures = 0, first = 0;
            uint8* heap = new uint8[L ? L : 1];
            if (L) memcpy(heap, stream.data(), L);
            for (uint64 mask = 0; mask < masks; mask++)
            {
                Recorder r; r.preamble = pre;
                Conn c; c.SetMsgReceiver(r);
                size_t start = 0;
                for (size_t i = 0; i < L; i++)
                    if (i == L - 1 || (mask >> i) & 1)
                    {
                        if (mode == "A") c.Feed(Bytes(stream.begin() + start, stream.begin() + i + 1));
                        else c.FeedInPlace(heap + start, (uint32)(i + 1 - start));
                        start = i + 1;
                    }
                if (mode == "A") report(out, c, r);
                else if (!(r.got == expect && c.Buf().empty() && c.Required() == 0)) { if (!failures) first = mask; failures++; }
            }
            delete[] heap;
            if (mode == "X")
                out += "X " + std::to_string(masks) + ' ' + std::to_string(failures) + ' ' + (failures ? std::to_string(first) : std::string("-")) + '\n';
        }
        else if (mode == "L") { is >> g_largest; out += "L\n"; }
        else out += "?\n";
        fputs(out.c_str(), stdout);
        fflush(stdout);
    }
    return 0;
}
