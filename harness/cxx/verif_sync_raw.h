// Controlled-scheduler replacements for the std:: synchronisation types, RAW variant (C15 search mode).
// Unlike verif_sync.h (which mirrors the atomic steps of the Coq LTS) this shim keeps the primitives primitive, so that
// faults the LTS cannot express become schedulable:
//   * mutex::lock() is a yield point, enabled iff the mutex is free; ownership is tracked (critical sections may
//     contain yield points);
//   * condition_variable::wait(lk) = register as waiter, unlock (atomically, as the standard demands), YIELD until
//     notified -- or woken spuriously while the run's spurious-wake budget lasts --, then re-lock (a yield point);
//   * wait(lk, pred) is the standard loop `while (!pred()) wait(lk);` with one more yield point between the evaluation
//     of the predicate and the blocking, where a waker that does not take the mutex can slip in (lost wake-up);
//   * notify_one() marks the longest-waiting waiter, notify_all() all of them; nobody waiting => the notification is lost;
//   * atomic load/store, thread::join (enabled iff finished) are yield points as before.
// `no thread can move although the owner thread has not finished` = deadlock.
#pragma once
#include <algorithm>
#include <atomic>
#include <condition_variable>
#include <functional>
#include <memory>
#include <mutex>
#include <string>
#include <thread>
#include <vector>

namespace verif {

struct CThread {
    std::string name, label;
    std::function<bool()> enabled;      // may move (possibly only thanks to a spurious wake-up)
    std::function<bool()> strict;       // may move without a spurious wake-up
    bool parked = false, done = false;
    bool signalled = false;             // condition-variable notification pending
    std::thread real;
};

struct Sched {
    std::mutex m;
    std::condition_variable cv;
    std::vector<CThread*> threads;
    CThread* current = nullptr;
    int stores = 0;
    int spurious_left = 0;
    std::vector<std::string> notes;     // e.g. "W0 spurious wake-up"
    static Sched& get() { static Sched s; return s; }
    static CThread*& self() { static thread_local CThread* t = nullptr; return t; }

    void yield(const char* label, std::function<bool()> en = nullptr, std::function<bool()> strict = nullptr) {
        CThread* t = self();
        if (!t) return;
        std::unique_lock<std::mutex> lk(m);
        t->label = label;
        t->enabled = en ? en : std::function<bool()>([] { return true; });
        t->strict = strict ? strict : t->enabled;
        t->parked = true;
        if (current == t) current = nullptr;
        cv.notify_all();
        cv.wait(lk, [&] { return current == t; });
        t->parked = false;
    }
    CThread* spawn(const std::string& name, std::function<void()> body) {
        CThread* t = new CThread();
        t->name = name;
        { std::lock_guard<std::mutex> lk(m); threads.push_back(t); }
        t->real = std::thread([this, t, body] {
            self() = t;
            body();
            std::lock_guard<std::mutex> lk(m);
            t->done = true; t->parked = false;
            if (current == t) current = nullptr;
            cv.notify_all();
        });
        std::unique_lock<std::mutex> lk(m);
        cv.wait(lk, [&] { return t->parked || t->done; });
        return t;
    }
    std::vector<CThread*> enabled_threads(bool strict_only = false) {
        std::unique_lock<std::mutex> lk(m);
        std::vector<CThread*> res;
        for (CThread* t : threads) if (!t->done && t->parked && (strict_only ? t->strict() : t->enabled())) res.push_back(t);
        return res;
    }
    CThread* find(const std::string& n) { std::lock_guard<std::mutex> lk(m); for (CThread* t : threads) if (t->name == n) return t; return nullptr; }
    bool step(CThread* t) {
        std::unique_lock<std::mutex> lk(m);
        if (!t || t->done || !t->parked || !t->enabled()) return false;
        current = t;
        cv.notify_all();
        cv.wait(lk, [&] { return current == nullptr; });
        return true;
    }
};

inline void yield(const char* label, std::function<bool()> en = nullptr) { Sched::get().yield(label, en); }

struct mutex {
    CThread* owner = nullptr;
    void lock() { yield("Lock", [this] { return owner == nullptr; }); owner = Sched::self(); }
    void unlock() { owner = nullptr; }
};

template <class M> struct lock_guard {
    M& mx;
    explicit lock_guard(M& m) : mx(m) { mx.lock(); }
    ~lock_guard() { mx.unlock(); }
};
template <class M> struct unique_lock {
    M* mx; bool owns = false;
    explicit unique_lock(M& m) : mx(&m) { lock(); }
    ~unique_lock() { if (owns) unlock(); }
    void lock() { mx->lock(); owns = true; }
    void unlock() { mx->unlock(); owns = false; }
};

struct condition_variable {
    std::vector<CThread*> waiters;
    template <class L> void wait(L& lk) {
        CThread* t = Sched::self();
        t->signalled = false;
        waiters.push_back(t);
        lk.unlock();                                   // registered before the mutex is released: atomic unlock-and-block
        Sched& S = Sched::get();
        S.yield("CvWait", [t, &S] { return t->signalled || S.spurious_left > 0; }, [t] { return t->signalled; });
        if (!t->signalled) { S.spurious_left--; S.notes.push_back(t->name + " spurious wake-up"); }
        waiters.erase(std::remove(waiters.begin(), waiters.end(), t), waiters.end());
        t->signalled = false;
        lk.lock();
    }
    template <class L, class P> void wait(L& lk, P pred) {
        while (!pred()) { yield("PredFalse"); wait(lk); }
    }
    void notify_one() { for (CThread* t : waiters) if (!t->signalled) { t->signalled = true; break; } }
    void notify_all() { for (CThread* t : waiters) t->signalled = true; }
};

template <class T> struct atomic {
    T v;
    atomic(T x = T()) : v(x) {}
    operator T() { yield("Load"); return v; }
    atomic& operator=(T x) { yield("Store"); v = x; Sched::get().stores++; return *this; }
    T load() { yield("Load"); return v; }
    void store(T x) { yield("Store"); v = x; Sched::get().stores++; }
};

inline int& thread_counter() { static int n = 0; return n; }

struct thread {
    CThread* t = nullptr;
    thread() {}
    template <class F, class... A> explicit thread(F f, A... a) {
        int k = thread_counter()++;
        t = Sched::get().spawn("W" + std::to_string(k), [f, a...] { std::invoke(f, a...); });
    }
    thread(thread&& o) noexcept : t(o.t) { o.t = nullptr; }
    thread& operator=(thread&& o) noexcept { t = o.t; o.t = nullptr; return *this; }
    thread(const thread&) = delete;
    bool joinable() const { return t != nullptr; }
    void join() { CThread* x = t; yield("Join", [x] { return x->done; }); if (x->real.joinable()) x->real.join(); t = nullptr; }
};

}  // namespace verif
