// C15 schedule replay: the REAL headers (with std:: synchronisation replaced by verif::, see verif_sync.h) driven by a
// schedule of thread names.  usage: replay <workers> <scripts: "1,2;3"> <schedule: "P0 W0 D ...">
// Output per schedule entry:  "S <thread> <label> | <enabled after>"  or  "X <thread> | <enabled>" when it cannot move;
// then the run is drained and the handler log printed.
#include <cstdio>
#include <cstdlib>
#include <sstream>
#include <string>
#include <vector>
#include "verif_sync.h"
#include "threaded_dispatcher.h"

struct Item { int id; };
static std::vector<std::string> g_log;
static thread_local int g_worker = -1;

class Disp : public XKoJen::threaded_dispatcher<Item> {
public:
    Disp(size_t n) : XKoJen::threaded_dispatcher<Item>("replay", n) {}
    ~Disp() override { shutdown(); }
    void stop() { shutdown(); }
protected:
    void handle_dispatch(ptr_type item) override {
        std::string w = verif::Sched::self()->name.substr(1);
        g_log.push_back("B " + w + " " + std::to_string(item->id));
        verif::yield("HandlerEnd");
        g_log.push_back("E " + w + " " + std::to_string(item->id));
    }
};

static std::vector<std::string> split(const std::string& s, char c) {
    std::vector<std::string> r; std::string cur; std::istringstream is(s);
    while (std::getline(is, cur, c)) r.push_back(cur);
    return r;
}

static void print_enabled() {
    auto& S = verif::Sched::get();
    for (auto* t : S.enabled_threads()) printf(" %s", t->name.c_str());
    printf("\n");
}

int main(int argc, char** argv) {
    int workers = atoi(argv[1]);
    std::vector<std::vector<int>> scripts;
    for (auto& p : split(argv[2], ';')) { std::vector<int> sc; for (auto& x : split(p, ',')) if (!x.empty()) sc.push_back(atoi(x.c_str())); scripts.push_back(sc); }
    if (std::string(argv[2]).empty()) scripts.clear();
    std::vector<std::string> sched = split(argv[3], ' ');
    auto& S = verif::Sched::get();
    // the owner thread: constructs the dispatcher (spawning the workers), starts the producers, then destroys it
    S.spawn("D", [&] {
        Disp d(workers);
        for (size_t p = 0; p < scripts.size(); p++)
            S.spawn("P" + std::to_string(p), [&d, &S, &scripts, p] {
                for (size_t k = 0; k < scripts[p].size(); k++) {
                    int id = scripts[p][k];
                    verif::yield("Dispatch", [&S] { return S.stores == 0; });   // contract: no dispatch once destruction has begun
                    verif::Sched::merge_next_lock() = true;
                    if (k % 2) d.dispatch(Item{id}); else { Disp::ptr_type q(new Item{id}); d.dispatch(q); }
                }
            });
        d.stop();
        verif::yield("Destroyed", [] { return false; });          // the joins have returned; park for good
    });
    for (auto& n : sched) {
        if (n.empty()) continue;
        verif::CThread* t = S.find(n);
        std::string label = t ? t->label : "?";
        if (S.step(t)) printf("S %s %s |", n.c_str(), label.c_str()); else printf("X %s |", n.c_str());
        print_enabled();
    }
    // report, then drain (second, idempotent shutdown() of the destructor; unfinished producers are abandoned)
    printf("JOINED %d\n", (S.find("D") && S.find("D")->label == "Destroyed" && S.find("D")->parked) ? 1 : 0);
    for (auto& l : g_log) printf("LOG %s\n", l.c_str());
    fflush(stdout);
    _Exit(0);
}
