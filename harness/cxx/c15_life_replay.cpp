// C15 object-lifetime replay: the REAL headers (std:: synchronisation replaced by verif::, see verif_sync.h) with a DERIVED
// dispatcher destroyed by leaving its scope, driven by a schedule of thread names, against the lifetime LTS
// (Model/CxxLifetime.v).  -DLIFE_NOSHUTDOWN: the derived destructor does not call shutdown() (known finding K-C15-2).
// usage: life_replay <workers> <scripts "1,2;3"> <schedule "P0 W0 D ...">
// Output: "S <thread> <label> | <enabled after>" / "X <thread> | <enabled>", then HAZARD <0|1>, PART, DONE, LOG lines.
#include <cstdio>
#include <cstdlib>
#include <exception>
#include <sstream>
#include <string>
#include <vector>
#include "verif_sync.h"
#include "threaded_dispatcher.h"

struct Item { int id; };
static std::vector<std::string> g_log;
static bool g_destroying = false, g_hazard = false, g_done = false;
static int g_part = 0, g_in_handler = 0;

class Disp : public XKoJen::threaded_dispatcher<Item> {
public:
    Disp(size_t n) : XKoJen::threaded_dispatcher<Item>("life", n) {}
    ~Disp() override {
#ifndef LIFE_NOSHUTDOWN
        shutdown();
#endif
        verif::yield("Teardown");
        g_part = 1; if (g_in_handler) g_hazard = true;       // rest of the body and the derived members go away now
        verif::yield("Members");
        g_part = 2; if (g_in_handler) g_hazard = true;       // ~threaded_dispatcher is entered: vptr := base
    }
protected:
    void handle_dispatch(ptr_type item) override {
        std::string w = verif::Sched::self()->name.substr(1);
        if (g_part != 0) g_hazard = true;
        g_in_handler++;
        g_log.push_back("B " + w + " " + std::to_string(item->id));
        verif::yield("HandlerEnd");
        g_log.push_back("E " + w + " " + std::to_string(item->id));
        g_in_handler--;
    }
};

static std::vector<std::string> split(const std::string& s, char c) {
    std::vector<std::string> r; std::string cur; std::istringstream is(s);
    while (std::getline(is, cur, c)) r.push_back(cur);
    return r;
}

static void finish(bool pure_virtual) {
    printf("\nHAZARD %d\nPURE_VIRTUAL %d\nPART %d\nDONE %d\n", (g_hazard || pure_virtual) ? 1 : 0, pure_virtual ? 1 : 0, g_part, g_done ? 1 : 0);
    for (auto& l : g_log) printf("LOG %s\n", l.c_str());
    fflush(stdout);
    _Exit(0);
}
static void on_terminate() { finish(true); }     // pure virtual call: the vptr already points at the base class

int main(int argc, char** argv) {
    std::set_terminate(on_terminate);
    int workers = atoi(argv[1]);
    std::vector<std::vector<int>> scripts;
    if (!std::string(argv[2]).empty())
        for (auto& p : split(argv[2], ';')) { std::vector<int> sc; for (auto& x : split(p, ',')) if (!x.empty()) sc.push_back(atoi(x.c_str())); scripts.push_back(sc); }
    std::vector<std::string> sched = split(argv[3], ' ');
    auto& S = verif::Sched::get();
    S.spawn("D", [&] {
        {
            Disp d(workers);
            for (size_t p = 0; p < scripts.size(); p++)
                S.spawn("P" + std::to_string(p), [&d, &scripts, p] {
                    for (size_t k = 0; k < scripts[p].size(); k++) {
                        int id = scripts[p][k];
                        verif::yield("Dispatch", [] { return !g_destroying; });   // contract: no dispatch once the owner destroys
                        verif::Sched::merge_next_lock() = true;
                        if (k % 2) d.dispatch(Item{id}); else { Disp::ptr_type q(new Item{id}); d.dispatch(q); }
                    }
                });
            verif::yield("EnterDtor");
            g_destroying = true;
        }   // ~Disp, derived members, ~threaded_dispatcher -> shutdown()
        g_done = true;
        verif::yield("Destroyed", [] { return false; });
    });
    for (auto& n : sched) {
        if (n.empty()) continue;
        verif::CThread* t = S.find(n);
        std::string label = t ? t->label : "?";
        if (S.step(t)) printf("S %s %s |", n.c_str(), label.c_str()); else printf("X %s |", n.c_str());
        for (auto* e : S.enabled_threads()) printf(" %s", e->name.c_str());
        printf("\n");
        fflush(stdout);
    }
    finish(false);
}
