// Controlled-scheduler replacements for std::mutex / condition_variable / unique_lock / lock_guard / thread / atomic,
// substituted by sed into COPIES of threadsafe_queue.h and threaded_dispatcher.h for the C15 schedule replay.
// Exactly one controlled thread runs at a time; a thread parks at a yield point (announcing a label and an `enabled`
// predicate) until the driver grants it the baton.  Yield points: atomic load/store, lock_guard construction (the
// critical sections of push / wake_up; nothing inside a critical section yields, so the mutex is always free at a
// yield point), condition_variable::wait (enabled iff its predicate holds; a unique_lock construction is merged with
// the wait that follows it), thread::join (enabled iff the thread has finished), and the probe's own yields.
#pragma once
#include <atomic>
#include <condition_variable>
#include <functional>
#include <memory>
#include <mutex>
#include <string>
#include <thread>
#include <vector>

namespace verif {

struct CThread {
    std::string name;
    std::string label;                 // yield point it is parked at
    std::function<bool()> enabled;
    bool parked = false, done = false;
    std::thread real;
};

struct Sched {
    std::mutex m;
    std::condition_variable cv;
    std::vector<CThread*> threads;     // creation order
    CThread* current = nullptr;
    int stores = 0;                    // number of atomic stores executed (the probe's producers stop after the first)
    static Sched& get() { static Sched s; return s; }
    static CThread*& self() { static thread_local CThread* t = nullptr; return t; }
    static bool& merge_next_lock() { static thread_local bool b = false; return b; }

    void yield(const char* label, std::function<bool()> en = nullptr) {
        CThread* t = self();
        if (!t) return;                                // the driver itself is not controlled
        std::unique_lock<std::mutex> lk(m);
        t->label = label;
        t->enabled = en ? en : std::function<bool()>([] { return true; });
        t->parked = true;
        if (current == t) current = nullptr;
        cv.notify_all();
        cv.wait(lk, [&] { return current == t; });
        t->parked = false;
    }
    // create a controlled thread; returns when it is parked at its first yield point (or has finished)
    CThread* spawn(const std::string& name, std::function<void()> body) {
        CThread* t = new CThread();
        t->name = name;
        { std::lock_guard<std::mutex> lk(m); threads.push_back(t); }
        t->real = std::thread([this, t, body] {
            self() = t;
            body();
            std::lock_guard<std::mutex> lk(m);
            t->done = true; t->parked = false;
            if (current == t) current = nullptr;
            cv.notify_all();
        });
        std::unique_lock<std::mutex> lk(m);
        cv.wait(lk, [&] { return t->parked || t->done; });
        return t;
    }
    // ---- driver side
    std::vector<CThread*> enabled_threads() {
        std::unique_lock<std::mutex> lk(m);
        std::vector<CThread*> res;
        for (CThread* t : threads) if (!t->done && t->parked && t->enabled()) res.push_back(t);
        return res;
    }
    CThread* find(const std::string& n) { std::lock_guard<std::mutex> lk(m); for (CThread* t : threads) if (t->name == n) return t; return nullptr; }
    // let t run to its next yield point; false when it cannot move
    bool step(CThread* t) {
        std::unique_lock<std::mutex> lk(m);
        if (!t || t->done || !t->parked || !t->enabled()) return false;
        current = t;
        cv.notify_all();
        cv.wait(lk, [&] { return current == nullptr; });
        return true;
    }
};

inline void yield(const char* label, std::function<bool()> en = nullptr) { Sched::get().yield(label, en); }

struct mutex { void lock() {} void unlock() {} };

template <class M> struct lock_guard {
    explicit lock_guard(M&) { if (Sched::merge_next_lock()) Sched::merge_next_lock() = false; else yield("Lock"); }
};
template <class M> struct unique_lock { explicit unique_lock(M&) {} };

struct condition_variable {
    template <class L, class P> void wait(L&, P pred) { yield("Wait", [pred] { return pred(); }); }
    void notify_one() {}
    void notify_all() {}
};

template <class T> struct atomic {
    T v;
    atomic(T x = T()) : v(x) {}
    operator T() { yield("Load"); return v; }
    atomic& operator=(T x) { yield("Store"); v = x; Sched::get().stores++; return *this; }
};

inline int& thread_counter() { static int n = 0; return n; }

struct thread {
    CThread* t = nullptr;
    thread() {}
    template <class F, class... A> explicit thread(F f, A... a) {
        int k = thread_counter()++;
        t = Sched::get().spawn("W" + std::to_string(k), [f, a...] { std::invoke(f, a...); });
    }
    thread(thread&& o) noexcept : t(o.t) { o.t = nullptr; }
    thread& operator=(thread&& o) noexcept { t = o.t; o.t = nullptr; return *this; }
    thread(const thread&) = delete;
    bool joinable() const { return t != nullptr; }
    void join() { CThread* x = t; yield("Join", [x] { return x->done; }); if (x->real.joinable()) x->real.join(); t = nullptr; }
};

}  // namespace verif
