// C15 search probe: the REAL headers over the RAW scheduler shim (verif_sync_raw.h), explored WITHOUT the Coq model.
// usage: explore <workers> <scripts "1,2;3"> <mode> <spurious budget> random <seed> <max steps>
//        explore <workers> <scripts>          <mode> <spurious budget> sched  "<names...>" <tail steps>
// mode 0: the owner waits until every dispatched item has been handled, then destroys the dispatcher;
// mode 1: the owner may start the destruction at any moment (items may legitimately stay unhandled).
// mode 2: as mode 0, and every item is a RENDEZVOUS job: the k-th handler entered returns only when (k / workers + 1) * workers
//         handlers have been entered -- so a consumer that sleeps through a push (lost wake-up) shows as "no thread can move".
// Output: "T <thread> <label>" per step, notes, then a verdict block read by harness/c15search.py:
//   WORKER_EXIT_ALIVE <name> <step>   a worker left its loop before the destruction began
//   DEADLOCK <step> <thread:label ...> no thread can move (without a spurious wake-up) and the owner has not finished
//   DONE <0|1>                        the owner has finished (destructor returned)
//   HANDLED <n> OF <total>, LOG lines (B/E worker item)
//   HAZARD <what>                     object lifetime: the virtual handle_dispatch was called, or the derived handler was
//                                     still running, when the derived part of the dispatcher was no longer alive
// Object lifetime: the dispatcher is destroyed by leaving its scope (C++ order: ~Disp body, derived members,
// ~threaded_dispatcher -> shutdown()).  Default: ~Disp calls shutdown() first thing (the protocol);
// -DLIFE_NOSHUTDOWN: it does not (known finding K-C15-2).  The derived teardown is a yield point of the owner.
#include <exception>
#include <cstdio>
#include <cstdlib>
#include <random>
#include <sstream>
#include <string>
#include <vector>
#include "verif_sync_raw.h"
#include "threaded_dispatcher.h"

struct Item { int id; };
static std::vector<std::string> g_log;
static int g_handled = 0, g_total = 0;
static bool g_destroying = false;      // the owner has decided to destroy the dispatcher (set by the probe, not read off the headers)
static int g_mode = 0, g_workers = 0, g_arrived = 0;
static int g_part = 0;                 // derived part of the dispatcher: 0 alive, 1 being destroyed, 2 destroyed
static std::string g_hazard;
static void hazard(const std::string& what) { if (g_hazard.empty()) g_hazard = what; }

class Disp : public XKoJen::threaded_dispatcher<Item> {
public:
    Disp(size_t n) : XKoJen::threaded_dispatcher<Item>("explore", n) {}
    ~Disp() override {
#ifndef LIFE_NOSHUTDOWN
        shutdown();                                   // the protocol: stop and join the workers before anything else
#endif
        g_part = 1;                                   // rest of the destructor body, then the derived members
        verif::yield("DerivedTeardown");
        g_part = 2;                                   // next: ~threaded_dispatcher (vptr := base, handle_dispatch pure)
    }
protected:
    void handle_dispatch(ptr_type item) override {
        std::string w = verif::Sched::self()->name.substr(1);
        if (g_part != 0) hazard("W" + w + " calls the virtual handle_dispatch(item " + std::to_string(item->id) + ") while the derived part is being destroyed");
        g_log.push_back("B " + w + " " + std::to_string(item->id));
        if (g_mode == 2) {
            int need = (g_arrived++ / g_workers + 1) * g_workers;
            verif::yield("Rendezvous", [need] { return g_arrived >= need; });
        }
        verif::yield("HandlerEnd");
        if (g_part != 0) hazard("W" + w + " is inside the derived handler (item " + std::to_string(item->id) + ") while the derived part is being destroyed");
        g_log.push_back("E " + w + " " + std::to_string(item->id));
        g_handled++;
    }
};

static std::vector<std::string> split(const std::string& s, char c) {
    std::vector<std::string> r; std::string cur; std::istringstream is(s);
    while (std::getline(is, cur, c)) r.push_back(cur);
    return r;
}

static void on_terminate() {      // a pure virtual call (the vptr already points at the base class) ends here
    printf("HAZARD a worker called handle_dispatch after the derived part was destroyed: pure virtual method called\nDONE 0\nHANDLED %d OF %d\n", g_handled, g_total);
    fflush(stdout);
    _Exit(0);
}

int main(int argc, char** argv) {
    std::set_terminate(on_terminate);
    int workers = atoi(argv[1]);
    std::vector<std::vector<int>> scripts;
    if (!std::string(argv[2]).empty())
        for (auto& p : split(argv[2], ';')) { std::vector<int> sc; for (auto& x : split(p, ',')) if (!x.empty()) sc.push_back(atoi(x.c_str())); scripts.push_back(sc); }
    for (auto& sc : scripts) g_total += (int)sc.size();
    int mode = atoi(argv[3]);
    g_mode = mode; g_workers = workers;
    auto& S = verif::Sched::get();
    S.spurious_left = atoi(argv[4]);
    bool random = std::string(argv[5]) == "random";
    std::vector<std::string> sched;
    unsigned seed = 0; int max_steps = 0;
    if (random) { seed = (unsigned)atoi(argv[6]); max_steps = atoi(argv[7]); }
    else { for (auto& n : split(argv[6], ' ')) if (!n.empty()) sched.push_back(n); max_steps = (int)sched.size() + atoi(argv[7]); }
    bool owner_done = false;
    S.spawn("D", [&] {
        {
            Disp d(workers);
            for (size_t p = 0; p < scripts.size(); p++)
                S.spawn("P" + std::to_string(p), [&d, &S, &scripts, p] {
                    for (size_t k = 0; k < scripts[p].size(); k++) {
                        int id = scripts[p][k];
                        verif::yield("Dispatch", [] { return !g_destroying; });   // contract: no dispatch once destruction has begun
                        if (k % 2) d.dispatch(Item{id}); else { Disp::ptr_type q(new Item{id}); d.dispatch(q); }
                    }
                });
            if (mode == 0 || mode == 2) verif::yield("AwaitHandled", [] { return g_handled == g_total; });
            else verif::yield("BeginDestroy");
            g_destroying = true;
        }   // ~Disp, derived members, ~threaded_dispatcher
        owner_done = true;
        verif::yield("Destroyed", [] { return false; });
    });
    std::mt19937 rng(seed);
    std::string last;
    int step = 0;
    std::string verdict_exit, verdict_dead;
    for (; step < max_steps; step++) {
        // a worker that has finished although the destruction has not begun
        if (verdict_exit.empty() && !g_destroying)
            for (auto* t : S.threads) if (t->name[0] == 'W' && t->done) { verdict_exit = t->name + " " + std::to_string(step); break; }
        auto en = S.enabled_threads(false);
        auto strict = S.enabled_threads(true);
        if (strict.empty() && !owner_done && verdict_dead.empty()) {
            std::string where;
            for (auto* t : S.threads) if (!t->done) where += " " + t->name + ":" + t->label;
            verdict_dead = std::to_string(step) + where;
        }
        if (en.empty()) break;
        verif::CThread* pick = nullptr;
        if (random || step >= (int)sched.size()) {
            if (!random) {                                   // fair tail after an explicit schedule: round-robin
                pick = en[step % en.size()];
            } else {
                for (auto* t : en) if (t->name == last && (rng() % 100) < 60) pick = t;
                if (!pick) pick = en[rng() % en.size()];
            }
        } else {
            pick = S.find(sched[step]);
            bool ok = false; for (auto* t : en) if (t == pick) ok = true;
            if (!ok) { printf("X %s\n", sched[step].c_str()); continue; }
        }
        std::string label = pick->label;
        last = pick->name;
        S.step(pick);
        printf("T %s %s\n", last.c_str(), label.c_str());
    }
    if (verdict_exit.empty() && !g_destroying)
        for (auto* t : S.threads) if (t->name[0] == 'W' && t->done) { verdict_exit = t->name + " " + std::to_string(step); break; }
    for (auto& n : S.notes) printf("NOTE %s\n", n.c_str());
    if (!verdict_exit.empty()) printf("WORKER_EXIT_ALIVE %s\n", verdict_exit.c_str());
    if (!verdict_dead.empty()) printf("DEADLOCK %s\n", verdict_dead.c_str());
    if (!g_hazard.empty()) printf("HAZARD %s\n", g_hazard.c_str());
    printf("ENABLED");
    for (auto* t : S.enabled_threads(false)) printf(" %s", t->name.c_str());
    printf("\nDONE %d\nHANDLED %d OF %d\n", owner_done ? 1 : 0, g_handled, g_total);
    for (auto& l : g_log) printf("LOG %s\n", l.c_str());
    fflush(stdout);
    _Exit(0);
}
