// C15 stress probe: threaded_dispatcher with 1..m workers, k producers, destruction while busy.
// args: workers producers items mode(0: destroy after all handled, 1: destroy while busy) handler_delay_us
// -DVARIANT_SHUTDOWN: the derived destructor calls shutdown(); -DVARIANT_NOSHUTDOWN: it does not (known hazard).
#include <atomic>
#include <chrono>
#include <cstdio>
#include <cstdlib>
#include <string>
#include <thread>
#include <vector>
#include <mutex>
#include "threaded_dispatcher.h"

struct Item { int producer; int seq; };

static std::mutex g_log_m;
static std::vector<Item> g_log;              // handler call log (item, in handling order)
static std::atomic<int> g_in_handler{0};
static std::atomic<int> g_overlap{0};
static int g_delay_us = 0;

class Disp : public XKoJen::threaded_dispatcher<Item> {
public:
    Disp(size_t n) : XKoJen::threaded_dispatcher<Item>("probe", n) {}
#ifdef VARIANT_SHUTDOWN
    ~Disp() override { shutdown(); }      // the contract: stop the workers before the derived part goes away
#endif
protected:
    void handle_dispatch(ptr_type item) override {
        if (g_in_handler.fetch_add(1) != 0) g_overlap++;
        if (g_delay_us) std::this_thread::sleep_for(std::chrono::microseconds(g_delay_us));
        { std::lock_guard<std::mutex> lk(g_log_m); g_log.push_back(*item); }
        g_in_handler.fetch_sub(1);
    }
};

int main(int argc, char** argv) {
    int workers = argc > 1 ? atoi(argv[1]) : 1;
    int producers = argc > 2 ? atoi(argv[2]) : 2;
    int items = argc > 3 ? atoi(argv[3]) : 100;
    int mode = argc > 4 ? atoi(argv[4]) : 0;      // 0: wait until all handled, then destroy; 1: destroy while items are queued
    g_delay_us = argc > 5 ? atoi(argv[5]) : 0;
    {
        Disp d(workers);
        std::vector<std::thread> ps;
        for (int p = 0; p < producers; p++)
            ps.emplace_back([&d, p, items] { for (int i = 0; i < items; i++) { if (i % 2) d.dispatch(Item{p, i}); else { Disp::ptr_type q(new Item{p, i}); d.dispatch(q); } } });
        for (auto& t : ps) t.join();
        if (mode == 0) {
            for (int spin = 0; spin < 200000; spin++) {
                { std::lock_guard<std::mutex> lk(g_log_m); if ((int)g_log.size() == producers * items) break; }
                std::this_thread::sleep_for(std::chrono::microseconds(50));
            }
        }
    }   // ~Disp: must terminate
    std::lock_guard<std::mutex> lk(g_log_m);
    printf("handled %zu overlap %d\n", g_log.size(), g_overlap.load());
    for (auto& it : g_log) printf("%d %d\n", it.producer, it.seq);
    return 0;
}
