// C15 stress probe: threaded_dispatcher with 1..m workers, k producers, destruction while busy.
// args: workers producers items mode(0: destroy after all handled, 1: destroy while busy, 2: rendezvous) handler_delay_us
// mode 2 (multi-worker): flood, wait until handled (bounded), then dispatch one RENDEZVOUS job per worker: a job returns only
//   when `workers` jobs are inside the handler at the same time (or after 1.2 s) -- so the number of workers still alive is observable.
// -DVARIANT_SHUTDOWN: the derived destructor calls shutdown(); -DVARIANT_NOSHUTDOWN: it does not (known hazard).
#include <atomic>
#include <chrono>
#include <cstdio>
#include <cstdlib>
#include <string>
#include <thread>
#include <vector>
#include <mutex>
#include <condition_variable>
#include "threaded_dispatcher.h"

struct Item { int producer; int seq; };

static std::mutex g_log_m;
static std::vector<Item> g_log;              // handler call log (item, in handling order)
static std::atomic<int> g_in_handler{0};
static std::atomic<int> g_overlap{0};
static int g_delay_us = 0;
// rendezvous jobs (producer == -1)
static std::mutex g_rv_m;
static std::condition_variable g_rv_cv;
static int g_rv_inside = 0, g_rv_max = 0, g_rv_need = 0, g_rv_finished = 0;

class Disp : public XKoJen::threaded_dispatcher<Item> {
public:
    Disp(size_t n) : XKoJen::threaded_dispatcher<Item>("probe", n) {}
#ifdef VARIANT_SHUTDOWN
    ~Disp() override { shutdown(); }      // the contract: stop the workers before the derived part goes away
#endif
protected:
    void handle_dispatch(ptr_type item) override {
        if (item->producer == -1) {
            std::unique_lock<std::mutex> lk(g_rv_m);
            g_rv_inside++;
            if (g_rv_inside > g_rv_max) g_rv_max = g_rv_inside;
            g_rv_cv.notify_all();
            g_rv_cv.wait_for(lk, std::chrono::milliseconds(1200), [] { return g_rv_max >= g_rv_need; });
            g_rv_inside--;
            g_rv_finished++;
            g_rv_cv.notify_all();
            return;
        }
        if (g_in_handler.fetch_add(1) != 0) g_overlap++;
        if (g_delay_us) std::this_thread::sleep_for(std::chrono::microseconds(g_delay_us));
        { std::lock_guard<std::mutex> lk(g_log_m); g_log.push_back(*item); }
        g_in_handler.fetch_sub(1);
    }
};

int main(int argc, char** argv) {
    int workers = argc > 1 ? atoi(argv[1]) : 1;
    int producers = argc > 2 ? atoi(argv[2]) : 2;
    int items = argc > 3 ? atoi(argv[3]) : 100;
    int mode = argc > 4 ? atoi(argv[4]) : 0;      // 0: wait until all handled, then destroy; 1: destroy while items are queued
    g_delay_us = argc > 5 ? atoi(argv[5]) : 0;
    {
        Disp d(workers);
        std::vector<std::thread> ps;
        for (int p = 0; p < producers; p++)
            ps.emplace_back([&d, p, items, mode] { for (int i = 0; i < items; i++) {
                if (i % 2) d.dispatch(Item{p, i}); else { Disp::ptr_type q(new Item{p, i}); d.dispatch(q); }
                // mode 2: trickle, so that the workers keep falling asleep on the empty queue and are woken one by one
                if (mode == 2 && i % 3 != 2) { if (i % 2) std::this_thread::yield(); else std::this_thread::sleep_for(std::chrono::microseconds(1 + (i * 7 + p) % 40)); }
            } });
        for (auto& t : ps) t.join();
        if (mode == 0 || mode == 2) {
            for (int spin = 0; spin < (mode == 2 ? 40000 : 200000); spin++) {
                { std::lock_guard<std::mutex> lk(g_log_m); if ((int)g_log.size() == producers * items) break; }
                std::this_thread::sleep_for(std::chrono::microseconds(50));
            }
        }
        if (mode == 2) {
            { std::lock_guard<std::mutex> lk(g_rv_m); g_rv_need = workers; }
            for (int w = 0; w < workers; w++) d.dispatch(Item{-1, w});
            std::unique_lock<std::mutex> lk(g_rv_m);
            g_rv_cv.wait_for(lk, std::chrono::seconds(6), [workers] { return g_rv_finished >= workers; });
        }
    }   // ~Disp: must terminate
    std::lock_guard<std::mutex> lk(g_log_m);
    printf("handled %zu overlap %d alive %d of %d\n", g_log.size(), g_overlap.load(), mode == 2 ? g_rv_max : workers, workers);
    for (auto& it : g_log) printf("%d %d\n", it.producer, it.seq);
    return 0;
}
