"""C15 search without the model: the REAL headers over the RAW scheduler shim (harness/cxx/verif_sync_raw.h: mutex
ownership, condition-variable waiter sets, spurious wake-ups on a budget, a yield point between the wait predicate and
the blocking) explored under random schedules; verdicts come from the probe's own observation (a worker that left its
loop while the dispatcher is alive; no thread can move although the owner has not finished) and from the independent
handler-log oracle.  Needs neither Gen/CxxSync.v nor the extracted LTS, so it also runs when the translator refuses the
headers.  A failing run is re-executed from its explicit schedule before it is reported (deterministic replay)."""
import json
import os

from . import kj
from .check import VERIF
from .props.c15 import sh
from .c15replay import SUBST

CXX = os.path.join(VERIF, "harness", "cxx")
HDR = os.path.join(kj.REPO, "kojen", "allplatforms", "CPP")

SCENARIOS = [  # (workers, scripts, mode, spurious budget)
    (1, [[1]], 0, 0), (1, [[1, 2]], 1, 0), (1, [[1, 2]], 0, 1), (1, [[1], [2]], 0, 0), (2, [[1, 2]], 0, 0),
    (2, [[1, 2], [3]], 0, 0), (2, [[1, 2, 3]], 1, 0), (2, [[1, 2]], 0, 1), (3, [[1, 2], [3, 4]], 0, 0), (3, [[1, 2], [3, 4]], 1, 1),
    (1, [], 1, 0), (2, [], 1, 1),
    (2, [[1, 2]], 2, 0), (2, [[1], [2]], 2, 0), (3, [[1, 2, 3]], 2, 0), (2, [[1, 2, 3, 4]], 2, 0),      # rendezvous jobs
]


def build(d, noshutdown=False):
    for f in ("threadsafe_queue.h", "threaded_dispatcher.h"):
        with open(os.path.join(HDR, f)) as fh:
            text = fh.read()
        for a, b in SUBST:
            text = text.replace(a, b)
        with open(os.path.join(d, f), "w") as fh:
            fh.write(text)
    out = os.path.join(d, "explore_ns" if noshutdown else "explore")
    flags = ["-DLIFE_NOSHUTDOWN=1"] if noshutdown else []
    rc, so, se = sh(["g++", "-std=c++17", "-O1", "-g"] + flags + ["-I" + d, "-I" + CXX, os.path.join(CXX, "c15_explore.cpp"), "-o", out, "-pthread"], timeout=300)
    return (out, "") if rc == 0 else (None, (so + se)[-3000:])


def sarg(scripts):
    return ";".join(",".join(str(i) for i in sc) for sc in scripts)


def parse(so):
    res = {"trace": [], "log": [], "notes": [], "exit_alive": None, "deadlock": None, "done": None, "handled": None, "total": None}
    for line in so.split("\n"):
        p = line.split()
        if not p:
            continue
        if p[0] == "T":
            res["trace"].append((p[1], p[2]))
        elif p[0] == "NOTE":
            res["notes"].append(line[5:])
        elif p[0] == "WORKER_EXIT_ALIVE":
            res["exit_alive"] = (p[1], int(p[2]))
        elif p[0] == "DEADLOCK":
            res["deadlock"] = (int(p[1]), p[2:])
        elif p[0] == "ENABLED":
            res["enabled"] = p[1:]
        elif p[0] == "HAZARD":
            res["hazard"] = line[7:]
        elif p[0] == "DONE":
            res["done"] = p[1] == "1"
        elif p[0] == "HANDLED":
            res["handled"], res["total"] = int(p[1]), int(p[3])
        elif p[0] == "LOG":
            res["log"].append((p[1], int(p[2]), int(p[3])))
    return res


def judge(r, workers, scripts, mode):
    """The property read off one controlled run of the real headers.  None or (finding key, description, cut)."""
    if r["done"] is None:
        return ("c15:explore:crash", "exploration probe crashed or printed no verdict", None)
    if r.get("hazard"):
        return ("c15:explore:lifetime_hazard", "object lifetime: " + r["hazard"], None)
    if r["exit_alive"]:
        w, step = r["exit_alive"]
        return ("c15:explore:worker_exit_alive", "worker %s left its loop at step %d although the dispatcher is alive (destruction not begun)%s"
                % (w, step, "; " + "; ".join(r["notes"]) if r["notes"] else ""), step)
    if r["deadlock"]:
        step, where = r["deadlock"]
        return ("c15:explore:deadlock", "no thread can move at step %d and the owner has not finished (lost wake-up / hang): %s" % (step, " ".join(where)), step)
    log = r["log"]
    begun = [i for (k, _w, i) in log if k == "B"]
    if len(set(begun)) != len(begun):
        return ("c15:explore:twice", "item handed to the handler twice: %r" % begun, None)
    if not set(begun) <= {i for sc in scripts for i in sc}:
        return ("c15:explore:alien", "handler received an item nobody dispatched", None)
    if workers == 1:
        for j in range(0, len(log), 2):
            if log[j][0] != "B" or (j + 1 < len(log) and (log[j + 1][0] != "E" or log[j + 1][2] != log[j][2])):
                return ("c15:explore:overlap", "handler calls overlap with one worker: %r" % (log,), None)
        for sc in scripts:
            pos = [begun.index(i) for i in sc if i in begun]
            if pos != sorted(pos):
                return ("c15:explore:order", "items of one producer handled out of dispatch order: %r" % begun, None)
    if mode in (0, 2) and r["done"] and r["handled"] != r["total"]:
        return ("c15:explore:unhandled", "owner waited for completion, yet only %d of %d items were handled" % (r["handled"], r["total"]), None)
    if not r["done"]:
        return ("c15:explore:no_termination", "the destructor has not returned after the step budget", None)
    return None


def explore_once(binary, workers, scripts, mode, spurious, seed=None, schedule=None, steps=500):
    if schedule is None:
        cmd = [binary, str(workers), sarg(scripts), str(mode), str(spurious), "random", str(seed), str(steps)]
    else:
        cmd = [binary, str(workers), sarg(scripts), str(mode), str(spurious), "sched", " ".join(schedule), str(steps)]
    rc, so, se = sh(cmd, timeout=30)
    if rc is None:
        return {"done": None, "trace": [], "log": [], "notes": ["probe timed out"], "exit_alive": None, "deadlock": None, "handled": 0, "total": 0}
    return parse(so)


LIFE_SCENARIOS = [(1, [[1]], 1), (2, [[1, 2], [3]], 1), (1, [[1, 2]], 0), (3, [[1, 2, 3]], 1), (2, [[1, 2, 3, 4]], 0)]


def lifetime(ctx, d, searching):
    """The derived probe class that does NOT call shutdown() in its destructor must keep reproducing the known hazard
    K-C15-2 (virtual call / running handler on a dying derived part); the default class that does is judged with the rest
    (any HAZARD there is a violation)."""
    binary, err = build(d, noshutdown=True)
    if binary is None:
        ctx.tie_broken("exploration probe (derived class without shutdown()) does not compile", err)
        return
    n = 600 if searching else 240
    hits = 0
    for k in range(n):
        workers, scripts, mode = LIFE_SCENARIOS[k % len(LIFE_SCENARIOS)]
        seed = ctx.rng.randint(1, 10 ** 6)
        r = explore_once(binary, workers, scripts, mode, 0, seed=seed)
        ctx.case(("explore-noshutdown", workers, json.dumps(scripts), mode, seed), nontrivial=True)
        ctx.count("explore:noshutdown_runs")
        if r.get("hazard"):
            hits += 1
            ctx.count("explore:noshutdown_hazard_reproduced")
            if hits == 1:
                ctx.violation("object lifetime (derived destructor without shutdown()): " + r["hazard"],
                              {"explore": True, "noshutdown": True, "workers": workers, "scripts": scripts, "mode": mode, "spurious": 0,
                               "schedule": [t for t, _l in r["trace"]], "finding_key": "c15:vptr_race_on_destruction", "detail": r["hazard"]})
            if hits >= 5:
                break
    if not hits:
        ctx.tie_broken("known finding K-C15-2 no longer reproduces in the explorer: %d schedules of a derived class without shutdown() "
                       "showed no virtual call on a dying object (retire the finding or repair the probe)" % n)


def run(ctx, n_quick=60, n_search=2500):
    searching = bool(ctx.broken) or not ctx.quick
    n = n_search if searching else n_quick
    with kj.scratch() as d:
        binary, err = build(d)
        if binary is None:
            ctx.tie_broken("exploration probe does not compile against the current headers with the raw scheduler shim", err)
            return
        lifetime(ctx, d, searching)
        found = 0
        for k in range(n):
            workers, scripts, mode, spurious = SCENARIOS[k % len(SCENARIOS)]
            seed = ctx.rng.randint(1, 10 ** 6)
            r = explore_once(binary, workers, scripts, mode, spurious, seed=seed)
            ctx.case(("explore", workers, json.dumps(scripts), mode, spurious, seed), nontrivial=len({t for t, _l in r["trace"]}) >= 2)
            ctx.count("explore:random_runs")
            if r["notes"]:
                ctx.count("explore:runs_with_spurious_wakeup")
            bad = judge(r, workers, scripts, mode)
            if not bad:
                continue
            key, what, cut = bad
            sched = [t for t, _l in r["trace"]]
            if cut is not None:
                sched = sched[:cut]
            # deterministic replay from the explicit schedule (plus a fair tail) before reporting
            r2 = explore_once(binary, workers, scripts, mode, spurious, schedule=sched, steps=300)
            bad2 = judge(r2, workers, scripts, mode)
            replay = {"explore": True, "workers": workers, "scripts": scripts, "mode": mode, "spurious": spurious, "schedule": sched,
                      "seed_of_random_run": seed, "finding_key": key, "detail": what,
                      "reproduced_from_schedule": bool(bad2), "labels": ["%s:%s" % tl for tl in r["trace"][:len(sched)]][-40:]}
            ctx.violation(what, replay)
            found += 1
            if found >= 4:
                return
        if searching and not found:
            for (workers, scripts, mode, spurious, pre) in [(1, [[1]], 0, 0, 3), (1, [[1]], 0, 1, 2), (2, [[1, 2]], 0, 0, 2), (2, [[1]], 1, 0, 2)]:
                bad, sched = enumerate_runs(ctx, binary, workers, scripts, mode, spurious, pre, 500 if ctx.quick else 3000)
                if bad:
                    key, what, _cut = bad
                    ctx.violation(what, {"explore": True, "workers": workers, "scripts": scripts, "mode": mode, "spurious": spurious,
                                         "schedule": sched, "finding_key": key, "detail": what, "enumerated": True})
                    return


def enumerate_runs(ctx, binary, workers, scripts, mode, spurious, max_preempt, limit):
    """All schedules with at most max_preempt preemptions, by re-execution of prefixes (no model): the probe reports the
    threads able to move after an explicit schedule.  Every node is judged; returns the first failing (verdict, schedule)."""
    stack = [([], max_preempt)]
    nodes = 0
    while stack and nodes < limit:
        sched, budget = stack.pop()
        nodes += 1
        r = explore_once(binary, workers, scripts, mode, spurious, schedule=sched, steps=0)
        ctx.case(("explore-enum", workers, json.dumps(scripts), mode, spurious, tuple(sched)), nontrivial=len(set(sched)) >= 2)
        en = r.get("enabled", [])
        bad = judge(r, workers, scripts, mode) if (r["exit_alive"] or r["deadlock"] or not en) else None
        if bad and bad[0] != "c15:explore:no_termination":
            return bad, sched
        if not en or len(sched) > 70:
            continue
        last = sched[-1] if sched else None
        if last in en:
            ch = [(last, budget)] + ([(x, budget - 1) for x in en if x != last] if budget > 0 else [])
        else:
            ch = [(x, budget) for x in en]
        for x, b in reversed(ch):
            stack.append((sched + [x], b))
    ctx.count("explore:enumerated_nodes", nodes)
    return None, None


def replay(ctx, data):
    with kj.scratch() as d:
        binary, err = build(d, noshutdown=bool(data.get("noshutdown")))
        if binary is None:
            print("  exploration probe does not compile")
            return False
        r = explore_once(binary, data["workers"], data["scripts"], data["mode"], data["spurious"], schedule=data["schedule"], steps=300)
        bad = judge(r, data["workers"], data["scripts"], data["mode"])
        if bad:
            print("  " + bad[1])
        return bad is None
