"""Function-level correspondence between kojen's template engine (cgen.py) and Model/Engine.v (shared by C16 and C17).

Every modelled Python function is run on the same generated arguments as its extracted Gallina twin; any difference is a
broken tie.  Strings are drawn over the alphabet  < > = , space a b A _ { } \\n \\t  (plus '-' '.' digits for the case helpers),
mixed with whole tags and the engine's keywords so that the interesting branches are reached."""
import os

from . import kj
from .kj import cgen

ALPHA = ["<", ">", "=", ",", " ", "a", "b", "A", "_", "{", "}", "\n", "\t"]
CHUNKS = ["<<<", ">>>", "<<<a>>>", "<<<A=b>>>", "<<<b=>>>", "<<<a b>>>", "<<<IF a>>>", "<<<ELSEIF b>>>", "<<<ELSE>>>", "<<<ENDIF>>>",
          "<<<FOR_BEGIN=a,b>>>", "<<<FOR_BEGIN=<<<A=a,b>>>>>>", "<<<FOR_BEGIN=2>>>", "<<<FOR_END>>>", "<<<EACH>>>", "<<<each>>>",
          "<<<NUM>>>", "<<<ALPH>>>", "<<<FIRST>>>", "<<<LAST>>>", "IF", "ELSE", "FOR_BEGIN", "FIRST", "<<<<", ">>>>", "<<", ">>",
          "<<<X_BEGIN>>>", "<<<X_END>>>", "<<<X_BEGIN=a>>>", "X_BEGIN", "X_END", "    ", "a,b", "3"]
SPECIFIC = ["<<<a>>>", "<<<A>>>", "<<<IF>>>", "<<<ELSE>>>", "<<<ELSEIF>>>", "<<<ENDIF>>>", "<<<FOR_BEGIN>>>", "<<<FOR_END>>>", "<<<FIRST>>>",
            "<<<X_BEGIN>>>", "<<<>>>", "a", "<<<a"]
VALUES = ["", None, 0, 1, 7, 2.5, True, "v", "a,b", "x y", "A", "<<<a>>>", "3", "b=", "  ", "FOR_END"]
KEYS = ["a", "b", "A", "a b", "", "X", "EACH", "a,b"]


def rstr(rng, maxlen=14, chunk_p=0.35):
    n = rng.randint(0, maxlen)
    out = []
    for _ in range(n):
        out.append(rng.choice(CHUNKS) if rng.random() < chunk_p else rng.choice(ALPHA))
    return "".join(out)


def rline(rng):
    s = rstr(rng, 8).replace("\n", "")
    return s + ("\n" if rng.random() < 0.9 else "")


def rlines(rng, maxn=10):
    return [rline(rng) for _ in range(rng.randint(0, maxn))]


def rdict(rng):
    d = {}
    for k in rng.sample(KEYS, rng.randint(0, 4)):
        d[k] = rng.choice(VALUES)
    return d


def mdict(d):
    """user-tag dictionary as the model takes it: values through str(), None -> ''"""
    return [[k, "" if v is None else str(v)] for k, v in d.items()]


def b2s(x):
    if isinstance(x, list):
        return [b2s(y) for y in x]
    return x.decode("utf-8", "surrogateescape")


def mark(snippet, out, *args):
    """expansion function of the expander correspondence (the OCaml side has the same one)"""
    param = args[-1] if args else None
    out.append("P:<none>\n" if param is None else "P:" + param + "\n")
    for l in snippet:
        out.append("S:" + l)


_gen = {}


def generator():
    """a CGenerator instance (its constructor wants an existing non-empty template dir)"""
    if "g" not in _gen:
        d = _gen["ctx"] = kj.scratch()
        root = d.__enter__()
        os.makedirs(os.path.join(root, "t"))
        with open(os.path.join(root, "t", "x.txt"), "w") as f:
            f.write("x\n")
        with kj.quiet():
            _gen["g"] = cgen.CGenerator(os.path.join(root, "t"), os.path.join(root, "o"))
    return _gen["g"]


def close():
    if "ctx" in _gen:
        _gen["ctx"].__exit__(None, None, None)
        _gen.clear()


def real_or_exc(f, *a):
    try:
        return f(*a)
    except Exception as e:  # noqa
        return ("EXC", type(e).__name__)


def opt(v):
    """model option (list): [] = None, [x] = Some x"""
    return ("EXC",) if v == [] else b2s(v[0])


def run(ctx, n):
    """n rounds; every round calls every modelled function once"""
    km, rng = ctx.km, ctx.rng
    g = generator()
    bad = 0

    def cmp(what, real, model, arg):
        nonlocal bad
        ctx.count("fl_" + what)
        if isinstance(real, tuple) and real and real[0] == "EXC":
            real = ("EXC",)
        if real != model:
            bad += 1
            if bad <= 5:
                ctx.tie_broken("correspondence cgen.%s vs Model/Engine.v" % what, {"arg": arg, "real": real, "model": model})

    for i in range(n):
        a = rstr(rng)
        cmp("hasTag", cgen.hasTag(a), km.call("e.hasTag", a) == b"1", a)
        t = rng.choice(SPECIFIC)
        cmp("hasSpecificTag", cgen.hasSpecificTag(a, t), km.call("e.hasSpecificTag", a, t) == b"1", [a, t])
        cmp("hasDefault", cgen.hasDefault(a), km.call("e.hasDefault", a) == b"1", a)
        dl = rng.choice(["=", " "])
        cmp("extractDefaultAndTag", cgen.extractDefaultAndTag(a, dl), b2s(km.call("e.extractDefaultAndTag", a, dl)), [a, dl])
        cmp("removeDefault", cgen.removeDefault(a), b2s(km.call("e.removeDefault", a)), a)
        b = rng.choice(["", "v", "a,b", "3", "<<<a>>>"])
        cmp("replaceDefault", cgen.replaceDefault(a, b), b2s(km.call("e.replaceDefault", a, b)), [a, b])
        cmp("cleanTag", cgen.cleanTag(a), b2s(km.call("e.cleanTag", a)), a)
        cmp("getWhitespace", cgen.getWhitespace(a), b2s(km.call("e.getWhitespace", a)), a)
        d = rdict(rng)
        cmp("replaceUserTags", cgen.replaceUserTags(a, d), b2s(km.call("e.replaceUserTags", a, mdict(d))), [a, d])
        p, v = rng.choice(["<<<", ">>>", "a", "ab", "<<<a>>>", "", " ", "aa"]), rng.choice(["", "x", "aa", "<"])
        cmp("str.replace", a.replace(p, v), b2s(km.call("e.replace_all", p, v, a)), [p, v, a])
        cmp("str.strip", a.strip(), b2s(km.call("e.strip", a)), a)
        ls = rlines(rng)
        cmp("SingleExpander", cgen.SingleExpander("<<<X_BEGIN>>>").Expand(list(ls), lambda out, ws: out.append("W:" + ws + "\n")),
            b2s(km.call("e.single_expand", "<<<X_BEGIN>>>", ls)), ls)
        cmp("PairExpander", real_or_exc(cgen.PairExpander("<<<X_BEGIN>>>", "<<<X_END>>>").Expand, list(ls), mark),
            opt(km.call("e.pair_expand", "<<<X_BEGIN>>>", "<<<X_END>>>", ls)), ls)
        cs = "".join(rng.choice(["a", "b", "A", "B", "_", "-", ".", " ", "1", "Zz", "__"]) for _ in range(rng.randint(0, 8)))
        cmp("camel_case_small", cgen.camel_case_small(cs), b2s(km.call("e.camel_case_small", cs)), cs)
        cmp("snake_case", cgen.snake_case(cs), b2s(km.call("e.snake_case", cs)), cs)
        cmp("caps", cgen.caps(cs), b2s(km.call("e.caps", cs)), cs)
        al = rng.randint(0, 200)
        cmp("get_next_alphabet", cgen.get_next_alphabet(al), int(km.call("e.get_next_alphabet", str(al))), al)
        bl = [rng.choice(["\n", " \n", "  \n", "a\n", "", "\t\n", " a \n", "\n\n"]) for _ in range(rng.randint(0, 9))]
        cmp("filter_multiple_newlines", g.filter_multiple_newlines(list(bl)), b2s(km.call("e.filter_multiple_newlines", bl)), bl)
        param = rng.choice(["a,b", " a , b ,", ",a,,b,", "3", " 2 ", "0", "a", "", "1,2", "x,", ",", "12", "a, <<<b>>>", rstr(rng, 5)])
        body = rlines(rng, 5)

        def forloop():
            out = []
            g.innerexpand_for_loop(list(body), out, param)
            return out
        cmp("innerexpand_for_loop", real_or_exc(forloop), opt(km.call("e.innerexpand_for_loop", body, [param])), [body, param])
        files = [("f%d" % j, rlines(rng)) for j in range(rng.randint(1, 2))]

        def usertags():
            cm = cgen.CCodeModel()
            for nme, l in files:
                cm.filenames_to_lines[nme] = list(l)
            g.do_user_tags(cm, d)
            return [[k, v] for k, v in cm.filenames_to_lines.items()]
        if not any(isinstance(v, (int, float)) or v is None for v in d.values()) or True:
            r = real_or_exc(usertags)
            m = [[b2s(x[0]), b2s(x[1])] for x in km.call("e.do_user_tags", mdict(d), [[nme, l] for nme, l in files])]
            cmp("do_user_tags", r, m, [files, d])

        def dofor():
            cm = cgen.CCodeModel()
            cm.filenames_to_lines["f"] = list(ls)
            g.do_for(cm)
            return cm.filenames_to_lines["f"]
        cmp("do_for", real_or_exc(dofor), opt(km.call("e.do_for_lines", ls)), ls)
        ctx.case(("fl", i, a, tuple(ls)), nontrivial=("<<<" in a))
    return bad
