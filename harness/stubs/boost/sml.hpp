// Interface-only stand-in for boost/sml.hpp (the sml submodule is empty in this checkout): just enough of the DSL for
// `make_transition_table( *state<S> + event<E> [guard] / action = state<T>, state<S> + on_entry<_> / hook, ... )`,
// sm<T>{controller}, process_event, is(state<S>).  It type-checks what a generated unit REFERENCES: every state type
// must be declared, every event type complete, every guard callable as guard(controller&) -> bool or guard() -> bool,
// every action callable as action(const Event&, controller&) (which instantiates the generated functor body and so
// resolves controller.<Action>(<Event> const&)), every hook callable as hook(controller&).  No behaviour.
#pragma once
#include <type_traits>
#include <utility>
namespace boost { namespace sml {
struct _ {};
struct any_ref { template <class T> operator T&() const; };
template <class S> struct state_t { constexpr state_t operator*() const { return {}; } };
template <class S> constexpr state_t<S> state{};
template <class G> auto call_guard(G& g, int) -> decltype(bool(g(any_ref{}))) { return false; }
template <class G> auto call_guard(G& g, long) -> decltype(bool(g())) { return false; }
template <class E, class A> auto call_action(A& a, int) -> decltype(a(std::declval<const E&>(), any_ref{}), void()) {
  if (false) a(*static_cast<const E*>(nullptr), any_ref{});
}
template <class E, class A> auto call_action(A& a, long) -> decltype(a(), void()) {}
template <class A> auto call_hook(A& a) -> decltype(a(any_ref{}), void()) { if (false) a(any_ref{}); }
template <class E> struct ev_act { };
template <class E> struct guarded_event {
  template <class A> ev_act<E> operator/(A a) const { call_action<E>(a, 0); return {}; }
};
template <class E> struct event_t {
  static_assert(sizeof(E) > 0, "event type must be complete");
  template <class G> guarded_event<E> operator[](G g) const { call_guard(g, 0); return {}; }
  template <class A> ev_act<E> operator/(A a) const { call_action<E>(a, 0); return {}; }
};
template <class E> constexpr event_t<E> event{};
struct hook_act {};
template <class T> struct on_entry_t { template <class A> hook_act operator/(A a) const { call_hook(a); return {}; } };
template <class T> struct on_exit_t { template <class A> hook_act operator/(A a) const { call_hook(a); return {}; } };
template <class T> constexpr on_entry_t<T> on_entry{};
template <class T> constexpr on_exit_t<T> on_exit{};
template <class S> struct transition { template <class T> transition operator=(state_t<T>) const { return {}; } };
template <class S, class E> transition<S> operator+(state_t<S>, ev_act<E>) { return {}; }
template <class S, class E> transition<S> operator+(state_t<S>, event_t<E>) { return {}; }
template <class S, class E> transition<S> operator+(state_t<S>, guarded_event<E>) { return {}; }
template <class S> transition<S> operator+(state_t<S>, hook_act) { return {}; }
template <class... Ts> struct table {};
template <class... Ts> table<Ts...> make_transition_table(Ts...) { return {}; }
template <class SM> class sm {
 public:
  template <class C> explicit sm(C& c) { (void)c; (void)sizeof(decltype(std::declval<SM>()())); }
  template <class E> void process_event(const E&) {}
  template <class S> bool is(state_t<S>) const { return false; }
};
}}
