// Functional stand-in for boost/sml.hpp (the sml submodule is empty in this checkout), for the subset of the DSL that the
// generated state machine uses:
//   make_transition_table( *state<S> + event<E> [guard] / action = state<T>,  state<S> + event<E> [guard] / action,
//                          state<S> + on_entry<_> / hook,  state<S> + on_exit<_> / hook, ... )
//   sm<Table>{controller},  process_event(e),  is(state<S>)
// with the semantics STATED in the verification's Model/SmlTT.v (this header is the harness's executable copy of that
// statement, it is NOT boost::sml):
//   * the state marked `*` is initial; constructing the machine runs its on_entry hooks;
//   * process_event(e) tries the transition rows in table order; a row applies when its source is the current state and its
//     event type is e's; its guard is called, the first row whose guard holds fires, no further row is looked at;
//   * `= state<T>` is an external transition (also for T == source): on_exit hooks of the source, action, state := T,
//     on_entry hooks of T; a row without target is internal: the action alone; nothing happens when no row fires.
// It also type-checks what the interface-only stub did: states declared, event types complete, guards callable as
// g(controller&) or g(), actions as a(const Event&, controller&) or a(), hooks as h(controller&).
#pragma once
#include <functional>
#include <tuple>
#include <type_traits>
#include <utility>
#include <vector>
namespace boost { namespace sml {
struct _ {};
template <class T> struct tid_holder { static constexpr char id = 0; };
template <class T> constexpr char tid_holder<T>::id;
template <class T> const void* tid() { return &tid_holder<T>::id; }

struct row_rt {
  int kind;                 // 0 transition, 1 on_entry hook, 2 on_exit hook
  bool init;
  const void* src; const void* ev; const void* dst;   // dst == nullptr : internal
  std::function<bool()> guard;
  std::function<void(const void*)> action;
};

template <class G, class C> auto call_guard(G& g, C& c, int) -> decltype(bool(g(c))) { return g(c); }
template <class G, class C> auto call_guard(G& g, C&, long) -> decltype(bool(g())) { return g(); }
template <class E, class A, class C> auto call_action(A& a, const E& e, C& c, int) -> decltype(a(e, c), void()) { a(e, c); }
template <class E, class A, class C> auto call_action(A& a, const E&, C&, long) -> decltype(a(), void()) { a(); }

struct no_guard { bool operator()() const { return true; } };
struct no_action { void operator()() const {} };
struct internal_t {};

template <class S> struct state_t;
template <class S> struct init_state_t {};
template <class S> struct state_t { constexpr init_state_t<S> operator*() const { return {}; } };
template <class S> constexpr state_t<S> state{};

template <class E, class G, class A> struct ev_g_a { G g; A a; };
template <class E, class G> struct ev_g {
  G g;
  template <class A> ev_g_a<E, G, A> operator/(A a) const { return {g, a}; }
};
template <class E> struct event_t {
  static_assert(sizeof(E) > 0, "event type must be complete");
  template <class G> ev_g<E, G> operator[](G g) const { return {g}; }
  template <class A> ev_g_a<E, no_guard, A> operator/(A a) const { return {no_guard{}, a}; }
};
template <class E> constexpr event_t<E> event{};

template <class S, bool Init, class E, class G, class A, class T> struct trans {
  G g; A a;
  template <class T2> trans<S, Init, E, G, A, T2> operator=(state_t<T2>) const { return {g, a}; }
  template <class C> void erase(C& c, std::vector<row_rt>& rows) const {
    G g2 = g; A a2 = a; C* pc = &c;
    row_rt r;
    r.kind = 0; r.init = Init; r.src = tid<S>(); r.ev = tid<E>();
    r.dst = std::is_same<T, internal_t>::value ? nullptr : tid<T>();
    r.guard = [g2, pc]() mutable { return call_guard(g2, *pc, 0); };
    r.action = [a2, pc](const void* e) mutable { call_action<E>(a2, *static_cast<const E*>(e), *pc, 0); };
    rows.push_back(r);
  }
};
template <class S, class E, class G, class A> trans<S, false, E, G, A, internal_t> operator+(state_t<S>, ev_g_a<E, G, A> x) { return {x.g, x.a}; }
template <class S, class E, class G, class A> trans<S, true, E, G, A, internal_t> operator+(init_state_t<S>, ev_g_a<E, G, A> x) { return {x.g, x.a}; }
template <class S, class E, class G> trans<S, false, E, G, no_action, internal_t> operator+(state_t<S>, ev_g<E, G> x) { return {x.g, no_action{}}; }
template <class S, class E, class G> trans<S, true, E, G, no_action, internal_t> operator+(init_state_t<S>, ev_g<E, G> x) { return {x.g, no_action{}}; }
template <class S, class E> trans<S, false, E, no_guard, no_action, internal_t> operator+(state_t<S>, event_t<E>) { return {no_guard{}, no_action{}}; }
template <class S, class E> trans<S, true, E, no_guard, no_action, internal_t> operator+(init_state_t<S>, event_t<E>) { return {no_guard{}, no_action{}}; }

template <int Kind, class A> struct hook_act { A a; };
template <class T> struct on_entry_t { template <class A> hook_act<1, A> operator/(A a) const { return {a}; } };
template <class T> struct on_exit_t { template <class A> hook_act<2, A> operator/(A a) const { return {a}; } };
template <class T> constexpr on_entry_t<T> on_entry{};
template <class T> constexpr on_exit_t<T> on_exit{};
template <class S, int Kind, class A> struct hook_row {
  A a;
  template <class C> void erase(C& c, std::vector<row_rt>& rows) const {
    A a2 = a; C* pc = &c;
    row_rt r;
    r.kind = Kind; r.init = false; r.src = tid<S>(); r.ev = nullptr; r.dst = nullptr;
    r.guard = []() { return true; };
    r.action = [a2, pc](const void*) mutable { a2(*pc); };
    rows.push_back(r);
  }
};
template <class S, int Kind, class A> hook_row<S, Kind, A> operator+(state_t<S>, hook_act<Kind, A> h) { return {h.a}; }

template <class... Ts> struct table { std::tuple<Ts...> rows; };
template <class... Ts> table<Ts...> make_transition_table(Ts... ts) { return {std::tuple<Ts...>(ts...)}; }

template <class SM> class sm {
 public:
  template <class C> explicit sm(C& c) : cur_(nullptr) {
    auto t = SM{}();
    erase_all(c, t.rows, std::make_index_sequence<std::tuple_size<decltype(t.rows)>::value>{});
    for (auto& r : rows_) if (r.kind == 0 && r.init) { cur_ = r.src; break; }
    hooks(1, cur_);
  }
  template <class E> bool process_event(const E& e) {
    for (auto& r : rows_) {
      if (r.kind != 0 || r.src != cur_ || r.ev != tid<E>()) continue;
      if (!r.guard()) continue;
      if (r.dst) { hooks(2, cur_); r.action(&e); cur_ = r.dst; hooks(1, cur_); }
      else r.action(&e);
      return true;
    }
    return false;
  }
  template <class S> bool is(state_t<S>) const { return cur_ == tid<S>(); }

 private:
  template <class C, class Tuple, std::size_t... I> void erase_all(C& c, const Tuple& t, std::index_sequence<I...>) {
    int dummy[] = {0, (std::get<I>(t).erase(c, rows_), 0)...};
    (void)dummy;
  }
  void hooks(int kind, const void* s) {
    for (auto& r : rows_) if (r.kind == kind && r.src == s) r.action(nullptr);
  }
  std::vector<row_rt> rows_;
  const void* cur_;
};
}}
