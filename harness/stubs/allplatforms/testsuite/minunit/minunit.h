// Interface-only stand-in for minunit.h (empty submodule): the three macros the generated test unit uses.
#pragma once
#define MU_TEST(name) static void name()
#define MU_TEST_SUITE(name) static void name()
#define MU_RUN_TEST(test) test()
