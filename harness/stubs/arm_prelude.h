// Prefix header for compiling kojen/allplatforms/CPP with -D__arm__ on the x86 sandbox (g++ -include .../arm_prelude.h).
// The __arm__ branch of basetypes.h defines only the integer types: an ARM build has to get `printf` (used by
// IConnection::SetMsgReceiver) and the DEBUG_CODE macro (used by IConnection::HandleUnfragmentedData) from its tool chain /
// project settings.  Here: <cstdio>, and DEBUG_CODE(x) = x as in a non-NDEBUG build (the asserts stay active).
#pragma once
#include <cstdio>
#include <cassert>
#ifndef DEBUG_CODE
#define DEBUG_CODE(x) x
#endif
