"""bin/check <Cnn> [--tier quick|thorough] [--replay path]

Steps (DESIGN.md section 6): hygiene -> translate -> prove -> correspond -> observe/search -> evidence.
Exit 0: property held on everything explored.  Exit 1: a line `VIOLATION property=<id> replay=<path>`.
"""
import fcntl
import hashlib
import importlib
import json
import os
import random
import re
import subprocess
import sys
import time
import traceback

VERIF = os.path.dirname(os.path.dirname(os.path.abspath(__file__)))
COQ = os.path.join(VERIF, "coq")
BUILD = os.path.join(VERIF, "build")
EVID = os.path.join(VERIF, "evidence")
REPLAYS = os.path.join(EVID, "replays")
REPO = os.environ.get("KOJEN_REPO", "/repo")

FORBIDDEN = re.compile(
    r"\b(Admitted|admit|Axiom|Axioms|Parameter|Parameters|Conjecture|Conjectures|Admit\s+Obligations|"
    r"Unset\s+Guard\s+Checking|Unset\s+Positivity\s+Checking|Unset\s+Universe\s+Checking|bypass_check|"
    r"native_compute|type-in-type|impredicative-set)\b")


def strip_coq_comments(text):
    out, depth, i = [], 0, 0
    while i < len(text):
        if text.startswith("(*", i):
            depth += 1
            i += 2
        elif text.startswith("*)", i) and depth:
            depth -= 1
            i += 2
        else:
            if not depth:
                out.append(text[i])
            i += 1
    return "".join(out)


def v_files():
    res = []
    for d, _dirs, files in os.walk(os.path.join(COQ, "theories")):
        for f in sorted(files):
            if f.endswith(".v"):
                res.append(os.path.join(d, f))
    return sorted(res)


def hygiene():
    """Forbidden vernacular anywhere in the development (comments stripped); Variable/Hypothesis outside a Section."""
    problems = []
    for path in v_files():
        with open(path) as f:
            text = strip_coq_comments(f.read())
        text_nostr = re.sub(r'"(?:[^"]|"")*"', '""', text)
        for m in FORBIDDEN.finditer(text_nostr):
            problems.append("%s: forbidden vernacular %r" % (os.path.relpath(path, VERIF), m.group(0)))
        depth = 0
        for line in text_nostr.split("\n"):
            s = line.strip()
            if re.match(r"(Section|Module)\s+\w+\s*\.", s):
                depth += 1 if s.startswith("Section") else 0
            elif re.match(r"End\s+\w+\s*\.", s) and depth:
                depth -= 1
            elif depth == 0 and re.match(r"(Variable|Variables|Hypothesis|Hypotheses|Context)\b", s):
                problems.append("%s: %r outside a Section" % (os.path.relpath(path, VERIF), s[:60]))
    proj = open(os.path.join(COQ, "_CoqProject")).read()
    if "type-in-type" in proj or "impredicative-set" in proj:
        problems.append("_CoqProject passes a forbidden flag")
    return problems


def run_cmd(cmd, cwd=None, timeout=1800, env=None):
    e = dict(os.environ)
    e.update(env or {})
    p = subprocess.run(cmd, cwd=cwd, stdout=subprocess.PIPE, stderr=subprocess.STDOUT, timeout=timeout, env=e)
    out = p.stdout.decode("utf-8", "replace")
    out = "\n".join(l for l in out.split("\n") if "WARNING conda" not in l)
    return p.returncode, out


def translate():
    """Regenerate coq/theories/Gen from /repo's working tree. Returns list of refusal messages."""
    sys.path.insert(0, VERIF)
    from translator import run_all
    return run_all.run()


def tree_stamp():
    h = hashlib.sha256()
    odir = os.path.join(VERIF, "ocaml")
    for p in v_files() + sorted(os.path.join(odir, f) for f in os.listdir(odir) if f.endswith(".ml")):
        h.update(p.encode())
        with open(p, "rb") as f:
            h.update(f.read())
    return h.hexdigest()


class BuildLock:
    def __enter__(self):
        os.makedirs(BUILD, exist_ok=True)
        self.f = open(os.path.join(BUILD, "lock"), "w")
        fcntl.flock(self.f, fcntl.LOCK_EX)
        return self

    def __exit__(self, *a):
        fcntl.flock(self.f, fcntl.LOCK_UN)
        self.f.close()


def make_makefile():
    files = [os.path.relpath(p, COQ) for p in v_files() if "/Extract/" not in p]
    rc, out = run_cmd(["coq_makefile", "-f", "_CoqProject"] + files + ["-o", "Makefile"], cwd=COQ)
    if rc:
        raise RuntimeError("coq_makefile failed: " + out)


def build_kmodel(force=False):
    """Extract Model/ to OCaml and build build/kmodel (only when the Coq sources changed)."""
    stamp_file = os.path.join(BUILD, "kmodel.stamp")
    stamp = tree_stamp()
    if not force and os.path.exists(stamp_file) and os.path.exists(os.path.join(BUILD, "kmodel")) \
            and open(stamp_file).read() == stamp:
        return True, "up to date"
    ext = os.path.join(BUILD, "extract")
    subprocess.run(["rm", "-rf", ext])
    os.makedirs(ext)
    # All Extract/*.v files are merged into ONE extraction run (separate runs would overwrite each other's shared modules):
    # the union of their `From KV Require Import ...` modules and of their `Separate Extraction ...` items.
    exdir = os.path.join(COQ, "theories", "Extract")
    mods, items = [], []
    for ev in sorted(f for f in os.listdir(exdir) if f.endswith(".v")):
        text = strip_coq_comments(open(os.path.join(exdir, ev)).read())
        for req in re.finditer(r"From\s+KV\s+Require\s+(?:Import\s+|Export\s+)?(.*?)\.(?=\s)", text, re.S):
            for name in req.group(1).split():
                if name not in mods:
                    mods.append(name)
        for se in re.finditer(r"Separate\s+Extraction\s+(.*?)\.(?=\s|$)", text, re.S):
            for it in se.group(1).split():
                if it not in items:
                    items.append(it)
    # the modules to extract must be compiled against the CURRENT Gen files (a check only rebuilds its own closure)
    targets = ["theories/%s.vo" % m.replace(".", "/") for m in mods]
    rc, out = run_cmd(["make", "-j", str(min(16, os.cpu_count() or 4))] + targets, cwd=COQ, timeout=3000)
    if rc:
        return False, "build of the modules to extract failed:\n" + out[-3000:]
    allv = os.path.join(ext, "ExtractAll.v")
    with open(allv, "w") as f:
        f.write("From Coq Require Import Extraction ExtrOcamlBasic ExtrOcamlNativeString.\n")
        f.write("From KV Require Import %s.\n" % " ".join(mods))
        f.write("Extraction Blacklist String List Bool.\n")
        f.write("Separate Extraction\n  %s.\n" % "\n  ".join(items))
    rc, out = run_cmd(["coqc", "-Q", os.path.join(COQ, "theories"), "KV", allv], cwd=ext, timeout=1800)
    if rc:
        return False, "extraction failed:\n%s" % out
    odir = os.path.join(VERIF, "ocaml")
    cmds = sorted(f for f in os.listdir(odir) if f.startswith("cmds_") and f.endswith(".ml"))
    for f in ["kcore.ml", "kmain.ml"] + cmds:
        subprocess.run(["cp", os.path.join(odir, f), ext])
    # link order: extracted modules (dependency-sorted), kcore, cmds_* (they register their commands), kmain (the loop)
    sh = ("EXT=$(ls *.ml *.mli | grep -v -e '^kcore.ml$' -e '^kmain.ml$' -e '^cmds_'); "
          "ocamlfind ocamlopt -w -a -o ../kmodel $(ocamlfind ocamldep -sort $EXT) kcore.ml %s kmain.ml" % " ".join(cmds))
    rc, out = run_cmd(["sh", "-c", sh], cwd=ext, timeout=900)
    if rc:
        return False, "ocaml build failed:\n" + out
    with open(stamp_file, "w") as f:
        f.write(stamp)
    return True, "rebuilt"


def prove(prop, clean=False):
    """Full .vo build of the closure of Props/<prop>.v; returns (ok, output, assumptions dict)."""
    target = "theories/Props/%s.vo" % prop
    make_makefile()
    if clean:
        run_cmd(["make", "clean"], cwd=COQ)
    for ext in (".vo", ".glob", ".vos", ".vok"):
        try:
            os.remove(os.path.join(COQ, "theories", "Props", prop + ext))
        except OSError:
            pass
    rc, out = run_cmd(["make", "-j", str(min(16, os.cpu_count() or 4)), target], cwd=COQ, timeout=3000)
    return rc == 0, out, parse_assumptions(out)


def parse_assumptions(out):
    """{theorem -> [axiom names]} from the `Print Assumptions` output (in order of appearance)."""
    res = []
    lines = out.split("\n")
    i = 0
    while i < len(lines):
        l = lines[i]
        if l.startswith("Closed under the global context"):
            res.append([])
        elif l.startswith("Axioms:"):
            ax = []
            i += 1
            while i < len(lines) and lines[i].strip() and not lines[i].startswith(("COQC", "Closed", "Axioms:", "make")):
                m = re.match(r"^([A-Za-z_][\w.']*)\s*:", lines[i])
                if m:
                    ax.append(m.group(1))
                i += 1
            res.append(ax)
            continue
        i += 1
    return res


def closure(prop):
    """Files in the Require-closure of Props/<prop>.v (within KV)."""
    seen, todo = [], ["Props." + prop]
    while todo:
        m = todo.pop()
        if m in seen:
            continue
        p = os.path.join(COQ, "theories", *m.split(".")) + ".v"
        if not os.path.exists(p):
            continue
        seen.append(m)
        text = strip_coq_comments(open(p).read())
        for req in re.finditer(r"From\s+KV\s+Require\s+(?:Import\s+|Export\s+)?(.*?)\.(?=\s)", text, re.S):
            for name in req.group(1).split():
                todo.append(name)
    return seen


def count_obligations(mods):
    n = 0
    names = []
    for m in mods:
        p = os.path.join(COQ, "theories", *m.split(".")) + ".v"
        text = strip_coq_comments(open(p).read())
        for mm in re.finditer(r"^\s*(?:Local\s+|Global\s+)?(Theorem|Lemma|Corollary|Example|Fact|Remark|Proposition)\s+([\w']+)", text, re.M):
            n += 1
            names.append(m + "." + mm.group(2))
    return n, names


def check_digests():
    """Every Gen file records the sha256 of the sources it was derived from; recompute them now."""
    bad = []
    gen = os.path.join(COQ, "theories", "Gen")
    if not os.path.isdir(gen):
        return ["Gen/ missing"]
    for f in sorted(os.listdir(gen)):
        if not f.endswith(".v"):
            continue
        text = open(os.path.join(gen, f)).read()
        for m in re.finditer(r'\("([^"]+)", "([0-9a-f]{64})"\)', text):
            rel, dig = m.group(1), m.group(2)
            try:
                with open(os.path.join(REPO, rel), "rb") as fh:
                    now = hashlib.sha256(fh.read()).hexdigest()
            except OSError:
                now = None
            if now != dig:
                bad.append("Gen/%s is stale with respect to %s" % (f, rel))
    return bad


class StopSearch(Exception):
    """The time budget of this run is used up (only raised once a proof/tie is broken or violations were found)."""


class Ctx:
    # wall-clock limits of run(ctx): generous for a normal run; a run that has turned into a search is cut off
    LIMIT = {"quick": 900, "thorough": 3000}
    SEARCH_LIMIT = {"quick": 480, "thorough": 1500}

    def __init__(self, prop, tier, seed):
        self.prop, self.tier, self.seed = prop, tier, seed
        self.quick = tier == "quick"
        self.rng = random.Random(seed)
        self.t0 = time.time()
        self.broken = []          # proof obligations / ties that no longer check
        self.violations = []      # replay paths
        self.known = []           # KNOWN-FINDING lines printed
        self.evaluations = 0
        self.distinct = set()
        self.samples = []
        self.dist = {}
        self.coverage_extra = {}
        self.assumptions = []
        self.km = None
        self.obligations = 0
        self.discharged = 0
        self.theorems = []
        self.trusted = []
        self.checker_cmd = ""
        self.findings = load_known()
        self.run_started = None
        self._broken_seen = {}

    # ---- bookkeeping
    def case(self, key=None, nontrivial=True, n=1):
        if self.run_started is not None:
            spent = time.time() - self.run_started
            if (self.broken or self.violations) and spent > self.SEARCH_LIMIT[self.tier]:
                raise StopSearch("search budget of %d s used up" % self.SEARCH_LIMIT[self.tier])
            if len(self.violations) >= 8 and self.tier == "quick":
                raise StopSearch("8 concrete failing inputs found: the search has its answer")
        self.evaluations += n
        if nontrivial and key is not None:
            self.distinct.add(hashlib.sha1(repr(key).encode()).hexdigest())

    def count(self, what, n=1):
        self.dist[what] = self.dist.get(what, 0) + n

    def sample(self, obj, limit=4):
        if len(self.samples) < limit:
            self.samples.append(obj)

    def budget(self, quick, thorough):
        """Case count for this tier; multiplied when a proof/tie is broken (search mode)."""
        n = quick if self.quick else thorough
        if self.broken:
            n = max(n, thorough)
        return n

    def elapsed(self):
        return time.time() - self.t0

    # ---- reporting
    def write_replay(self, data):
        os.makedirs(REPLAYS, exist_ok=True)
        blob = json.dumps(data, sort_keys=True, default=_json_default)
        name = "%s-%s.json" % (self.prop, hashlib.sha1(blob.encode()).hexdigest()[:12])
        path = os.path.join(REPLAYS, name)
        with open(path, "w") as f:
            f.write(json.dumps(data, indent=1, sort_keys=True, default=_json_default))
        return path

    def violation(self, what, replay):
        """A concrete failing input of the property on the implementation."""
        kf = self.match_known(replay)
        if kf is not None:
            line = "KNOWN-FINDING: property=%s %s" % (self.prop, kf["what"])
            if line not in self.known:
                self.known.append(line)
                print(line)
            return False
        replay = dict(replay)
        replay["property"] = self.prop
        replay["what"] = what
        replay["seed"] = self.seed
        path = self.write_replay(replay)
        self.violations.append(path)
        print("VIOLATION property=%s replay=%s" % (self.prop, path))
        sys.stdout.flush()
        return True

    def tie_broken(self, what, detail=None):
        n = self._broken_seen.get(what, 0)
        self._broken_seen[what] = n + 1
        if n >= 3:          # the same obligation/tie: keep the first three witnesses only
            return
        self.broken.append({"what": what, "detail": detail})
        print("[%s] no longer checks: %s" % (self.prop, what))
        sys.stdout.flush()

    def match_known(self, replay):
        for f in self.findings:
            if f.get("property") != self.prop or f.get("status") != "known":
                continue
            m = f.get("match", {})
            if m and all(replay.get(k) == v for k, v in m.items()):
                return f
        return None

    def known_finding(self, fid):
        """Print the KNOWN-FINDING line for finding `fid` (the check reproduced it)."""
        for f in self.findings:
            if f.get("id") == fid and f.get("status") == "known":
                line = "KNOWN-FINDING: property=%s %s" % (self.prop, f["what"])
                if line not in self.known:
                    self.known.append(line)
                    print(line)
                return True
        return False


def _json_default(o):
    if isinstance(o, bytes):
        try:
            return {"__bytes__": o.decode("utf-8")}
        except UnicodeDecodeError:
            return {"__hex__": o.hex()}
    if isinstance(o, (set, frozenset)):
        return sorted(o)
    return repr(o)


def unjson(o):
    if isinstance(o, dict):
        if set(o) == {"__bytes__"}:
            return o["__bytes__"].encode("utf-8")
        if set(o) == {"__hex__"}:
            return bytes.fromhex(o["__hex__"])
        return {k: unjson(v) for k, v in o.items()}
    if isinstance(o, list):
        return [unjson(x) for x in o]
    return o


def load_known():
    res = []
    p = os.path.join(VERIF, "known_findings.json")
    if os.path.exists(p):
        res += json.load(open(p)).get("findings", [])
    d = os.path.join(VERIF, "known_findings.d")
    if os.path.isdir(d):
        for f in sorted(os.listdir(d)):
            if f.endswith(".json"):
                res += json.load(open(os.path.join(d, f))).get("findings", [])
    return res


def write_evidence(ctx, level="proof"):
    os.makedirs(EVID, exist_ok=True)
    cov = {
        "obligations": ctx.obligations,
        "discharged": ctx.discharged,
        "checker_cmd": ctx.checker_cmd,
        "trusted_base": ctx.trusted,
        "theorems": ctx.theorems,
        "print_assumptions": ctx.assumptions,
        "evaluations": ctx.evaluations,
        "distinct_nontrivial": len(ctx.distinct),
        "rule": getattr(ctx, "rule", ""),
        "samples": ctx.samples or ["(no case was run)"],
        "distribution": ctx.dist,
        "broken_obligations_or_ties": ctx.broken,
        "known_findings_reproduced": ctx.known,
    }
    cov.update(ctx.coverage_extra)
    ev = {
        "property_id": ctx.prop,
        "tier": ctx.tier,
        "seed": ctx.seed,
        "level": level,
        "coverage": cov,
        "assumptions": getattr(ctx, "assume", []),
        "wall_s": round(ctx.elapsed(), 2),
        "violations": len(ctx.violations) + (1 if (ctx.broken and not ctx.violations) else 0),
    }
    with open(os.path.join(EVID, ctx.prop + ".json"), "w") as f:
        f.write(json.dumps(ev, indent=1, default=_json_default))


def main(argv):
    if not argv or not re.match(r"^C\d\d$", argv[0]):
        print("usage: check Cnn [--tier quick|thorough] [--replay path]")
        return 2
    prop = argv[0]
    tier = os.environ.get("VERIF_TIER", "quick")
    replay = None
    i = 1
    while i < len(argv):
        if argv[i] == "--tier":
            tier = argv[i + 1]
            i += 2
        elif argv[i] == "--replay":
            replay = argv[i + 1]
            i += 2
        else:
            i += 1
    if tier not in ("quick", "thorough"):
        tier = "quick"
    seed = int(os.environ.get("VERIF_SEED", "0") or 0)
    ctx = Ctx(prop, tier, seed)
    os.environ["PYTHONHASHSEED"] = os.environ.get("PYTHONHASHSEED", "0")
    mod = importlib.import_module("harness.props." + prop.lower())
    ctx.rule = getattr(mod, "RULE", "")
    ctx.assume = getattr(mod, "ASSUMPTIONS", [])
    ctx.trusted = list(getattr(mod, "TRUSTED", []))
    allowed_axioms = set(getattr(mod, "ALLOWED_AXIOMS", []))

    if replay:
        with open(replay) as f:
            data = unjson(json.load(f))
        ok = mod.replay(ctx, data)
        print("replay: property %s on this input" % ("HOLDS" if ok else "FAILS"))
        return 0 if ok else 1

    def lap(what, _t=[time.time()]):
        now = time.time()
        print("[%s] %-12s %.1fs" % (prop, what, now - _t[0]))
        sys.stdout.flush()
        _t[0] = now

    # 1 hygiene
    for p in hygiene():
        ctx.tie_broken("hygiene: " + p)
    with BuildLock():
        # 2 translate
        try:
            for r in translate():
                ctx.tie_broken("translator refused: " + r)
        except Exception as e:  # noqa
            ctx.tie_broken("translator crashed: %r" % e, traceback.format_exc())
        lap("translate")
        # 3 prove
        try:
            ok, out, assumptions = prove(prop, clean=(tier == "thorough" and os.environ.get("VERIF_NO_CLEAN") != "1"))
        except Exception as e:  # noqa
            ok, out, assumptions = False, repr(e), []
        mods = closure(prop)
        ctx.obligations, ctx.theorems = count_obligations(mods)
        ctx.theorems = [t for t in ctx.theorems if t.startswith("Props.")]
        ctx.checker_cmd = "cd /verif/coq && coq_makefile -f _CoqProject <all .v> -o Makefile && make theories/Props/%s.vo  (coqc 8.16.1, full .vo build)" % prop
        if ok:
            ctx.discharged = ctx.obligations
            ctx.assumptions = assumptions
            for ax in assumptions:
                extra = [a for a in ax if a not in allowed_axioms]
                if extra:
                    ctx.tie_broken("Print Assumptions lists axioms outside the declared trusted base: %s" % extra)
            if not assumptions:
                ctx.tie_broken("Props/%s.v printed no Print Assumptions result" % prop)
        else:
            tail = "\n".join(out.strip().split("\n")[-25:])
            m = re.search(r'File "\./(theories/[^"]+)", line (\d+)', out)
            where = (m.group(1) + ":" + m.group(2)) if m else "?"
            ctx.tie_broken("Coq build of the closure of Props/%s.v failed at %s" % (prop, where), tail)
        lap("prove")
        for s in check_digests():
            ctx.tie_broken(s)
        # extraction
        kok = False
        if ok:
            kok, kout = build_kmodel()
            if not kok:
                ctx.tie_broken("kmodel build failed", kout[-2000:])
        if tier == "thorough" and ok and os.environ.get("VERIF_NO_COQCHK") != "1":
            rc, cout = run_cmd(["coqchk", "-silent", "-o", "-Q", "theories", "KV", "KV.Props." + prop], cwd=COQ, timeout=3000)
            ctx.coverage_extra["coqchk"] = cout[-3000:]
            if rc:
                ctx.tie_broken("coqchk rejected Props/%s.vo" % prop, cout[-2000:])
    lap("kmodel")
    if kok:
        from harness.kmodel import KModel
        ctx.km = KModel()
    # 4-6 correspondence, observation, search
    ctx.run_started = time.time()
    try:
        mod.run(ctx)
    except StopSearch as e:
        print("[%s] %s" % (prop, e))
        ctx.coverage_extra["search_cut_off"] = str(e)
    except Exception as e:  # noqa
        ctx.tie_broken("harness crashed: %r" % e, traceback.format_exc())
        traceback.print_exc()
    finally:
        if ctx.km:
            ctx.km.close()
    lap("run")
    rc = 0
    if ctx.violations:
        rc = 1
    elif ctx.broken:
        path = ctx.write_replay({"property": prop, "no_failing_input_found": True, "no_longer_checks": ctx.broken,
                                 "searched": {"evaluations": ctx.evaluations, "seed": seed}})
        print("VIOLATION property=%s replay=%s no-failing-input-found" % (prop, path))
        rc = 1
    write_evidence(ctx, getattr(mod, "LEVEL", "proof"))
    print("[%s] tier=%s evaluations=%d distinct=%d obligations=%d/%d wall=%.1fs -> %s" % (
        prop, tier, ctx.evaluations, len(ctx.distinct), ctx.discharged, ctx.obligations, ctx.elapsed(),
        "OK" if rc == 0 else "VIOLATION"))
    return rc


if __name__ == "__main__":
    sys.exit(main(sys.argv[1:]))
