"""bin/setup: translate, full build of every .v file, extraction, kmodel, C++ probes."""
import sys

from . import check


def main():
    for x in check.translate():
        print("translator refused:", x)
    with check.BuildLock():
        check.make_makefile()
        rc, out = check.run_cmd(["make", "-j", "16"], cwd=check.COQ, timeout=3400)
        print(out[-3000:])
        if rc:
            return 1
        ok, msg = check.build_kmodel(force=True)
        print("kmodel:", msg[-2000:])
        return 0 if ok else 1


if __name__ == "__main__":
    sys.exit(main())
