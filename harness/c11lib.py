"""C11 support: generated machines, schedule replay (real code under harness/pysched.py vs the extracted LTS), the
independent property oracle on real runs, schedule generators."""
import os
import random

from . import kj, pysched
from .pysched import Ev, Run

NAME = "Y"


# ---------------------------------------------------------------- machines

def safe_table(rng):
    """A transition table in which every state has at least one outgoing row and all names are plain identifiers
    (so that every process(event) call reaches at least one controller callback)."""
    ns, ne = rng.randint(1, 3), rng.randint(1, 3)
    states = ["State%s%d" % (rng.choice("ABCD"), i) for i in range(ns)]
    events = ["Event%s%d" % (rng.choice("KLMN"), i) for i in range(ne)]
    if rng.random() < 0.15:
        # an event may be called anything that is a valid class name, e.g. the words of a tank / spooler / lock model
        events[rng.randrange(ne)] = rng.choice(["Empty", "Full", "Queue", "Thread", "Event", "Lock", "Timer"])
    rows = []
    for s in states:
        for e in rng.sample(events, rng.randint(1, ne)):
            guard = rng.choice(["None", "None", "GuardG%d" % rng.randint(0, 1)])
            rows.append([s, e, rng.choice(states + ["None"]), "OnAct%d" % rng.randint(0, 2), guard])
    used = []
    for r in rows:
        if r[1] not in used:
            used.append(r[1])
    return rows, used


def machine_sources(table, iface):
    with kj.scratch() as d:
        kj.generate("py", d, table=table, iface=iface, name=NAME)
        with open(os.path.join(d, NAME + "Controller.py")) as f:
            cs = f.read()
        with open(os.path.join(d, NAME + "StateMachine.py")) as f:
            ss = f.read()
    return cs, ss


def random_machine(rng, threaded=True):
    table, events = safe_table(rng)
    tags = {} if threaded else {"StateMachineThread": 0}
    iface = kj.events_interface(rng, table, "py", usertags=tags)
    cs, ss = machine_sources(table, iface)
    return {"table": table, "events": events, "controller": cs, "machine": ss, "threaded": threaded}


def norm_ir(ops, param=True):
    """IR with SetFlagParam f replaced by the constant the generated code carries."""
    res = []
    for o in ops:
        if o[0] == "SetFlagParam":
            res.append(("SetFlag", o[1], param))
        elif o[0] == "If":
            res.append(("If", o[1], norm_ir(o[2], param), norm_ir(o[3], param)))
        elif o[0] == "While":
            res.append(("While", o[1], norm_ir(o[2], param)))
        elif o[0] == "TryEmpty":
            res.append(("TryEmpty", norm_ir(o[1], param), norm_ir(o[2], param)))
        else:
            res.append(tuple(o))
    return res


def skeleton_matches(template_sk, machine_source, threaded=True):
    """The generated module has, for __init__/run/stop and for EVERY Trigger method, exactly the template's IR.
    Returns None or a description of the difference."""
    from translator import pysync
    try:
        sk = pysync.skeleton(machine_source)
    except pysync.Refuse as e:
        return "generated module refused: %s" % e
    ttrig = norm_ir(list(template_sk["triggers"].values())[0])
    for k in ("init", "run", "stop"):
        if norm_ir(sk[k], threaded) != norm_ir(template_sk[k], threaded):
            return "%s differs: %r vs template %r" % (k, sk[k], template_sk[k])
    for n, ir in sk["triggers"].items():
        if norm_ir(ir) != ttrig:
            return "%s differs: %r" % (n, ir)
    return None


# ---------------------------------------------------------------- scenarios

def random_events(rng, counter, classes, n, depth):
    res = []
    for _ in range(n):
        counter[0] += 1
        i = counter[0]
        kids = random_events(rng, counter, classes, rng.choice([0, 0, 0, 1, 2]), depth - 1) if depth > 0 else []
        res.append(Ev(i, rng.choice(classes), kids))
    return res


def random_scripts(rng, classes, max_prod=3, max_len=3, depth=2):
    counter = [0]
    scripts = {"main": random_events(rng, counter, classes, rng.choice([0, 0, 1, 2]), depth)}
    for p in range(rng.randint(0, max_prod)):
        scripts["p%d" % p] = random_events(rng, counter, classes, rng.randint(0, max_len), depth)
    return scripts


def scripts_json(scripts):
    return {k: [e.to_json() for e in v] for k, v in scripts.items()}


def scripts_from_json(j):
    return {k: [Ev.from_json(e) for e in v] for k, v in j.items()}


def tid_of(name):
    return 0 if name == "main" else 1 if name == "worker" else 2 + int(name[1:])


def name_of(tid):
    return "main" if tid == 0 else "worker" if tid == 1 else "p%d" % (tid - 2)


def kev(e):
    return [str(e.id), [kev(c) for c in e.children]]


def model_args(scripts, threaded):
    prods = sorted((k for k in scripts if k != "main"), key=lambda k: int(k[1:]))
    assert prods == ["p%d" % i for i in range(len(prods))]
    return ("1" if threaded else "0", [kev(e) for e in scripts.get("main", [])], [[kev(e) for e in scripts[p]] for p in prods])


def model_trace(km, scripts, threaded, schedule, old=False):
    thr, ms, ps = model_args(scripts, threaded)
    r = km.call("py_trace", "1" if old else "0", thr, ms, ps, [str(tid_of(n)) for n in schedule])
    steps = [(None if s[0] == b"-" else s[0].decode(), sorted(int(x) for x in s[1])) for s in r[0]]
    return {
        "steps": steps,
        "enabled": sorted(int(x) for x in r[1]),
        "all_finished": r[2] == b"1", "stop_called": r[3] == b"1", "stop_returned": r[4] == b"1",
        "log": [(x[0].decode(), int(x[1]), int(x[2])) for x in r[5]],
        "puts": [(int(x[0]), int(x[1])) for x in r[6]],
        "pre_stop": [(int(x[0]), int(x[1])) for x in r[7]],
        "queue": [int(x) for x in r[8]], "unfinished": int(r[9]), "worker_finished": r[10] == b"1",
    }


# ---------------------------------------------------------------- real runs

class RealRun:
    """The real generated machine under the controlled scheduler; records per step (labels, enabled set after)."""

    def __init__(self, m, scripts):
        self.run = Run(m["controller"], m["machine"], NAME, scripts)
        self.steps = []
        self.schedule = []
        self.deadlock_at = None

    def enabled(self):
        return self.run.enabled()

    def step(self, name):
        labels = self.run.step(name)
        en = self.run.enabled()
        self.schedule.append(name)
        lab = None if labels is None else (labels[0] if len(labels) == 1 else " + ".join(labels))
        self.steps.append((lab, sorted(tid_of(n) for n in en)))
        if not en and self.run.sched.unfinished() and self.deadlock_at is None:
            self.deadlock_at = len(self.schedule)
        return labels

    def log(self):
        return [(x[0], tid_of(x[1]), x[2]) for x in self.run.sched.log if x[0] in ("B", "E") and x[2] is not None]

    def result(self):
        r = self.run
        return {"steps": self.steps, "enabled": sorted(tid_of(n) for n in r.enabled()), "stop_called": r.stop_called,
                "stop_returned": r.stop_returned, "log": self.log(), "errors": r.errors(),
                "all_finished": not r.sched.unfinished()}

    def close(self):
        self.run.close()


def drive(real, rng, max_steps, style):
    """Random schedule chosen among the threads the REAL scheduler reports enabled, then a fair (round-robin) tail."""
    last = None
    n = 0
    while n < max_steps:
        en = real.enabled()
        if not en:
            break
        if style == "sticky" and last in en and rng.random() < 0.75:
            pick = last
        elif style == "starve_worker" and len(en) > 1 and "worker" in en and rng.random() < 0.9:
            pick = rng.choice([x for x in en if x != "worker"])
        elif style == "main_first" and "main" in en and rng.random() < 0.8:
            pick = "main"
        else:
            pick = rng.choice(en)
        real.step(pick)
        last = pick
        n += 1
    return n


def fair_tail(real, max_steps):
    """Round-robin over the enabled threads: every enabled thread is run again and again (the fairness assumption)."""
    n = 0
    order = []
    while n < max_steps:
        en = real.enabled()
        if not en:
            break
        if real.run.stop_returned and all(x == "worker" for x in en):
            break
        for x in en:
            if x not in order:
                order.append(x)
        pick = next(x for x in order if x in en)
        order.remove(pick)
        order.append(pick)
        real.step(pick)
        n += 1
    return n


# ---------------------------------------------------------------- the property, read off a real run (no model)

def oracle(real, scripts, threaded=True, expect_termination=False):
    """Independent reading of C11 on the observation of one real run.  Returns None or a description."""
    r = real.run
    trace = r.sched.trace            # (thread, label) in execution order
    log = real.log()
    all_ids = set()

    def ids(e):
        all_ids.add(e.id)
        for c in e.children:
            ids(c)
    for sc in scripts.values():
        for e in sc:
            ids(e)
    if r.errors():
        return "exception in a thread of the real run: %r" % r.errors()
    begun = [e for (k, _t, e) in log if k == "B"]
    # exactly once (at most once; completeness is checked at stop and at termination)
    if len(set(begun)) != len(begun):
        return "event processed twice: %r" % begun
    if not set(begun) <= all_ids:
        return "processed an event nobody triggered: %r" % begun
    # run to completion: B x immediately followed by E x, one at a time, on the worker thread
    for i in range(0, len(log), 2):
        b = log[i]
        if b[0] != "B":
            return "process() calls overlap: log %r" % (log,)
        if i + 1 < len(log):
            e = log[i + 1]
            if e[0] != "E" or e[1:] != b[1:]:
                return "process() calls overlap: log %r" % (log,)
    if threaded and any(t != 1 for (_k, t, _e) in log):
        return "event processed on a thread other than the worker: %r" % (log,)
    # order: consistent with each triggering thread's order of Trigger calls
    calls = {}
    for (t, lab) in trace:
        if lab.startswith("Call "):
            calls.setdefault(t, []).append(int(lab[5:]))
    pos = {e: i for i, e in enumerate(begun)}
    for t, seq in calls.items():
        done = [pos[e] for e in seq if e in pos]
        if done != sorted(done):
            return "events of %s processed out of its trigger order: triggered %r processed %r" % (t, seq, begun)
        if threaded:
            # FIFO without overtaking: a processed event's earlier siblings (same triggering thread) were processed
            seen_unprocessed = False
            for e in seq:
                if e not in pos:
                    seen_unprocessed = True
                elif seen_unprocessed:
                    return "event %d of %s processed while an earlier one of the same thread was skipped" % (e, t)
    # stop(): returned => every event put before the call is processed; nothing is processed afterwards
    labs = [lab for (_t, lab) in trace]
    if r.stop_returned:
        i_call = labs.index("StopCall")
        before = [int(l[4:]) for l in labs[:i_call] if l.startswith("Put ")]
        ended = [e for (k, _t, e) in r_log_until(real, r.log_len_at_stop_ret) if k == "E"]
        missing = [e for e in before if e not in ended]
        if missing:
            return "stop() returned although events triggered before the call are unprocessed: %r" % missing
        if len(r.sched.log) != r.log_len_at_stop_ret:
            return "an event was processed after stop() had returned: %r" % (r.sched.log[r.log_len_at_stop_ret:],)
    if real.deadlock_at is not None:
        return "deadlock: no thread can move at step %d, unfinished %r (stop() never returns)" % (
            real.deadlock_at, r.sched.unfinished())
    if expect_termination and threaded and not r.stop_returned:
        return "stop() has not returned after a fair schedule of %d steps" % len(real.schedule)
    return None


def r_log_until(real, n):
    return [(x[0], tid_of(x[1]), x[2]) for x in real.run.sched.log[:n] if x[0] in ("B", "E") and x[2] is not None]


def compare(real_res, model_res):
    """Real run vs extracted LTS on the same schedule: per step the operation label and the enabled set after it;
    at the end the log, the stop flags, termination.  Returns None or a description."""
    rs, ms = real_res["steps"], model_res["steps"]
    for i, (a, b) in enumerate(zip(rs, ms)):
        if a[0] != b[0]:
            return "step %d: real %r, model %r" % (i, a[0], b[0])
        if a[1] != b[1]:
            return "after step %d (%r): enabled threads real %r, model %r" % (i, a[0], a[1], b[1])
    for k in ("enabled", "stop_called", "stop_returned", "log", "all_finished"):
        if real_res[k] != model_res[k]:
            return "final %s: real %r, model %r" % (k, real_res[k], model_res[k])
    return None
