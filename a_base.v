(* C19 semantic read-back: attributes, packages and inheritances are read back as the specification says
   (goal_attr, goal_package, goal_inh of Proofs/UmlSemGoals.v). *)
From Coq Require Import String Ascii List Bool Arith Lia.
From KV Require Import Lib.Str Lib.ODict Model.Vpp Model.VppWriter Model.Uml Model.UmlBlob Model.UmlWriter Model.UmlSem
                       Proofs.UmlBlobDefs Proofs.UmlBlobStruct Proofs.UmlSemDefs Proofs.UmlSemDict Proofs.UmlSemGoals.
Import ListNotations.  Open Scope string_scope.

(* ---------------------------------------------------------------- booleans, strings *)

Ltac a_split :=
  repeat match goal with
         | H : (_ && _)%bool = true |- _ => apply andb_true_iff in H; destruct H
         end.

Lemma a_app_assoc : forall a b c : string, (a ++ b) ++ c = a ++ (b ++ c).
Proof. induction a as [|x a IH]; intros; cbn [append]; [reflexivity | rewrite IH; reflexivity]. Qed.

Lemma a_app_nil_r : forall a : string, a ++ "" = a.
Proof. induction a as [|x a IH]; cbn [append]; [reflexivity | rewrite IH; reflexivity]. Qed.

Lemma a_slen_app : forall a b, String.length (a ++ b) = String.length a + String.length b.
Proof. induction a as [|x a IH]; intros; cbn [append String.length]; [reflexivity | rewrite IH; reflexivity]. Qed.

Lemma a_substring_app_len : forall a b, substring 0 (String.length a) (a ++ b) = a.
Proof.
  induction a as [|c a IH]; intro b; [destruct b; reflexivity|].
  cbn [String.length append substring]. rewrite IH. reflexivity.
Qed.

Lemma a_unq_q : forall v, unq (q v) = v.
Proof.
  intro v. unfold q, dq. cbn [append unq]. rewrite Ascii.eqb_refl, a_slen_app. cbn [String.length].
  replace (String.length v + 1 - 1) with (String.length v) by lia. apply a_substring_app_len.
Qed.

Lemma a_unq_plain : forall c, prefixb dq c = false -> unq c = c.
Proof.
  intros c H. destruct c as [|x r]; [reflexivity|].
  unfold dq in H. cbn [prefixb] in H. rewrite andb_true_r in H. rewrite Ascii.eqb_sym in H.
  cbn [unq]. rewrite H. reflexivity.
Qed.

(* ---------------------------------------------------------------- str.strip *)

Lemma a_lstrip_len : forall s, String.length (lstrip s) <= String.length s.
Proof. induction s as [|c s IH]; cbn [lstrip]; [lia|]. destruct (is_space c); cbn [String.length]; lia. Qed.

Lemma a_rstrip_prefix : forall s, exists w, s = rstrip s ++ w.
Proof.
  induction s as [|c s [w Hw]]; [exists ""; reflexivity|].
  cbn [rstrip]. destruct (rstrip s) as [|y t] eqn:E.
  - destruct (is_space c); [exists (String c s); reflexivity | exists s; reflexivity].
  - exists w. cbn [append]. f_equal. exact Hw.
Qed.

Lemma a_strip_fix : forall s, py_strip s = s -> rstrip s = s /\ lstrip s = s.
Proof.
  intros s H. unfold py_strip in H. destruct (a_rstrip_prefix s) as [w Hw].
  pose proof (f_equal String.length Hw) as Hl. rewrite a_slen_app in Hl.
  pose proof (a_lstrip_len (rstrip s)) as H2. rewrite H in H2.
  destruct w as [|y w]; [|cbn [String.length] in Hl; lia].
  rewrite a_app_nil_r in Hw. split; [symmetry; exact Hw|]. rewrite <- Hw in H. exact H.
Qed.

Lemma a_lstrip_head : forall s, lstrip s = s -> s <> "" -> exists ch r, s = String ch r /\ is_space ch = false.
Proof.
  intros s H Hn. destruct s as [|c s]; [congruence|]. cbn [lstrip] in H. destruct (is_space c) eqn:E.
  - pose proof (a_lstrip_len s) as Hl. rewrite H in Hl. cbn [String.length] in Hl. lia.
  - exists c, s. split; [reflexivity | exact E].
Qed.

Lemma a_lstrip_app : forall s w, lstrip s = s -> s <> "" -> lstrip (s ++ w) = s ++ w.
Proof.
  intros s w H Hn. destruct (a_lstrip_head s H Hn) as [ch [r [E1 E2]]]. subst s.
  cbn [append lstrip]. rewrite E2. reflexivity.
Qed.

Lemma a_rstrip_app_ne : forall a b, rstrip b <> "" -> rstrip (a ++ b) = a ++ rstrip b.
Proof.
  induction a as [|c a IH]; intros b H; [reflexivity|].
  cbn [append rstrip]. rewrite (IH _ H). destruct (a ++ rstrip b) as [|y t] eqn:E; [|reflexivity].
  exfalso. destruct a; cbn [append] in E; [congruence | discriminate].
Qed.

Lemma a_strip_mid : forall a m b, py_strip a = a -> a <> "" -> py_strip b = b -> b <> "" -> py_strip (a ++ m ++ b) = a ++ m ++ b.
Proof.
  intros a m b Ha Hna Hb Hnb. destruct (a_strip_fix _ Ha) as [Har Hal]. destruct (a_strip_fix _ Hb) as [Hbr Hbl].
  unfold py_strip.
  assert (E : rstrip (m ++ b) = m ++ b) by (rewrite a_rstrip_app_ne; rewrite Hbr; [reflexivity | assumption]).
  rewrite a_rstrip_app_ne by (rewrite E; destruct m; [exact Hnb | cbn [append]; discriminate]).
  rewrite E. apply a_lstrip_app; assumption.
Qed.

(* ---------------------------------------------------------------- identifiers and paths *)

Lemma a_txt_strip : forall s, txt s = true -> py_strip s = s.
Proof. intros s H. unfold txt in H. a_split. apply String.eqb_eq. assumption. Qed.

Lemma a_ident_parts : forall s, ident s = true -> py_strip s = s /\ no_char ":" s = true /\ s <> "".
Proof.
  intros s H. unfold ident in H. a_split. repeat split.
  - apply a_txt_strip. assumption.
  - assumption.
  - match goal with H : negb (String.eqb s "") = true |- _ => apply negb_true_iff in H; apply String.eqb_neq in H; exact H end.
Qed.

Lemma a_join_cons2 : forall sep x y r, Uml.join sep (x :: y :: r) = x ++ sep ++ Uml.join sep (y :: r).
Proof. reflexivity. Qed.

Lemma a_join_ne : forall sep ids, ids <> [] -> forallb (fun i => negb (String.eqb i "")) ids = true -> Uml.join sep ids <> "".
Proof.
  intros sep ids Hn H. destruct ids as [|x r]; [congruence|].
  cbn [forallb] in H. a_split.
  match goal with H : negb (String.eqb x "") = true |- _ => apply negb_true_iff in H; apply String.eqb_neq in H; rename H into Hx end.
  destruct r as [|y r'].
  - exact Hx.
  - rewrite a_join_cons2. destruct x; [congruence | cbn [append]; discriminate].
Qed.

Lemma a_idents_ne : forall ids, forallb ident ids = true -> forallb (fun i => negb (String.eqb i "")) ids = true.
Proof.
  induction ids as [|x r IH]; intro H; [reflexivity|].
  cbn [forallb] in *. a_split. rewrite IH by assumption.
  match goal with H : ident x = true |- _ => unfold ident in H end. a_split.
  match goal with H : negb (String.eqb x "") = true |- _ => rewrite H end. reflexivity.
Qed.

Lemma a_path_strip : forall ids, ids <> [] -> forallb ident ids = true -> py_strip (path_text ids) = path_text ids.
Proof.
  unfold path_text. induction ids as [|x r IH]; intros Hn H; [congruence|].
  cbn [forallb] in H. a_split.
  destruct (a_ident_parts x ltac:(assumption)) as [Hx1 [Hx2 Hx3]].
  destruct r as [|y r'].
  - exact Hx1.
  - rewrite a_join_cons2. apply a_strip_mid; [exact Hx1 | exact Hx3 | apply IH; [discriminate | assumption] |].
    apply a_join_ne; [discriminate | apply a_idents_ne; assumption].
Qed.

(* ---------------------------------------------------------------- split_on *)

Lemma a_split_on_nonempty : forall c s, split_on c s <> [].
Proof.
  intros c s. destruct s as [|x s]; cbn [split_on]; [discriminate|].
  destruct (split_on c s); [discriminate|]. destruct (Ascii.eqb x c); discriminate.
Qed.

Lemma a_split_on_app : forall c a b, split_on c (a ++ String c b) = (split_on c a ++ split_on c b)%list.
Proof.
  intros c a b. induction a as [|x a IH].
  - cbn [append]. cbn [split_on]. generalize (a_split_on_nonempty c b).
    destruct (split_on c b); [congruence|]. intros _. rewrite Ascii.eqb_refl. reflexivity.
  - cbn [append]. cbn [split_on]. rewrite IH. generalize (a_split_on_nonempty c a).
    destruct (split_on c a) as [|h t]; [congruence|]. intros _. cbn [app].
    destruct (Ascii.eqb x c); reflexivity.
Qed.

Lemma a_split_on_none : forall c a, no_char c a = true -> split_on c a = [a].
Proof.
  intros c a. induction a as [|x a IH]; intro H; [reflexivity|].
  cbn [no_char] in H. apply andb_true_iff in H. destruct H as [H1 H2]. apply negb_true_iff in H1.
  cbn [split_on]. rewrite (IH H2), H1. reflexivity.
Qed.

Lemma a_split_join : forall ids, ids <> [] -> forallb (no_char ":") ids = true -> split_on ":" (Uml.join ":" ids) = ids.
Proof.
  induction ids as [|x r IH]; intros Hn H; [congruence|].
  cbn [forallb] in H. a_split.
  destruct r as [|y r'].
  - cbn [Uml.join]. apply a_split_on_none. assumption.
  - rewrite a_join_cons2. change (":" ++ Uml.join ":" (y :: r')) with (String ":" (Uml.join ":" (y :: r'))).
    rewrite a_split_on_app, a_split_on_none by assumption. rewrite IH; [reflexivity | discriminate | assumption].
Qed.

Lemma a_idents_nocolon : forall ids, forallb ident ids = true -> forallb (no_char ":") ids = true.
Proof.
  induction ids as [|x r IH]; intro H; [reflexivity|].
  cbn [forallb] in *. a_split. rewrite IH by assumption.
  destruct (a_ident_parts x ltac:(assumption)) as [_ [Hx _]]. rewrite Hx. reflexivity.
Qed.

(* ---------------------------------------------------------------- rstrip(':') *)

Lemma a_rstrip_char_app : forall c a b,
  rstrip_char c (a ++ b) = match rstrip_char c b with EmptyString => rstrip_char c a | r => a ++ r end.
Proof.
  intros c a b. induction a as [|x a IH].
  - cbn [append rstrip_char]. destruct (rstrip_char c b); reflexivity.
  - cbn [append rstrip_char]. rewrite IH. destruct (rstrip_char c b) as [|y t] eqn:E; [reflexivity|].
    destruct (a ++ String y t) eqn:E2; [|reflexivity].
    destruct a; cbn [append] in E2; discriminate.
Qed.

Lemma a_rstrip_char_none : forall c n, no_char c n = true -> rstrip_char c n = n.
Proof.
  intros c n. induction n as [|x n IH]; intro H; [reflexivity|].
  cbn [no_char] in H. a_split. cbn [rstrip_char]. rewrite IH by assumption.
  match goal with H : negb (Ascii.eqb x c) = true |- _ => apply negb_true_iff in H; rewrite H end.
  destruct n; reflexivity.
Qed.

Fixpoint a_cat (l : list string) : string := match l with [] => "" | x :: r => x ++ "::" ++ a_cat r end.

Lemma a_names_ne : forall l, forallb (fun n => no_char ":" n && negb (String.eqb n "")) l = true ->
  forallb (fun i => negb (String.eqb i "")) l = true.
Proof.
  induction l as [|z l IHl]; intro H; [reflexivity|].
  cbn [forallb] in *. a_split. rewrite IHl by assumption.
  match goal with H : negb (String.eqb z "") = true |- _ => rewrite H end. reflexivity.
Qed.

Lemma a_rstrip_cat : forall names, names <> [] -> forallb (fun n => no_char ":" n && negb (String.eqb n "")) names = true ->
  rstrip_char ":" (a_cat names) = Uml.join "::" names.
Proof.
  induction names as [|x r IH]; intros Hn H; [congruence|].
  cbn [forallb] in H. a_split.
  match goal with H : negb (String.eqb x "") = true |- _ => apply negb_true_iff in H; apply String.eqb_neq in H; rename H into Hx end.
  cbn [a_cat]. destruct r as [|y r'].
  - cbn [a_cat Uml.join]. rewrite a_rstrip_char_app. change (rstrip_char ":" ("::" ++ "")) with "".
    cbv iota. apply a_rstrip_char_none. assumption.
  - rewrite a_join_cons2. rewrite <- a_app_assoc. rewrite a_rstrip_char_app.
    rewrite IH; [|discriminate|assumption].
    assert (Hj : Uml.join "::" (y :: r') <> "").
    { apply a_join_ne; [discriminate | apply a_names_ne; assumption]. }
    destruct (Uml.join "::" (y :: r')) eqn:E; [congruence|]. rewrite a_app_assoc. reflexivity.
Qed.

(* ---------------------------------------------------------------- foldM *)

Lemma a_foldM_app : forall (A St : Type) (f : St -> A -> option St) (l1 l2 : list A) (s : St),
  foldM f (l1 ++ l2)%list s = match foldM f l1 s with Some s' => foldM f l2 s' | None => None end.
Proof.
  intros A St f l1. induction l1 as [|x r IH]; intros l2 s; [reflexivity|].
  cbn [app foldM]. unfold bind. destruct (f s x) as [s'|]; [apply IH | reflexivity].
Qed.

Lemma a_foldM_skip : forall (A St : Type) (f : St -> A -> option St) (l : list A) (s : St),
  (forall x, In x l -> forall s, f s x = Some s) -> foldM f l s = Some s.
Proof.
  intros A St f l. induction l as [|x r IH]; intros s H; [reflexivity|].
  cbn [foldM]. rewrite (H x (or_introl eq_refl)). unfold bind. apply IH.
  intros y Hy. apply H. right. exact Hy.
Qed.

(* ---------------------------------------------------------------- GetNestedTypeNamesFromNestedTypeIDS *)

Lemma a_names_fold : forall S g ids acc, g_names S g -> forallb (known S) ids = true ->
  foldM (fun acc t => e <- g t ;; Some (acc ++ ve_name e ++ "::")) ids acc
  = Some (acc ++ a_cat (map (fun i => ostr (name_of S i)) ids)).
Proof.
  intros S g ids. induction ids as [|x r IH]; intros acc Hg H.
  - cbn [foldM map a_cat]. rewrite a_app_nil_r. reflexivity.
  - cbn [forallb] in H. a_split. cbn [foldM map a_cat].
    match goal with H : known S x = true |- _ => unfold known in H; rename H into Hk end.
    destruct (name_of S x) as [n|] eqn:En; [|discriminate Hk].
    destruct (Hg x n En) as [v [Hv Hn]]. rewrite Hv. unfold bind at 2. unfold bind at 1.
    rewrite IH by assumption. rewrite Hn. cbn [ostr]. rewrite !a_app_assoc. reflexivity.
Qed.

Lemma a_path_known : forall S ids, path_ok S ids = true -> forallb (known S) ids = true.
Proof.
  intros S ids. unfold path_ok. induction ids as [|x r IH]; intro H; [reflexivity|].
  cbn [forallb] in *. a_split. rewrite IH by assumption.
  match goal with H : known S x = true |- _ => rewrite H end. reflexivity.
Qed.

Lemma a_path_ident : forall S ids, path_ok S ids = true -> forallb ident ids = true.
Proof.
  intros S ids. unfold path_ok. induction ids as [|x r IH]; intro H; [reflexivity|].
  cbn [forallb] in *. a_split. rewrite IH by assumption.
  match goal with H : ident x = true |- _ => rewrite H end. reflexivity.
Qed.

Lemma a_path_names : forall S ids, path_ok S ids = true ->
  forallb (fun n => no_char ":" n && negb (String.eqb n "")) (map (fun i => ostr (name_of S i)) ids) = true.
Proof.
  intros S ids. unfold path_ok. induction ids as [|x r IH]; intro H; [reflexivity|].
  cbn [forallb map] in *. a_split. rewrite IH by assumption.
  match goal with H : ident (ostr (name_of S x)) = true |- _ => unfold ident in H end. a_split.
  repeat match goal with H : _ = true |- _ => rewrite H; clear H end. reflexivity.
Qed.

Lemma a_nested : forall S g ids, g_names S g -> ids <> [] -> path_ok S ids = true ->
  nested_type_names g (path_text ids) = Some (type_name S ids).
Proof.
  intros S g ids Hg Hn H. unfold nested_type_names, path_text.
  rewrite a_split_join; [|exact Hn|apply a_idents_nocolon; apply (a_path_ident S); exact H].
  rewrite (a_names_fold S g ids "" Hg (a_path_known S ids H)). unfold bind. cbn [append].
  rewrite a_rstrip_cat; [reflexivity| |apply a_path_names; exact H].
  destruct ids; [congruence | discriminate].
Qed.

Lemma a_last_split : forall S ids, ids <> [] -> path_ok S ids = true -> last_of (split_on ":" (path_text ids)) = last ids "".
Proof.
  intros S ids Hn H. unfold path_text, last_of.
  rewrite a_split_join; [reflexivity|exact Hn|apply a_idents_nocolon; apply (a_path_ident S); exact H].
Qed.

Lemma a_type_clean : forall t, type_ok t = true -> clean_modifiers t = t.
Proof. intros t H. unfold type_ok in H. a_split. apply String.eqb_eq. assumption. Qed.

(* ---------------------------------------------------------------- the body dictionary of an element without owned elements *)

Definition a_flat (it : witem) : bool :=
  match it with IField _ _ v => negb (String.eqb (unq v) "") | IRefs _ _ _ _ _ _ => true | _ => false end.

Lemma a_layout_parts : forall f l, layout_ok f l = true ->
  nodup_tags l [] = true /\ nodups (entry_keys (items_of "" f l)) = true
  /\ forallb (fun k => negb (prefixb "child_" k)) (entry_keys (items_of "" f l)) = true
  /\ forallb (fun s => match s with SNoise k v => noise_key k && noise_val v | STag _ => true end) l = true
  /\ (forall t it, f t = Some it -> has_tag t l = true).
Proof.
  intros f l H. unfold layout_ok in H.
  apply andb_true_iff in H. destruct H as [H H5]. apply andb_true_iff in H. destruct H as [H H4].
  apply andb_true_iff in H. destruct H as [H H3]. apply andb_true_iff in H. destruct H as [H1 H2].
  repeat split; try assumption.
  intros t it Hf. cbn [forallb] in H5. a_split.
  destruct t; match goal with H : match f ?T with Some _ => _ | None => _ end = true |- has_tag ?T l = true => rewrite Hf in H; exact H end.
Qed.

Lemma a_noise_val_ne : forall v, noise_val v = true -> negb (String.eqb (unq v) "") = true.
Proof.
  intros v H. unfold noise_val in H. apply orb_true_iff in H. destruct H as [H|H].
  - a_split. rewrite a_unq_plain; [assumption|]. apply negb_true_iff. assumption.
  - remember (substring 1 (String.length v - 2) v) as u eqn:Eu. clear Eu. a_split.
    match goal with H : String.eqb v (q u) = true |- _ => apply String.eqb_eq in H; subst v end.
    rewrite a_unq_q. assumption.
Qed.

Lemma a_items_flat : forall ws f l,
  (forall t it, f t = Some it -> a_flat it = true) ->
  forallb (fun s => match s with SNoise k v => noise_key k && noise_val v | STag _ => true end) l = true ->
  forallb a_flat (items_of ws f l) = true.
Proof.
  intros ws f l Hf. induction l as [|s r IH]; intro H; [reflexivity|].
  cbn [forallb] in H. a_split. rewrite items_of_cons, forallb_app, IH by assumption. rewrite andb_true_r.
  destruct s as [k v|t].
  - cbn [forallb a_flat]. a_split. rewrite a_noise_val_ne by assumption. reflexivity.
  - destruct (f t) as [it|] eqn:E; [|reflexivity]. cbn [forallb]. rewrite (Hf t it E). reflexivity.
Qed.

Lemma a_flat_simple : forall its, forallb a_flat its = true -> forallb item_simple its = true /\ children_of its = [].
Proof.
  induction its as [|it r IH]; intro H; [split; reflexivity|].
  cbn [forallb] in H. a_split. destruct (IH ltac:(assumption)) as [I1 I2].
  unfold children_of in *. cbn [forallb flat_map]. rewrite I1, I2.
  destruct it; try discriminate; split; try reflexivity.
  cbn [a_flat item_simple] in *. rewrite andb_true_r. assumption.
Qed.

Lemma a_body : forall ws f l, layout_ok f l = true -> (forall t it, f t = Some it -> a_flat it = true) ->
  body_pv (items_of ws f l) = PDict (entries (items_of ws f l)).
Proof.
  intros ws f l H Hf. destruct (a_layout_parts f l H) as [_ [H2 [H3 [H4 _]]]].
  destruct (a_flat_simple _ (a_items_flat ws f l Hf H4)) as [S1 S2].
  rewrite body_explicit; [|exact S1|rewrite entry_keys_ws; exact H2|rewrite entry_keys_ws; exact H3].
  rewrite S2. cbn [map numbered]. rewrite app_nil_r. reflexivity.
Qed.

(* a noise key is none of the keys the adaptor asks for *)
Lemma a_noise_not_reserved : forall kn k, noise_key kn = true -> existsb (String.eqb k) reserved_keys = true -> kn <> k.
Proof.
  intros kn k H Hk E. subst kn. unfold noise_key in H. a_split.
  match goal with H : negb (existsb (String.eqb k) reserved_keys) = true |- _ => rewrite Hk in H; discriminate H end.
Qed.

Lemma a_lookup : forall ws f l k t0, layout_ok f l = true -> existsb (String.eqb k) reserved_keys = true ->
  (forall t, t <> t0 -> lookup String.eqb k (tag_entries f t) = None) ->
  lookup String.eqb k (entries (items_of ws f l)) = lookup String.eqb k (tag_entries f t0).
Proof.
  intros ws f l k t0 H Hk Ho. destruct (a_layout_parts f l H) as [_ [_ [_ [H4 H5]]]].
  rewrite lookup_drop_noise.
  - rewrite (lookup_single_tag f (tags_of l) k t0 Ho), <- has_tag_tags_of.
    unfold tag_entries at 2. destruct (f t0) as [it|] eqn:E.
    + rewrite (H5 t0 it E). unfold tag_entries. rewrite E. reflexivity.
    + destruct (has_tag t0 l); [unfold tag_entries; rewrite E|]; reflexivity.
  - intros kn vn Hin. rewrite forallb_forall in H4. specialize (H4 _ Hin). cbn beta iota in H4. a_split.
    apply a_noise_not_reserved; assumption.
Qed.

(* what the fields write *)
Definition a_text (k v : string) : list (string * UmlBlob.pv) := if String.eqb v "" then [] else [(k, PStr v)].
Definition a_flag (k : string) (b : bool) : list (string * UmlBlob.pv) := if b then [(k, PStr "T")] else [].
Definition a_ref (k : string) (ids : list string) : list (string * UmlBlob.pv) :=
  match ids with [] => [] | _ => [(k ++ "_0", PStr (path_text ids))] end.

Lemma a_text_entries : forall ws k v, match text_field ws k v with Some it => item_entries it | None => [] end = a_text k v.
Proof. intros. unfold text_field, a_text. destruct (String.eqb v ""); [reflexivity|]. cbn [item_entries]. rewrite a_unq_q. reflexivity. Qed.
Lemma a_flag_entries : forall ws k b, match flag_field ws k b with Some it => item_entries it | None => [] end = a_flag k b.
Proof. intros. unfold flag_field, a_flag. destruct b; reflexivity. Qed.
Lemma a_ref_entries : forall ws k ids, match ref_field ws k ids with Some it => item_entries it | None => [] end = a_ref k ids.
Proof. intros. unfold ref_field, a_ref. destruct ids; reflexivity. Qed.

Lemma a_text_flat : forall ws k v it, text_field ws k v = Some it -> a_flat it = true.
Proof.
  intros ws k v it H. unfold text_field in H. destruct (String.eqb v "") eqn:E; [discriminate|].
  injection H as H. subst it. cbn [a_flat]. rewrite a_unq_q, E. reflexivity.
Qed.
Lemma a_flag_flat : forall ws k b it, flag_field ws k b = Some it -> a_flat it = true.
Proof. intros ws k b it H. unfold flag_field in H. destruct b; [|discriminate]. injection H as H. subst it. reflexivity. Qed.
Lemma a_ref_flat : forall ws k ids it, ref_field ws k ids = Some it -> a_flat it = true.
Proof. intros ws k ids it H. unfold ref_field in H. destruct ids; [discriminate|]. injection H as H. subst it. reflexivity. Qed.
